//! C10 — glyph variation deltas survive encoding, IUP optimisation and application.
//!
//! Correspondence (real code vs Lean model, Model/PackedDeltas.lean + Model/Iup.lean):
//!   * write-fonts `PackedDeltas` / `PackedPointNumbers` bytes, read-fonts `PackedDeltas`,
//!     `PackedPointNumbers`, `TupleVariation::deltas()` on valid and damaged bytes;
//!   * `iup_delta_optimize` required/optional flags on integer inputs.
//! Oracles (model independent): write -> read round trips; optional deltas are reproduced by
//! inference from retained neighbours within tolerance (exact rational arithmetic);
//! gvar built by write-fonts, read back and drawn by skrifa equals default + sum scalar*delta.
use fv_harness::common::*;

mod packed {
    use super::*;
    use read_fonts::tables::variations as rv;
    use read_fonts::{FontData, FontRead};
    use write_fonts::tables::variations as wv;

    pub const VALS: [i32; 30] = [
        0, 1, -1, 2, 100, 126, 127, -127, 128, -128, 129, -129, 255, 256, -255, -256, 300, 32766,
        32767, -32767, 32768, -32768, 32769, -32769, 65535, 65536, -65536, 70000, i32::MAX,
        i32::MIN,
    ];
    const LENS: [usize; 16] = [1, 1, 1, 2, 2, 3, 5, 31, 62, 63, 64, 65, 66, 127, 128, 129];

    fn kind_value(rng: &mut Rng, kind: u64) -> i32 {
        match kind {
            0 => 0,
            1 => *rng.pick(&[1, -1, 2, 100, 126, 127, -127, -128]),
            2 => *rng.pick(&[128, -129, 255, 256, -255, -256, 300, 32766, 32767, -32767, -32768]),
            _ => *rng.pick(&[32768, -32769, 65535, 65536, -65536, 70000, i32::MAX, i32::MIN]),
        }
    }

    /// segment-structured delta vectors: runs of one kind with lengths around the caps,
    /// optionally peppered with single values of another kind.
    pub fn gen_deltas(rng: &mut Rng, max_i16: bool) -> Vec<i32> {
        let nseg = 1 + rng.below(5) as usize;
        let mut out = vec![];
        let kinds = if max_i16 { 3 } else { 4 };
        for _ in 0..nseg {
            let kind = rng.below(kinds);
            let len = if rng.chance(1, 3) { 1 + rng.below(6) as usize } else { *rng.pick(&LENS) };
            let pepper = rng.below(4); // 0 none, else another kind sprinkled
            let pk = rng.below(kinds);
            let every = 2 + rng.below(5) as usize;
            for i in 0..len {
                let k = if pepper != 0 && i % every == every - 1 { pk } else { kind };
                out.push(kind_value(rng, k));
                if pepper == 3 && i % every == every - 1 && rng.chance(1, 2) {
                    out.push(kind_value(rng, pk)); // doubled pepper (two zeros, two bytes …)
                }
            }
        }
        out
    }

    pub fn write_deltas(ds: &[i32]) -> Result<Vec<u8>, String> {
        let ds = ds.to_vec();
        catch(move || write_fonts::dump_table(&wv::PackedDeltas::new(ds)).map_err(|e| e.to_string()))
            .and_then(|r| r)
    }

    pub fn write_points(ps: &[u16]) -> Result<Vec<u8>, String> {
        let ps = ps.to_vec();
        catch(move || {
            write_fonts::dump_table(&wv::PackedPointNumbers::Some(ps)).map_err(|e| e.to_string())
        })
        .and_then(|r| r)
    }

    /// hand-assembled single-glyph gvar whose only tuple has the given point-number bytes
    /// (private, or shared when `shared`) and packed delta bytes.
    pub fn craft_gvar(pt: &[u8], deltas: &[u8], shared: bool) -> Vec<u8> {
        let mut ser: Vec<u8> = vec![];
        ser.extend_from_slice(pt);
        ser.extend_from_slice(deltas);
        let var_size = if shared { deltas.len() } else { ser.len() } as u16;
        let mut g: Vec<u8> = vec![];
        let count: u16 = 1 | if shared { 0x8000 } else { 0 };
        g.extend_from_slice(&count.to_be_bytes());
        let header_len = 4 + 2; // size, index, one peak coord (axis count 1)
        g.extend_from_slice(&((4 + header_len) as u16).to_be_bytes());
        g.extend_from_slice(&var_size.to_be_bytes());
        let idx: u16 = 0x8000 | if shared { 0 } else { 0x2000 };
        g.extend_from_slice(&idx.to_be_bytes());
        g.extend_from_slice(&0x4000u16.to_be_bytes());
        g.extend_from_slice(&ser);
        let mut t: Vec<u8> = vec![];
        t.extend_from_slice(&[0, 1, 0, 0]); // version
        t.extend_from_slice(&1u16.to_be_bytes()); // axis count
        t.extend_from_slice(&0u16.to_be_bytes()); // shared tuple count
        t.extend_from_slice(&28u32.to_be_bytes()); // shared tuples offset
        t.extend_from_slice(&1u16.to_be_bytes()); // glyph count
        t.extend_from_slice(&1u16.to_be_bytes()); // flags: long offsets
        t.extend_from_slice(&28u32.to_be_bytes()); // data array offset
        t.extend_from_slice(&0u32.to_be_bytes());
        t.extend_from_slice(&(g.len() as u32).to_be_bytes());
        assert_eq!(t.len(), 28);
        t.extend_from_slice(&g);
        t
    }

    /// `TupleVariation::deltas()` of the crafted table, canonical `pos:x:y …`; `limit` guards
    /// against a runaway iterator.
    pub fn read_tuple_deltas(pt: &[u8], deltas: &[u8], shared: bool) -> String {
        let bytes = craft_gvar(pt, deltas, shared);
        let r = catch(|| {
            let gvar = read_fonts::tables::gvar::Gvar::read(FontData::new(&bytes)).map_err(|e| format!("{e}"))?;
            let data = gvar
                .glyph_variation_data(read_fonts::types::GlyphId::new(0))
                .map_err(|e| format!("{e}"))?
                .ok_or("nodata".to_string())?;
            let mut out = vec![];
            for t in data.tuples() {
                for d in t.deltas().take(200_000) {
                    out.push(format!("{}:{}:{}", d.position, d.x_delta, d.y_delta));
                }
            }
            Ok::<_, String>(out)
        });
        match r {
            Ok(Ok(v)) => join(&v),
            Ok(Err(e)) => format!("err:{e}"),
            Err(_) => "trap".into(),
        }
    }

    /// request line for the model: the serialized bytes exactly as the reader sees them
    fn td_req(pt: &[u8], deltas: &[u8], shared: bool) -> String {
        let mut ser = pt.to_vec();
        ser.extend_from_slice(deltas);
        if shared { format!("td.shared {} {}", deltas.len(), hex(&ser)) } else { format!("td.priv {}", hex(&ser)) }
    }

    pub fn gen_points(rng: &mut Rng) -> Vec<u16> {
        const GAPS: [u32; 14] = [0, 1, 1, 2, 5, 126, 127, 128, 129, 254, 255, 256, 257, 1000];
        let n = match rng.below(8) {
            0 => 1 + rng.below(4) as usize,
            1 => *rng.pick(&[126usize, 127, 128, 129, 130, 255, 256, 257]),
            2 => 100 + rng.below(200) as usize,
            _ => 1 + rng.below(40) as usize,
        };
        let mode = rng.below(4);
        let mut out = vec![];
        let mut cur: u32 = if rng.chance(1, 2) { 0 } else { *rng.pick(&GAPS) };
        let mut first = true;
        for i in 0..n {
            if !first {
                let gap = match mode {
                    0 => 1,
                    1 => *rng.pick(&GAPS),
                    2 => if (i / 130) % 2 == 0 { 1 + rng.below(255) as u32 } else { 256 + rng.below(300) as u32 },
                    _ => if rng.chance(1, 8) { 256 + rng.below(3) as u32 } else { 1 + rng.below(3) as u32 },
                };
                cur += gap.max(1);
            }
            first = false;
            if cur > 65535 {
                break;
            }
            out.push(cur as u16);
        }
        out
    }

    pub fn run(cfg: &Config, s: &mut Session, rng: &mut Rng) {
        let n_delta = if cfg.thorough() { 20000 } else { 2500 };
        // ---- packed deltas: writer bytes, reader round trip, size bookkeeping
        let mut fixed: Vec<Vec<i32>> = vec![vec![], vec![0], vec![0; 64], vec![0; 65], vec![1; 64], vec![1; 65],
            vec![300; 64], vec![300; 65], vec![70000; 64], vec![70000; 65], vec![1, 0, 1], vec![1, 0, 0, 1],
            vec![300, 0, 300], vec![300, 5, 300], vec![300, 5, 5, 300], vec![300, 5, 0], vec![300, 5],
            vec![70000, 5, 70000], vec![70000, 0, 70000], vec![i32::MIN, i32::MAX, 0, -1]];
        for &a in VALS.iter() {
            for &b in VALS.iter() {
                fixed.push(vec![a, b]);
                fixed.push(vec![a, b, a]);
                fixed.push(vec![a, b, b, a]);
            }
        }
        let total = fixed.len() + n_delta;
        for i in 0..total {
            let ds = if i < fixed.len() { fixed[i].clone() } else { gen_deltas(rng, false) };
            let w = write_deltas(&ds);
            let hexed = match &w { Ok(b) => hex(b), Err(_) => "trap".into() };
            s.case("PackedDeltas::write", format!("pd.enc {}", join(&ds)), hexed);
            let Ok(bytes) = w else {
                s.oracle("packed-deltas-write-no-panic", false, || join(&ds), || format!("{w:?}"));
                continue;
            };
            s.count(&format!("deltas.len~{}", match ds.len() { 0 => "0", 1..=63 => "1-63", 64 => "64", 65..=127 => "65-127", _ => "128+" }));
            // real reader on real writer output
            let back: Result<Vec<i32>, String> = catch(|| rv::PackedDeltas::consume_all(FontData::new(&bytes)).iter().collect());
            s.oracle("packed-deltas-roundtrip", back.as_ref().ok() == Some(&ds), || join(&ds), || format!("bytes {} read back {:?}", hex(&bytes), back.as_ref().map(|v| join(v))));
            s.case("PackedDeltas::consume_all", format!("pd.decall {}", hex(&bytes)), trap_or(back.map(|v| join(&v))));
            // run structure statistics from the bytes
            let mut off = 0;
            while off < bytes.len() {
                let c = bytes[off];
                let n = (c & 0x3f) as usize + 1;
                let (name, sz) = match c >> 6 { 0 => ("i8", 1), 1 => ("i16", 2), 2 => ("zero", 0), _ => ("i32", 4) };
                s.count(&format!("run:{name}:{}", if n == 64 { "64" } else if n == 1 { "1" } else { "2-63" }));
                off += 1 + n * sz;
            }
        }
        // ---- x/y split through TupleVariation::deltas(), all points (count byte 0)
        for i in 0..n_delta {
            let n = if i % 3 == 0 { *rng.pick(&LENS) } else { 1 + rng.below(70) as usize };
            let mut xs = gen_deltas(rng, true);
            let mut ys = gen_deltas(rng, true);
            xs.resize(n, 0);
            ys.resize(n, 1);
            let (Ok(bx), Ok(by)) = (write_deltas(&xs), write_deltas(&ys)) else { continue };
            let mut db = bx.clone();
            db.extend_from_slice(&by);
            let got = read_tuple_deltas(&[0], &db, false);
            let want: Vec<String> = (0..n).map(|k| format!("{k}:{}:{}", xs[k], ys[k])).collect();
            s.oracle("tuple-deltas-dense-roundtrip", got == join(&want), || format!("x={} y={}", join(&xs), join(&ys)), || format!("got {got}"));
            s.case("TupleVariation::deltas(all)", format!("td.priv 00{}", hex(&db)), got);
        }
        // ---- packed point numbers
        let n_pts = if cfg.thorough() { 12000 } else { 1500 };
        let mut fixed_pts: Vec<Vec<u16>> = vec![vec![0], vec![65535], vec![0, 65535], vec![255], vec![256], vec![0, 255], vec![0, 256],
            vec![1, 256, 257], vec![1, 257, 258], (0..127).collect(), (0..128).collect(), (0..129).collect(), (0..300).collect(),
            (0..128).map(|i| i * 256).collect(), (0..129).map(|i| i * 300).collect(), (0..200).map(|i| i * 255).collect(), vec![3, 3], vec![]];
        fixed_pts.push((0..0x7fffu32).map(|i| i as u16).collect());
        let totalp = fixed_pts.len() + n_pts;
        for i in 0..totalp {
            let ps = if i < fixed_pts.len() { fixed_pts[i].clone() } else { gen_points(rng) };
            let w = write_points(&ps);
            s.case("PackedPointNumbers::write", format!("pp.enc {}", join(&ps)), match &w { Ok(b) => hex(b), Err(_) => "trap".into() });
            let Ok(bytes) = w else {
                s.oracle("packed-points-write-no-panic", false, || join(&ps), || format!("{w:?}"));
                continue;
            };
            s.count(&format!("points.len~{}", match ps.len() { 0 => "0", 1..=126 => "1-126", 127 => "127", 128 => "128", 129..=255 => "129-255", _ => "256+" }));
            let mut padded = bytes.clone();
            padded.extend_from_slice(&[0xAB, 0xCD, 0xEF]);
            let rd = catch(|| {
                let (p, rest) = rv::PackedPointNumbers::split_off_front(FontData::new(&padded));
                let c = p.count();
                let l: Vec<u16> = if c == 0 { vec![] } else { p.iter().collect() };
                (c, rest.len(), l)
            });
            let ok = match &rd { Ok((c, rest, l)) => *rest == 3 && ((ps.is_empty() && *c == 0) || (*c as usize == ps.len() && l == &ps)), Err(_) => false };
            if ps.is_empty() {
                // documented: Some([]) is indistinguishable from All
                s.oracle("packed-points-empty-some-reads-as-all", matches!(&rd, Ok((0, 3, _))), || "Some([])".into(), || format!("{rd:?}"));
            } else {
                s.oracle("packed-points-roundtrip", ok, || join(&ps), || format!("bytes {} read back {rd:?}", hex(&bytes)));
            }
            let canon = match &rd { Ok((c, rest, l)) => format!("{c} {rest} {}", if *c == 0 { "all".to_string() } else { join(l) }), Err(_) => "trap".into() };
            s.case("PackedPointNumbers::read", format!("pp.dec {}", hex(&padded)), canon);
            // sparse tuple: these points with x = point number, y = -index
            if !ps.is_empty() && ps.len() <= 400 {
                let xs: Vec<i32> = ps.iter().map(|p| *p as i32).collect();
                let ys: Vec<i32> = (0..ps.len()).map(|k| -(k as i32)).collect();
                let (Ok(bx), Ok(by)) = (write_deltas(&xs), write_deltas(&ys)) else { continue };
                let mut db = bx.clone();
                db.extend_from_slice(&by);
                let shared = i % 2 == 0;
                let got = read_tuple_deltas(&bytes, &db, shared);
                let strictly = ps.windows(2).all(|w| w[0] < w[1]);
                let want: Vec<String> = (0..ps.len()).map(|k| format!("{}:{}:{}", ps[k], xs[k], ys[k])).collect();
                if strictly {
                    s.oracle("tuple-deltas-sparse-roundtrip", got == join(&want), || join(&ps), || format!("got {got}"));
                }
                s.case("TupleVariation::deltas(sparse)", td_req(&bytes, &db, shared), got);
            }
        }
        // ---- unsorted / duplicate point numbers: writer traps (u16 subtraction) or reader skips
        for _ in 0..(n_pts / 10) {
            let mut ps = gen_points(rng);
            ps.truncate(12);
            if ps.len() >= 2 {
                let a = rng.below(ps.len() as u64) as usize;
                let b = rng.below(ps.len() as u64) as usize;
                ps.swap(a, b);
                if rng.chance(1, 3) { ps[a] = ps[b]; }
            }
            let w = write_points(&ps);
            s.count(if w.is_ok() { "unsorted-points:written" } else { "unsorted-points:trap" });
            s.case("PackedPointNumbers::write(unsorted)", format!("pp.enc {}", join(&ps)), match &w { Ok(b) => hex(b), Err(_) => "trap".into() });
        }
        // ---- reader on damaged / arbitrary bytes (totality + same answers as the model)
        let n_fuzz = if cfg.thorough() { 30000 } else { 4000 };
        for i in 0..n_fuzz {
            let (mut pb, mut db): (Vec<u8>, Vec<u8>);
            if i % 4 == 0 {
                let k = rng.below(6) as usize + 1;
                pb = rng.bytes(k);
                if rng.chance(1, 2) { pb[0] &= 0x0f; }
                let k = rng.below(24) as usize;
                db = rng.bytes(k);
            } else {
                let mut ps = gen_points(rng);
                ps.truncate(1 + rng.below(20) as usize);
                pb = if rng.chance(1, 4) { vec![0] } else { write_points(&ps).unwrap_or(vec![0]) };
                let n = if pb == [0] { 1 + rng.below(70) as usize } else { ps.len() };
                let mut xs = gen_deltas(rng, false);
                let mut ys = gen_deltas(rng, false);
                xs.resize(n, 7);
                ys.resize(n, 0);
                db = write_deltas(&xs).unwrap_or_default();
                db.extend_from_slice(&write_deltas(&ys).unwrap_or_default());
                // damage
                match rng.below(6) {
                    0 => { let k = rng.below(db.len() as u64 + 1) as usize; db.truncate(k); }
                    1 => { if !db.is_empty() { let k = rng.below(db.len() as u64) as usize; db[k] ^= 1 << rng.below(8); } }
                    2 => { if !pb.is_empty() { let k = rng.below(pb.len() as u64) as usize; pb[k] ^= 1 << rng.below(8); } }
                    3 => { let k = rng.below(pb.len() as u64 + 1) as usize; pb.truncate(k.max(1)); }
                    4 => { db.extend_from_slice(&rng.bytes(3)); }
                    _ => {}
                }
            }
            let shared = rng.chance(1, 2);
            let got = read_tuple_deltas(&pb, &db, shared);
            s.oracle("tuple-deltas-total", got != "trap", || format!("points {} deltas {}", hex(&pb), hex(&db)), || got.clone());
            s.count(if got == "-" { "fuzz:empty" } else { "fuzz:some" });
            s.case("TupleVariation::deltas(damaged)", td_req(&pb, &db, shared), got);
            // the stand-alone point reader
            let rd = catch(|| {
                let (p, rest) = rv::PackedPointNumbers::split_off_front(FontData::new(&pb));
                let c = p.count();
                let l: Vec<u16> = if c == 0 { vec![] } else { p.iter().collect() };
                (c, rest.len(), l)
            });
            s.oracle("packed-points-read-total", rd.is_ok(), || hex(&pb), || format!("{rd:?}"));
            if let Ok((c, _, l)) = &rd {
                s.oracle("packed-points-yield-bound", l.len() <= *c as usize, || hex(&pb), || format!("{rd:?}"));
            }
            let canon = match &rd { Ok((c, rest, l)) => format!("{c} {rest} {}", if *c == 0 { "all".to_string() } else { join(l) }), Err(_) => "trap".into() };
            s.case("PackedPointNumbers::read(damaged)", format!("pp.dec {}", hex(&pb)), canon);
            let all: Result<Vec<i32>, String> = catch(|| rv::PackedDeltas::consume_all(FontData::new(&db)).iter().collect());
            s.oracle("packed-deltas-read-total", all.is_ok(), || hex(&db), || format!("{all:?}"));
            s.case("PackedDeltas::consume_all(damaged)", format!("pd.decall {}", hex(&db)), trap_or(all.map(|v| join(&v))));
        }
    }
}

mod iup {
    use super::*;
    use kurbo::{Point, Vec2};
    use write_fonts::tables::gvar::iup::{iup_delta_optimize, IupError};

    pub type P = (i64, i64);

    /// exact fraction num/den, den > 0
    #[derive(Clone, Copy, Debug)]
    pub struct Fr(pub i128, pub i128);

    /// the specification's inference for one axis (OpenType gvar "inferred deltas"), written
    /// independently of both the Rust under test and the Lean model
    pub fn infer_axis(ca: i64, da: i64, cb: i64, db: i64, c: i64) -> Fr {
        let (ca, da, cb, db, c) = (ca as i128, da as i128, cb as i128, db as i128, c as i128);
        if ca == cb {
            return Fr(if da == db { da } else { 0 }, 1);
        }
        let (lo, dlo, hi, dhi) = if ca < cb { (ca, da, cb, db) } else { (cb, db, ca, da) };
        if c <= lo { Fr(dlo, 1) } else if c >= hi { Fr(dhi, 1) } else { Fr(dlo * (hi - lo) + (c - lo) * (dhi - dlo), hi - lo) }
    }

    fn is_pow2(x: i128) -> bool { x > 0 && (x & (x - 1)) == 0 }
    fn gcd(a: i128, b: i128) -> i128 { if b == 0 { a.abs() } else { gcd(b, a % b) } }

    /// does the f64 evaluation `d1 + (c - c1) * ((d2 - d1) / (c2 - c1))` involve rounding?
    pub fn inexact_axis(ca: i64, da: i64, cb: i64, db: i64, c: i64) -> bool {
        if ca == cb { return false; }
        let (lo, hi) = if ca < cb { (ca, cb) } else { (cb, ca) };
        if c <= lo || c >= hi { return false; }
        let num = (da - db).abs() as i128;
        let den = (hi - lo) as i128;
        let g = gcd(num, den);
        !is_pow2(den / g.max(1))
    }

    /// err² - tol² as f64 (exact rational evaluated at the end), for delta `d` vs inferred (ix, iy)
    pub fn excess(d: P, ix: Fr, iy: Fr, tn: i64, td: i64) -> f64 {
        let ex = d.0 as i128 * ix.1 - ix.0;
        let ey = d.1 as i128 * iy.1 - iy.0;
        let lhs = (ex * ex * iy.1 * iy.1 + ey * ey * ix.1 * ix.1) * (td as i128 * td as i128);
        let rhs = (tn as i128 * tn as i128) * ix.1 * ix.1 * iy.1 * iy.1;
        (lhs - rhs) as f64 / ((ix.1 * ix.1 * iy.1 * iy.1) as f64 * (td as f64 * td as f64))
    }

    /// exact inferred deltas for a whole contour given which points are retained; `None` entries
    /// in the result are retained points.  Independent reference (spec wording: nearest retained
    /// point before and after, cyclically; one retained point => everything moves by its delta;
    /// none => zero).
    pub fn infer_contour(cs: &[P], ds: &[P], keep: &[bool]) -> Vec<Option<(Fr, Fr)>> {
        let n = cs.len();
        let kept: Vec<usize> = (0..n).filter(|i| keep[*i]).collect();
        (0..n).map(|k| {
            if keep[k] { return None; }
            if kept.is_empty() { return Some((Fr(0, 1), Fr(0, 1))); }
            let mut a = k;
            loop { a = (a + n - 1) % n; if keep[a] { break; } }
            let mut b = k;
            loop { b = (b + 1) % n; if keep[b] { break; } }
            Some((infer_axis(cs[a].0, ds[a].0, cs[b].0, ds[b].0, cs[k].0), infer_axis(cs[a].1, ds[a].1, cs[b].1, ds[b].1, cs[k].1)))
        }).collect()
    }

    /// any (from, to, k) triple the optimiser may evaluate whose f64 verdict could differ from
    /// the exact one?
    pub fn knife_edge(cs: &[P], ds: &[P], tn: i64, td: i64) -> bool {
        let n = cs.len();
        if n < 3 { return false; }
        for a in 0..n {
            for gap in 2..=n.min(9) {
                if gap >= n { break; }
                let b = (a + gap) % n;
                for step in 1..gap {
                    let k = (a + step) % n;
                    let inx = inexact_axis(cs[a].0, ds[a].0, cs[b].0, ds[b].0, cs[k].0);
                    let iny = inexact_axis(cs[a].1, ds[a].1, cs[b].1, ds[b].1, cs[k].1);
                    if !(inx || iny) { continue; }
                    let ix = infer_axis(cs[a].0, ds[a].0, cs[b].0, ds[b].0, cs[k].0);
                    let iy = infer_axis(cs[a].1, ds[a].1, cs[b].1, ds[b].1, cs[k].1);
                    if excess(ds[k], ix, iy, tn, td).abs() <= 1e-9 { return true; }
                }
            }
        }
        false
    }

    pub fn fmt_pts(v: &[P]) -> String {
        join(&v.iter().map(|p| format!("{},{}", p.0, p.1)).collect::<Vec<_>>())
    }

    pub struct Case { pub cs: Vec<P>, pub ds: Vec<P>, pub ends: Vec<usize>, pub tn: i64, pub td: i64 }

    impl Case {
        pub fn req(&self) -> String {
            format!("iup.opt {} {} | {} | {} | {}", self.tn, self.td, join(&self.ends), fmt_pts(&self.cs), fmt_pts(&self.ds))
        }
    }

    pub fn run_real(c: &Case) -> Result<Result<Vec<(i16, i16, bool)>, String>, String> {
        let deltas: Vec<Vec2> = c.ds.iter().map(|d| Vec2::new(d.0 as f64, d.1 as f64)).collect();
        let coords: Vec<Point> = c.cs.iter().map(|p| Point::new(p.0 as f64, p.1 as f64)).collect();
        let tol = c.tn as f64 / c.td as f64;
        let ends = c.ends.clone();
        catch(move || {
            iup_delta_optimize(deltas, coords, tol, &ends)
                .map(|v| v.iter().map(|g| (g.x, g.y, g.required)).collect::<Vec<_>>())
                .map_err(|e| match e {
                    IupError::DeltaCoordLengthMismatch { .. } => "DeltaCoordLengthMismatch".to_string(),
                    IupError::NotEnoughCoords(_) => "NotEnoughCoords".to_string(),
                    IupError::CoordEndsMismatch { .. } => "CoordEndsMismatch".to_string(),
                    IupError::AchievedInvalidState(_) => "AchievedInvalidState".to_string(),
                })
        })
    }

    /// contour slices (start, end inclusive) incl. the four phantom points
    pub fn contours(c: &Case) -> Vec<(usize, usize)> {
        let mut ends = c.ends.clone();
        ends.sort();
        let n = c.cs.len();
        for o in (1..=4).rev() { ends.push(n - o); }
        let mut out = vec![];
        let mut start = 0;
        for e in ends { if e + 1 > start { out.push((start, e)); } start = e + 1; }
        out
    }

    pub fn check(s: &mut Session, group: &'static str, c: &Case) {
        let real = run_real(c);
        let canon = match &real {
            Ok(Ok(v)) => join(&v.iter().map(|(x, y, r)| format!("{x},{y},{}", *r as u8)).collect::<Vec<_>>()),
            Ok(Err(e)) => format!("err:{e}"),
            Err(_) => "trap".into(),
        };
        s.oracle("iup-optimize-no-panic", real.is_ok(), || c.req(), || format!("{real:?}"));
        let Ok(Ok(out)) = real else {
            if canon.starts_with("err:AchievedInvalidState") {
                s.oracle("iup-optimize-no-invalid-state", false, || c.req(), || canon.clone());
            }
            s.case(group, c.req(), canon);
            return;
        };
        // ---- soundness oracle on the real output, contour by contour, exact arithmetic
        let mut knife = false;
        let mut n_opt = 0usize;
        for (a, b) in contours(c) {
            let cs = &c.cs[a..=b];
            let ds = &c.ds[a..=b];
            let keep: Vec<bool> = out[a..=b].iter().map(|g| g.2).collect();
            let values_ok = out[a..=b].iter().zip(ds).all(|(g, d)| g.0 as i64 == d.0 && g.1 as i64 == d.1);
            s.oracle("iup-values-unchanged", values_ok, || c.req(), || canon.clone());
            let inferred = infer_contour(cs, ds, &keep);
            // the Lean specification `inferSpec` (used by the theorems) against this independent reference
            if cs.len() >= 3 && cs.len() <= 64 && (cs[0].0 + 3 * ds[0].0 + cs[1].1 + cs.len() as i64).rem_euclid(3) == 0 {
                let red = |f: &Fr| { let g = gcd(f.0, f.1).max(1); format!("{}/{}", f.0 / g, f.1 / g) };
                let canon_inf: Vec<String> = inferred.iter().enumerate().map(|(k, inf)| match inf {
                    None => format!("{}/1,{}/1", ds[k].0, ds[k].1),
                    Some((ix, iy)) => format!("{},{}", red(ix), red(iy)) }).collect();
                s.case("specification inference (independent reference)",
                    format!("iup.infer | {} | {} | {}", fmt_pts(cs), fmt_pts(ds), join(&keep.iter().map(|b| *b as u8).collect::<Vec<_>>())),
                    join(&canon_inf));
            }
            for (k, inf) in inferred.iter().enumerate() {
                if let Some((ix, iy)) = inf {
                    n_opt += 1;
                    let ex = excess(ds[k], *ix, *iy, c.tn, c.td);
                    s.oracle("iup-optional-within-tolerance", ex <= 1e-9,
                        || c.req(), || format!("contour {a}..={b} point {k} delta {:?} inferred {:?}/{:?} excess {ex}; flags {canon}", ds[k], ix, iy));
                }
            }
            knife |= knife_edge(cs, ds, c.tn, c.td);
        }
        s.count(&format!("iup:optional~{}", match n_opt * 4 / out.len().max(1) { 0 => "<25%", 1 => "25-50%", 2 => "50-75%", _ => ">75%" }));
        if knife {
            s.count("iup:knife-edge-excluded");
        } else {
            s.case(group, c.req(), canon);
        }
    }

    fn with_phantoms(mut cs: Vec<P>, mut ds: Vec<P>, ends: Vec<usize>, rng: &mut Rng) -> (Vec<P>, Vec<P>, Vec<usize>) {
        for i in 0..4 {
            cs.push((if i == 1 { 500 } else { 0 }, 0));
            ds.push(if rng.chance(1, 3) { (rng.range(-3, 3), 0) } else { (0, 0) });
        }
        (cs, ds, ends)
    }

    const TOLS: [(i64, i64); 6] = [(0, 1), (1, 2), (1, 2), (1, 1), (3, 2), (2, 1)];

    /// random contour whose deltas are mostly a piecewise-linear function of the coordinates
    fn gen_contour(rng: &mut Rng, n: usize, cs: &mut Vec<P>, ds: &mut Vec<P>) {
        let style = rng.below(5);
        let (ax, bx, ay, by) = (rng.range(-2, 2), rng.range(-3, 3), rng.range(-2, 2), rng.range(-3, 3));
        let div = *rng.pick(&[1i64, 2, 4, 3, 8]);
        let mut x = rng.range(-20, 20);
        let mut y = rng.range(-20, 20);
        let noise_every = 2 + rng.below(9) as usize;
        for i in 0..n {
            match style {
                0 => { x += rng.range(-3, 3); y += rng.range(-3, 3); }
                1 => { if rng.chance(1, 2) { x += rng.range(0, 8); } else { y += rng.range(-8, 8); } }
                2 => { x = rng.range(0, 4) * 8; y = rng.range(0, 4) * 8; }
                3 => { x += *rng.pick(&[0, 0, 1, 2, 4, 8]); y += *rng.pick(&[0, 0, -1, -2, 4]); }
                _ => { let t = i as i64; x = (t * 7) % 40; y = (t * t) % 37; }
            }
            let mut dx = (ax * x) / div + bx;
            let mut dy = (ay * y) / div + by;
            if style == 2 { dx = rng.range(-1, 1); dy = rng.range(-1, 1); }
            if i % noise_every == 0 && rng.chance(2, 3) { dx += rng.range(-2, 2); dy += rng.range(-2, 2); }
            cs.push((x, y));
            ds.push((dx, dy));
        }
    }

    pub fn run(cfg: &Config, s: &mut Session, rng: &mut Rng) {
        // ---- fixed cases: the module's own scenarios + error paths
        let fixed: Vec<Case> = vec![
            Case { cs: vec![(0, 0); 4], ds: vec![(0, 0); 4], ends: vec![], tn: 0, td: 1 },
            Case { cs: vec![(0, 0); 3], ds: vec![(0, 0); 3], ends: vec![], tn: 0, td: 1 },
            Case { cs: vec![(0, 0); 5], ds: vec![(0, 0); 4], ends: vec![0], tn: 0, td: 1 },
            Case { cs: vec![(0, 0); 6], ds: vec![(0, 0); 6], ends: vec![0], tn: 0, td: 1 },
            Case { cs: vec![(0, 0), (2, 0), (2, 2), (0, 2), (0, 0), (0, 0), (0, 0), (0, 0)], ds: vec![(1, 1), (-1, 1), (-1, -1), (1, -1), (0, 0), (0, 0), (0, 0), (0, 0)], ends: vec![3], tn: 0, td: 1 },
            Case { cs: vec![(245, 630), (260, 700), (305, 680), (0, 0), (0, 0), (0, 0), (0, 0)], ds: vec![(28, -62), (10, -57), (-42, -57), (0, 0), (0, 0), (5, 0), (0, 0)], ends: vec![2], tn: 1, td: 2 },
            Case { cs: vec![(1, 1), (5, 1), (9, 1), (0, 0), (0, 0), (0, 0), (0, 0)], ds: vec![(3, 3), (3, 3), (3, 3), (0, 0), (0, 0), (0, 0), (0, 0)], ends: vec![2], tn: 0, td: 1 },
            Case { cs: vec![(1, 1), (5, 1), (9, 1), (2, 2), (3, 3), (0, 0), (0, 0), (0, 0), (0, 0)], ds: vec![(3, 3), (3, 3), (3, 3), (0, 0), (0, 0), (0, 0), (0, 0), (0, 0), (0, 0)], ends: vec![4, 2], tn: 0, td: 1 },
        ];
        for c in &fixed { check(s, "iup_delta_optimize(fixed)", c); }

        // ---- exhaustive small contours: points on a 3x3 grid, three delta values
        let grid: Vec<P> = (0..9).map(|i| ((i % 3) as i64, (i / 3) as i64)).collect();
        let dvals: [P; 3] = [(0, 0), (1, 0), (1, 2)];
        let states = 27usize; // 9 coords x 3 deltas
        let exhaustive_n: &[usize] = if cfg.thorough() { &[1, 2, 3, 4] } else { &[1, 2, 3] };
        for &n in exhaustive_n {
            let total = states.pow(n as u32);
            for code in 0..total {
                let mut cs = vec![];
                let mut ds = vec![];
                let mut k = code;
                for _ in 0..n { let st = k % states; k /= states; cs.push(grid[st % 9]); ds.push(dvals[st / 9]); }
                let (tn, td) = TOLS[code % 3 * 2];
                let (cs, ds, ends) = with_phantoms(cs, ds, vec![n - 1], rng);
                check(s, "iup_delta_optimize(exhaustive)", &Case { cs, ds, ends, tn, td });
            }
        }
        // sampled 4/5/6-point grid contours with richer deltas
        let n_small = if cfg.thorough() { 400_000 } else { 25_000 };
        for i in 0..n_small {
            let n = 4 + (i % 3);
            let wide = rng.chance(1, 2);
            let mut cs = vec![];
            let mut ds = vec![];
            for _ in 0..n {
                cs.push(if wide { (rng.range(0, 4) * 3, rng.range(0, 4) * 2) } else { *rng.pick(&grid) });
                ds.push(if wide { (rng.range(-2, 2), rng.range(-2, 2)) } else { *rng.pick(&dvals) });
            }
            let (tn, td) = *rng.pick(&TOLS);
            let (cs, ds, ends) = with_phantoms(cs, ds, vec![n - 1], rng);
            check(s, "iup_delta_optimize(small)", &Case { cs, ds, ends, tn, td });
        }
        // ---- random larger glyphs, several contours
        let n_big = if cfg.thorough() { 6000 } else { 500 };
        for i in 0..n_big {
            let ncont = 1 + rng.below(3) as usize;
            let mut cs = vec![];
            let mut ds = vec![];
            let mut ends = vec![];
            for _ in 0..ncont {
                let n = match i % 5 { 0 => 1 + rng.below(3) as usize, 1 => 5 + rng.below(8) as usize, 4 => 100 + rng.below(100) as usize, _ => 8 + rng.below(40) as usize };
                gen_contour(rng, n, &mut cs, &mut ds);
                ends.push(cs.len() - 1);
            }
            if rng.chance(1, 4) { ends.reverse(); }
            let (tn, td) = *rng.pick(&TOLS);
            let (cs, ds, ends) = with_phantoms(cs, ds, ends, rng);
            s.count(&format!("iup:big-points~{}", match cs.len() { 0..=15 => "<=15", 16..=63 => "16-63", 64..=127 => "64-127", _ => "128+" }));
            check(s, "iup_delta_optimize(random)", &Case { cs, ds, ends, tn, td });
        }
    }
}

mod reader {
    //! skrifa `interpolate_deltas::<i32, Fixed>` (via the verif hook) vs the loop-faithful 16.16
    //! model `readerInterpolate`; oracle: the result is the specification's inference (exact
    //! rationals, written independently in `iup::infer_contour`) up to the 16.16 rounding of the
    //! interpolation scale.
    use super::*;
    use read_fonts::types::{Fixed, Point};
    use skrifa::outline::verif_hooks::interpolate_deltas_fixed;

    pub struct Case { pub pts: Vec<(i32, i32)>, pub has: Vec<bool>, pub ends: Vec<u16>, pub out: Vec<(i32, i32)> }

    fn fmt(v: &[(i32, i32)]) -> String {
        join(&v.iter().map(|p| format!("{},{}", p.0, p.1)).collect::<Vec<_>>())
    }

    impl Case {
        pub fn req(&self) -> String {
            format!("iup.read | {} | {} | {} | {}", join(&self.ends), fmt(&self.pts),
                join(&self.has.iter().map(|b| *b as u8).collect::<Vec<_>>()), fmt(&self.out))
        }
    }

    pub fn run_real(c: &Case) -> Result<Option<Vec<(i32, i32)>>, String> {
        let pts: Vec<Point<i32>> = c.pts.iter().map(|p| Point::new(p.0, p.1)).collect();
        let mut out: Vec<Point<Fixed>> = c.out.iter().map(|p| Point::new(Fixed::from_bits(p.0), Fixed::from_bits(p.1))).collect();
        let has = c.has.clone();
        let ends = c.ends.clone();
        catch(move || {
            let ok = interpolate_deltas_fixed(&pts, &has, &ends, &mut out);
            ok.then(|| out.iter().map(|p| (p.x.to_bits(), p.y.to_bits())).collect())
        })
    }

    fn gen(rng: &mut Rng, weird: bool, wrap: bool) -> Case {
        let ncont = 1 + rng.below(3) as usize;
        let mut pts = vec![];
        let mut has = vec![];
        let mut ends: Vec<u16> = vec![];
        let scalar: i64 = match rng.below(4) { 0 | 1 => 0x10000, 2 => 0x8000, _ => 1 + rng.below(0x10000) as i64 };
        let mut out = vec![];
        for _ in 0..ncont {
            let n = match rng.below(8) { 0 => 1, 1 => 2, 2 => 3, 3 => 20 + rng.below(30) as usize, _ => 3 + rng.below(10) as usize };
            let style = rng.below(4);
            let density = rng.below(6);
            let (mut x, mut y) = (rng.range(-300, 300), rng.range(-300, 300));
            let only = rng.below(n as u64) as usize;
            let two = rng.below(n as u64) as usize;
            for i in 0..n {
                match style {
                    0 => { x = rng.range(0, 3) * 10; y = rng.range(0, 3) * 10; }
                    1 => { x += rng.range(-40, 40); y += rng.range(-40, 40); }
                    2 => { x += rng.range(0, 60); if rng.chance(1, 3) { y += rng.range(-64, 64); } }
                    _ => { x = rng.range(-1000, 1000); y = *rng.pick(&[0, 0, 16, 32, 64, 128]); }
                }
                if wrap && rng.chance(1, 4) { x = rng.range(-70000, 70000); }
                let h = match density { 0 => false, 1 => i == only, 2 => i == only || i == two, 3 => true, 4 => rng.chance(1, 2), _ => rng.chance(1, 4) };
                pts.push((x as i32, y as i32));
                has.push(h);
                let fx = |v: i64| ((v as i32) << 16) as i64;
                if h {
                    let (dx, dy) = (rng.range(-60, 60), rng.range(-60, 60));
                    // `Fixed::from_i32(delta) * scalar` as in accumulate_sparse_deltas
                    let m = |d: i64| { let ab = (d << 16) * scalar; (ab + 0x8000 - (ab < 0) as i64) >> 16 };
                    out.push(((fx(x) + m(dx)) as i32, (fx(y) + m(dy)) as i32));
                } else {
                    out.push((fx(x) as i32, fx(y) as i32));
                }
            }
            ends.push((pts.len() - 1) as u16);
        }
        // phantom points: never part of a contour
        for i in 0..4 {
            pts.push((if i == 1 { 500 } else { 0 }, 0));
            let h = rng.chance(1, 3);
            has.push(h);
            out.push(((pts[pts.len() - 1].0 << 16) + if h { 0x30000 } else { 0 }, 0));
        }
        if weird {
            match rng.below(4) {
                0 => { let k = rng.below(ends.len() as u64) as usize; let e = ends[k]; ends.insert(k, e); }
                1 => ends.reverse(),
                2 => { let l = ends.len() - 1; ends[l] = (pts.len() + rng.below(3) as usize) as u16; }
                _ => { ends.push((pts.len() - 1) as u16); }
            }
        }
        Case { pts, has, ends, out }
    }

    pub fn check(s: &mut Session, c: &Case, well_formed: bool) {
        let real = run_real(c);
        s.oracle("interpolate-deltas-no-panic", real.is_ok(), || c.req(), || format!("{real:?}"));
        let canon = match &real { Ok(Some(v)) => fmt(v), Ok(None) => "none".into(), Err(_) => "trap".into() };
        s.case("skrifa interpolate_deltas", c.req(), canon.clone());
        let Ok(Some(got)) = real else { s.count("reader:none"); return };
        if !well_formed { return; }
        // ---- oracle: explicit points and points outside every contour are untouched; inferred
        // points carry the specification's inference (exact, independent) up to 16.16 rounding
        let n = c.pts.len();
        let mut in_contour = vec![false; n];
        let mut start = 0usize;
        for &e in &c.ends {
            let e = e as usize;
            let cs: Vec<iup::P> = c.pts[start..=e].iter().map(|p| ((p.0 as i64) << 16, (p.1 as i64) << 16)).collect();
            let ds: Vec<iup::P> = (start..=e).map(|k| (c.out[k].0 as i64 - ((c.pts[k].0 as i64) << 16), c.out[k].1 as i64 - ((c.pts[k].1 as i64) << 16))).collect();
            let keep = &c.has[start..=e];
            let span = |f: fn(&(i32, i32)) -> i32| { let v: Vec<i32> = c.pts[start..=e].iter().map(f).collect(); (*v.iter().max().unwrap() as i64 - *v.iter().min().unwrap() as i64) / 2 + 2 };
            let (bx, by) = (span(|p| p.0), span(|p| p.1));
            let kept = keep.iter().filter(|b| **b).count();
            s.count(&format!("reader:contour-deltas~{}", match kept { 0 => "0", 1 => "1", 2 => "2", _ if kept == keep.len() => "all", _ => "3+" }));
            for (i, inf) in iup::infer_contour(&cs, &ds, keep).iter().enumerate() {
                let k = start + i;
                in_contour[k] = true;
                let real_d = (got[k].0 as i64 - cs[i].0, got[k].1 as i64 - cs[i].1);
                match inf {
                    None => s.oracle("reader-explicit-untouched", got[k] == c.out[k], || c.req(), || format!("point {k}: {:?} -> {:?}", c.out[k], got[k])),
                    Some((ix, iy)) => {
                        let okx = (real_d.0 as i128 * ix.1 - ix.0).abs() <= bx as i128 * ix.1;
                        let oky = (real_d.1 as i128 * iy.1 - iy.0).abs() <= by as i128 * iy.1;
                        s.oracle("reader-infers-spec", okx && oky, || c.req(),
                            || format!("point {k}: reader delta bits {real_d:?}, specification {ix:?} {iy:?} (16.16 bits), allowance {bx} {by}"));
                    }
                }
            }
            start = e + 1;
        }
        for k in 0..n {
            if !in_contour[k] {
                s.oracle("reader-outside-contours-untouched", got[k] == c.out[k], || c.req(), || format!("point {k}"));
            }
        }
    }

    pub fn run(cfg: &Config, s: &mut Session, rng: &mut Rng) {
        // the spec's own example and the module's tests
        let spec = Case { pts: vec![(245, 630), (260, 700), (305, 680)], has: vec![true, false, true], ends: vec![2],
            out: vec![((245 + 28) << 16, (630 - 62) << 16), (260 << 16, 700 << 16), ((305 - 42) << 16, (680 - 57) << 16)] };
        check(s, &spec, true);
        let n = if cfg.thorough() { 600_000 } else { 20_000 };
        for i in 0..n {
            let weird = i % 12 == 0;
            let wrap = i % 50 == 7;
            let c = gen(rng, weird, wrap);
            s.count(if weird { "reader:weird-contours" } else if wrap { "reader:wrapping-coords" } else { "reader:well-formed" });
            check(s, &c, !weird && !wrap);
        }
    }
}

mod e2e {
    //! write-fonts `GlyphVariations`/`Gvar::new` -> bytes -> read-fonts `Gvar` -> skrifa draw.
    //! Correspondence: offsets array / data layout vs Model/GvarLayout.lean; reader range
    //! resolution on crafted headers.  Oracles: every glyph's offsets resolve to its own data;
    //! read-back tuples carry the builder's regions and (all | exactly the required) deltas;
    //! specification inference on the read-back deltas reproduces required deltas exactly and
    //! optional ones within the tolerance iup_delta_optimize was given; the drawn outline is
    //! default + sum(scalar * delta) up to the scaler's rounding.
    use super::*;
    use font_types::{F2Dot14, GlyphId};
    use kurbo::{Point as KPoint, Vec2};
    use read_fonts::{FontData, FontRead, FontRef};
    use skrifa::MetadataProvider;
    use write_fonts::tables::glyf::{Bbox, Contour, GlyfLocaBuilder, Glyph, SimpleGlyph};
    use write_fonts::tables::gvar::{iup::iup_delta_optimize, GlyphDelta, GlyphDeltas, GlyphVariations, Gvar, Tent};
    use read_fonts::tables::glyf::CurvePoint;

    #[derive(Clone, Debug)]
    pub struct Tup { pub tents: Vec<(i16, Option<(i16, i16)>)>, pub deltas: Vec<(i16, i16)>, pub req: Vec<bool>, pub tol: Option<(i64, i64)> }
    #[derive(Clone, Debug)]
    pub struct Gl { pub contours: Vec<Vec<(i16, i16)>>, pub tuples: Vec<Tup> }

    impl Gl {
        pub fn points(&self) -> Vec<(i16, i16)> { self.contours.iter().flatten().copied().collect() }
        pub fn ends(&self) -> Vec<usize> { let mut v = vec![]; let mut n = 0; for c in &self.contours { n += c.len(); v.push(n - 1); } v }
    }

    pub fn describe(glyphs: &[Gl], axes: usize) -> String {
        let mut out = format!("axes={axes}");
        for (i, g) in glyphs.iter().enumerate() {
            out += &format!(" | g{i} contours={:?}", g.contours);
            for t in &g.tuples {
                out += &format!(" tuple tents={:?} tol={:?} deltas={:?} req={}", t.tents, t.tol, t.deltas,
                    t.req.iter().map(|b| if *b { '1' } else { '0' }).collect::<String>());
            }
        }
        out
    }

    /// exact tent scalar at `loc` (F2Dot14 bits), OpenType "calculation of the scalar"; (num, den)
    pub fn scalar(tents: &[(i16, Option<(i16, i16)>)], loc: &[i16]) -> (i128, i128) {
        let (mut num, mut den) = (1i128, 1i128);
        for (i, (peak, inter)) in tents.iter().enumerate() {
            let (peak, v) = (*peak as i128, loc[i] as i128);
            if peak == 0 || v == peak { continue; }
            let (start, end) = match inter { Some((a, b)) => (*a as i128, *b as i128), None => (peak.min(0), peak.max(0)) };
            if v <= start || v >= end { return (0, 1); }
            if v < peak { num *= v - start; den *= peak - start; } else { num *= end - v; den *= end - peak; }
        }
        (num, den)
    }

    pub struct PtPen(pub Vec<(f32, f32)>, pub usize);
    impl skrifa::outline::OutlinePen for PtPen {
        fn move_to(&mut self, x: f32, y: f32) { self.0.push((x, y)); }
        fn line_to(&mut self, x: f32, y: f32) { self.0.push((x, y)); }
        fn quad_to(&mut self, _: f32, _: f32, _: f32, _: f32) { self.1 += 1; }
        fn curve_to(&mut self, _: f32, _: f32, _: f32, _: f32, _: f32, _: f32) { self.1 += 1; }
        fn close(&mut self) {}
    }

    fn gen_tents(rng: &mut Rng, axes: usize, pool: &mut Vec<Vec<(i16, Option<(i16, i16)>)>>) -> Vec<(i16, Option<(i16, i16)>)> {
        if !pool.is_empty() && rng.chance(1, 2) { return rng.pick(pool).clone(); }
        let mut t: Vec<(i16, Option<(i16, i16)>)> = vec![(0, None); axes];
        let k = rng.below(axes as u64) as usize;
        for (i, slot) in t.iter_mut().enumerate() {
            if i == k || rng.chance(1, 3) {
                let peak: i16 = *rng.pick(&[16384, -16384, 8192, -8192, 4096, 12288, -4915, 1]);
                let inter = if rng.chance(1, 4) {
                    let (lo, hi) = if peak > 0 { (0i32, 16384i32) } else { (-16384, 0) };
                    let a = rng.range(lo as i64, peak as i64) as i16;
                    let b = rng.range(peak as i64, hi as i64) as i16;
                    Some((a, b))
                } else { None };
                *slot = (peak, inter);
            }
        }
        pool.push(t.clone());
        t
    }

    pub fn gen_glyph(rng: &mut Rng, axes: usize, pool: &mut Vec<Vec<(i16, Option<(i16, i16)>)>>, big: bool) -> Gl {
        let ncont = if big { 2 } else { 1 + rng.below(3) as usize };
        let mut contours = vec![];
        for _ in 0..ncont {
            let span = if rng.chance(1, 6) { 60 } else { 9 };
            let n = if big { 150 + rng.below(100) as usize } else { 3 + rng.below(span) as usize };
            let (mut x, mut y) = (rng.range(0, 400), rng.range(0, 400));
            let style = rng.below(3);
            let mut c = vec![];
            for i in 0..n {
                match style {
                    0 => { x = rng.range(0, 5) * 100; y = rng.range(0, 5) * 100; }
                    1 => { if i % 2 == 0 { x += rng.range(-120, 120); } else { y += rng.range(-120, 120); } }
                    _ => { x += rng.range(0, 80); y += rng.range(-64, 64); }
                }
                c.push((x.clamp(-2000, 2000) as i16, y.clamp(-2000, 2000) as i16));
            }
            contours.push(c);
        }
        let npts: usize = contours.iter().map(|c| c.len()).sum();
        let ntup = match rng.below(6) { 0 => 0, 1 => 1, _ => 1 + rng.below(4) as usize };
        let mut g = Gl { contours, tuples: vec![] };
        let pts = g.points();
        let share_sets = rng.chance(1, 2);
        let mut prev_req: Option<Vec<bool>> = None;
        for _ in 0..ntup {
            let tents = gen_tents(rng, axes, pool);
            let (ax, bx, ay, by) = (rng.range(-3, 3), rng.range(-20, 20), rng.range(-3, 3), rng.range(-20, 20));
            let div = *rng.pick(&[4i64, 8, 16, 10]);
            let noise = 2 + rng.below(8) as usize;
            let big_vals = big || rng.chance(1, 10);
            let mut deltas: Vec<(i16, i16)> = pts.iter().enumerate().map(|(i, p)| {
                let mut dx = ax * p.0 as i64 / div + bx;
                let mut dy = ay * p.1 as i64 / div + by;
                if i % noise == 0 { dx += rng.range(-9, 9); dy += rng.range(-9, 9); }
                if big_vals { dx += rng.range(-3000, 3000); dy += rng.range(-3000, 3000); }
                (dx as i16, dy as i16)
            }).collect();
            for i in 0..4 { deltas.push(if i == 1 && rng.chance(1, 2) { (rng.range(-30, 30) as i16, 0) } else { (0, 0) }); }
            let mode = rng.below(8);
            if mode == 7 { for d in deltas.iter_mut() { *d = (0, 0); } }
            let (req, tol): (Vec<bool>, Option<(i64, i64)>) = match mode {
                0 => (vec![true; npts + 4], None),
                1 => ((0..npts + 4).map(|_| rng.chance(1, 2)).collect(), None),
                2 if share_sets && prev_req.is_some() => (prev_req.clone().unwrap(), None),
                _ => {
                    let (tn, td) = *rng.pick(&[(0i64, 1i64), (1, 2), (1, 2), (1, 1), (2, 1), (4, 1)]);
                    let dv: Vec<Vec2> = deltas.iter().map(|d| Vec2::new(d.0 as f64, d.1 as f64)).collect();
                    let mut cv: Vec<KPoint> = pts.iter().map(|p| KPoint::new(p.0 as f64, p.1 as f64)).collect();
                    for i in 0..4 { cv.push(KPoint::new(if i == 1 { 500.0 } else { 0.0 }, 0.0)); }
                    let ends = g.ends();
                    match catch(move || iup_delta_optimize(dv, cv, tn as f64 / td as f64, &ends)) {
                        Ok(Ok(v)) => (v.iter().map(|d| d.required).collect(), Some((tn, td))),
                        _ => (vec![true; npts + 4], None),
                    }
                }
            };
            prev_req = Some(req.clone());
            g.tuples.push(Tup { tents, deltas, req, tol });
        }
        g
    }

    pub fn build_font(glyphs: &[Gl], axes: usize) -> Result<(Vec<u8>, Gvar), String> {
        use write_fonts::tables::{head::Head, hhea::Hhea, hmtx::Hmtx, hmtx::LongMetric, maxp::Maxp};
        let mut b = GlyfLocaBuilder::new();
        let mut vars = vec![];
        for (gid, g) in glyphs.iter().enumerate() {
            let pts = g.points();
            let sg = SimpleGlyph {
                bbox: Bbox { x_min: pts.iter().map(|p| p.0).min().unwrap(), y_min: pts.iter().map(|p| p.1).min().unwrap(),
                    x_max: pts.iter().map(|p| p.0).max().unwrap(), y_max: pts.iter().map(|p| p.1).max().unwrap() },
                contours: g.contours.iter().map(|c| Contour::from(c.iter().map(|p| CurvePoint::new(p.0, p.1, true)).collect::<Vec<_>>())).collect(),
                instructions: vec![],
            };
            b.add_glyph(&Glyph::Simple(sg)).map_err(|e| e.to_string())?;
            let tuples = g.tuples.iter().map(|t| {
                let tents = t.tents.iter().map(|(p, i)| Tent::new(F2Dot14::from_bits(*p), i.map(|(a, b)| (F2Dot14::from_bits(a), F2Dot14::from_bits(b))))).collect();
                let deltas = t.deltas.iter().zip(&t.req).map(|(d, r)| GlyphDelta::new(d.0, d.1, *r)).collect();
                GlyphDeltas::new(tents, deltas)
            }).collect();
            vars.push(GlyphVariations::new(GlyphId::new(gid as u32), tuples));
        }
        let (glyf, loca, fmt) = b.build();
        let gvar = Gvar::new(vars, axes as u16).map_err(|e| e.to_string())?;
        let n = glyphs.len() as u16;
        let head = Head { units_per_em: 1000, index_to_loc_format: fmt as i16, ..Default::default() };
        let maxp = Maxp::new(n);
        let hhea = Hhea { number_of_h_metrics: n, ..Default::default() };
        // lsb = xMin, so that skrifa (like FreeType) does not translate the outline by -(xMin - lsb)
        let hmtx = Hmtx::new(glyphs.iter().map(|g| LongMetric::new(500, g.points().iter().map(|p| p.0).min().unwrap())).collect(), vec![]);
        let mut fb = write_fonts::FontBuilder::new();
        fb.add_table(&head).map_err(|e| e.to_string())?;
        fb.add_table(&maxp).map_err(|e| e.to_string())?;
        fb.add_table(&hhea).map_err(|e| e.to_string())?;
        fb.add_table(&hmtx).map_err(|e| e.to_string())?;
        fb.add_table(&glyf).map_err(|e| e.to_string())?;
        fb.add_table(&loca).map_err(|e| e.to_string())?;
        fb.add_table(&gvar).map_err(|e| e.to_string())?;
        Ok((fb.build(), gvar))
    }

    fn be16(b: &[u8], o: usize) -> usize { ((b[o] as usize) << 8) | b[o + 1] as usize }
    fn be32(b: &[u8], o: usize) -> usize { (be16(b, o) << 16) | be16(b, o + 2) }

    pub fn check_font(s: &mut Session, rng: &mut Rng, glyphs: &[Gl], axes: usize, draw: bool) {
        let desc = || describe(glyphs, axes);
        let built = catch(|| build_font(glyphs, axes));
        let (data, wgvar) = match built {
            Ok(Ok(x)) => x,
            other => { s.oracle("gvar-build-ok", false, desc, || format!("{:?}", other.map(|r| r.map(|_| ()))));
                return; }
        };
        let font = FontRef::new(&data).unwrap();
        let gvar_bytes = font.table_data(font_types::Tag::new(b"gvar")).unwrap().as_bytes().to_vec();
        let gvar = read_fonts::tables::gvar::Gvar::read(FontData::new(&gvar_bytes)).unwrap();
        // ---- layout: offsets array and data region vs the model
        let blobs: Vec<Vec<u8>> = wgvar.glyph_variation_data_offsets.iter().zip(glyphs).map(|(gd, g)| {
            if g.tuples.is_empty() { vec![] } else { write_fonts::dump_table(gd).unwrap() }
        }).collect();
        let long = be16(&gvar_bytes, 14) & 1 == 1;
        let dao = be32(&gvar_bytes, 16);
        let n = glyphs.len();
        let offs: Vec<usize> = (0..=n).map(|i| if long { be32(&gvar_bytes, 20 + 4 * i) } else { be16(&gvar_bytes, 20 + 2 * i) }).collect();
        let shared_off = be32(&gvar_bytes, 8);
        let data_end = if shared_off >= dao { shared_off } else { gvar_bytes.len() };
        s.count(if long { "gvar:long-offsets" } else { "gvar:short-offsets" });
        s.count(if be16(&gvar_bytes, 6) > 0 { "gvar:has-shared-tuples" } else { "gvar:no-shared-tuples" });
        let total: usize = blobs.iter().map(|b| b.len()).sum();
        if total <= 6000 || long {
            s.case("Gvar offsets+data layout",
                format!("gv.write {}", blobs.iter().map(|b| hex(b)).collect::<Vec<_>>().join(" ")),
                format!("{} {} | {} | {}", if long { "L" } else { "S" }, dao, join(&offs), hex(&gvar_bytes[dao..data_end])));
        }
        for (gid, blob) in blobs.iter().enumerate() {
            let got = gvar.data_for_gid(GlyphId::new(gid as u32));
            let want: Option<Vec<u8>> = if blob.is_empty() { None } else {
                let mut w = blob.clone(); if !long && w.len() % 2 == 1 { w.push(0); } Some(w) };
            let ok = match (&got, &want) { (Ok(None), None) => true, (Ok(Some(d)), Some(w)) => d.as_bytes() == &w[..], _ => false };
            s.oracle("gvar-glyph-data-resolves", ok, desc, || format!("gid {gid} long={long} offsets {offs:?} want {:?} got {:?}", want.as_ref().map(|w| hex(w)), got.as_ref().map(|d| d.as_ref().map(|d| hex(d.as_bytes())))));
            if !blob.is_empty() { s.count(if blob.len() % 2 == 1 { "gvar:glyph-data-odd" } else { "gvar:glyph-data-even" }); } else { s.count("gvar:glyph-data-empty"); }
        }
        // ---- read back tuples
        // explicit[gid][tuple][point] = Some(delta) for deltas present in the file
        let mut explicit: Vec<Vec<Vec<Option<(i32, i32)>>>> = vec![];
        for (gid, g) in glyphs.iter().enumerate() {
            let npts = g.points().len() + 4;
            let mut per = vec![];
            let vd = gvar.glyph_variation_data(GlyphId::new(gid as u32));
            let Ok(vd) = vd else { s.oracle("gvar-readback-ok", false, desc, || format!("gid {gid}: {:?}", vd.as_ref().err())); explicit.push(per); continue };
            let Some(vd) = vd else {
                s.oracle("gvar-readback-tuple-count", g.tuples.is_empty(), desc, || format!("gid {gid}: no data"));
                explicit.push(per); continue };
            let tuples: Vec<_> = vd.tuples().collect();
            s.oracle("gvar-readback-tuple-count", tuples.len() == g.tuples.len(), desc, || format!("gid {gid}: {} vs {}", tuples.len(), g.tuples.len()));
            let hdr_count = be16(vd_bytes(&gvar, gid), 0);
            s.count(if hdr_count & 0x8000 != 0 { "gvar:glyph-shared-points" } else { "gvar:glyph-no-shared-points" });
            {
                // tuple header flags straight from the bytes
                let b = vd_bytes(&gvar, gid);
                let mut o = 4;
                for _ in 0..(hdr_count & 0x0fff) {
                    if o + 4 > b.len() { break; }
                    let ti = be16(b, o + 2);
                    s.count(if ti & 0x2000 != 0 { "gvar:tuple-private-points" } else { "gvar:tuple-uses-shared-points" });
                    s.count(if ti & 0x8000 != 0 { "gvar:tuple-embedded-peak" } else { "gvar:tuple-shared-peak" });
                    o += 4 + if ti & 0x8000 != 0 { 2 * axes } else { 0 } + if ti & 0x4000 != 0 { 4 * axes } else { 0 };
                }
            }
            for (t, spec) in tuples.iter().zip(&g.tuples) {
                let peak: Vec<i16> = t.peak().values.iter().map(|v| v.get().to_bits()).collect();
                let want_peak: Vec<i16> = spec.tents.iter().map(|x| x.0).collect();
                s.oracle("gvar-readback-peak", peak == want_peak, desc, || format!("gid {gid}: {peak:?} vs {want_peak:?}"));
                let inter = t.intermediate_start().zip(t.intermediate_end()).map(|(a, b)| {
                    a.values.iter().zip(b.values.iter()).map(|(a, b)| (a.get().to_bits(), b.get().to_bits())).collect::<Vec<_>>() });
                let implied: Vec<(i16, i16)> = spec.tents.iter().map(|x| (x.0.min(0), x.0.max(0))).collect();
                let want_inter: Vec<(i16, i16)> = spec.tents.iter().zip(&implied).map(|(x, im)| x.1.unwrap_or(*im)).collect();
                let eff = inter.clone().unwrap_or(implied.clone());
                s.oracle("gvar-readback-region", eff == want_inter, desc, || format!("gid {gid}: {inter:?} vs {want_inter:?}"));
                s.count(if inter.is_some() { "gvar:tuple-intermediate" } else { "gvar:tuple-peak-only" });
                let all = t.has_deltas_for_all_points();
                let mut ex: Vec<Option<(i32, i32)>> = vec![None; npts];
                let mut bad = false;
                let mut count = 0usize;
                for d in t.deltas().take(npts + 10) {
                    count += 1;
                    match ex.get_mut(d.position as usize) { Some(slot) => *slot = Some((d.x_delta, d.y_delta)), None => bad = true }
                }
                let nreq = spec.req.iter().filter(|r| **r).count();
                s.count(&format!("gvar:tuple-points~{}", if all { "all" } else if nreq == 0 { "none-required" } else { "sparse" }));
                // explicit set: all points, or exactly the required ones; values as given
                let set_ok = !bad && (0..npts).all(|k| match ex[k] {
                    Some(d) => d == (spec.deltas[k].0 as i32, spec.deltas[k].1 as i32) && (all || spec.req[k]),
                    None => !all && !spec.req[k] }) && count == ex.iter().filter(|e| e.is_some()).count();
                s.oracle("gvar-readback-deltas", set_ok, desc, || format!("gid {gid} all={all} required {nreq} read {count} deltas {ex:?}"));
                per.push(ex);
            }
            explicit.push(per);
        }
        // ---- specification inference on what was read back vs the deltas given to the builder
        let mut inferred: Vec<Vec<Vec<(iup::Fr, iup::Fr)>>> = vec![];
        for (gid, g) in glyphs.iter().enumerate() {
            let pts = g.points();
            let mut per = vec![];
            for (ti, spec) in g.tuples.iter().enumerate() {
                let Some(ex) = explicit.get(gid).and_then(|p| p.get(ti)) else { continue };
                let mut vals: Vec<(iup::Fr, iup::Fr)> = vec![];
                let mut start = 0usize;
                let mut knife = false;
                for c in &g.contours {
                    let e = start + c.len() - 1;
                    let cs: Vec<iup::P> = pts[start..=e].iter().map(|p| (p.0 as i64, p.1 as i64)).collect();
                    let keep: Vec<bool> = (start..=e).map(|k| ex[k].is_some()).collect();
                    let ds: Vec<iup::P> = (start..=e).map(|k| ex[k].map(|d| (d.0 as i64, d.1 as i64)).unwrap_or((0, 0))).collect();
                    let full: Vec<iup::P> = (start..=e).map(|k| (spec.deltas[k].0 as i64, spec.deltas[k].1 as i64)).collect();
                    if let Some((tn, td)) = spec.tol { knife |= iup::knife_edge(&cs, &full, tn, td); }
                    for (i, inf) in iup::infer_contour(&cs, &ds, &keep).iter().enumerate() {
                        vals.push(match inf { None => (iup::Fr(ds[i].0 as i128, 1), iup::Fr(ds[i].1 as i128, 1)), Some(v) => *v });
                    }
                    start = e + 1;
                }
                for k in start..start + 4 {
                    vals.push(match ex[k] { Some(d) => (iup::Fr(d.0 as i128, 1), iup::Fr(d.1 as i128, 1)), None => (iup::Fr(0, 1), iup::Fr(0, 1)) });
                }
                for k in 0..vals.len() {
                    let d = (spec.deltas[k].0 as i64, spec.deltas[k].1 as i64);
                    if spec.req[k] {
                        let exact = vals[k].0 .0 == d.0 as i128 * vals[k].0 .1 && vals[k].1 .0 == d.1 as i128 * vals[k].1 .1;
                        s.oracle("gvar-required-delta-exact", exact, desc, || format!("gid {gid} tuple {ti} point {k}: {:?} vs {d:?}", vals[k]));
                    } else if let Some((tn, td)) = spec.tol {
                        let exs = iup::excess(d, vals[k].0, vals[k].1, tn, td);
                        if !knife {
                            s.oracle("gvar-optional-delta-within-tolerance", exs <= 1e-9, desc, || format!("gid {gid} tuple {ti} point {k}: inferred {:?} vs {d:?} tol {tn}/{td} excess {exs}", vals[k]));
                        } else { s.count("gvar:knife-edge-skipped"); }
                    }
                }
                per.push(vals);
            }
            inferred.push(per);
        }
        if !draw { return; }
        // ---- draw at locations on and off the region boundaries
        let mut locs: Vec<Vec<i16>> = vec![vec![0; axes], vec![16384; axes], vec![-16384; axes]];
        for g in glyphs { for t in &g.tuples {
            locs.push(t.tents.iter().map(|x| x.0).collect());
            if let Some(l) = t.tents.iter().map(|x| x.1.map(|i| i.0)).collect::<Option<Vec<i16>>>() { locs.push(l); }
        } }
        for _ in 0..4 { locs.push((0..axes).map(|_| if rng.chance(1, 4) { 0 } else { rng.range(-16384, 16384) as i16 }).collect()); }
        locs.truncate(12);
        let outlines = font.outline_glyphs();
        for loc in &locs {
            let coords: Vec<F2Dot14> = loc.iter().map(|b| F2Dot14::from_bits(*b)).collect();
            for (gid, g) in glyphs.iter().enumerate() {
                let Some(inf) = inferred.get(gid) else { continue };
                if inf.len() != g.tuples.len() { continue; }
                let pts = g.points();
                // exact expectation per point
                let mut want: Vec<(f64, f64)> = pts.iter().map(|p| (p.0 as f64, p.1 as f64)).collect();
                let mut active = 0;
                for (t, vals) in g.tuples.iter().zip(inf) {
                    let (sn, sd) = scalar(&t.tents, loc);
                    if sn == 0 { continue; }
                    active += 1;
                    for k in 0..pts.len() {
                        want[k].0 += (sn * vals[k].0 .0) as f64 / (sd * vals[k].0 .1) as f64;
                        want[k].1 += (sn * vals[k].1 .0) as f64 / (sd * vals[k].1 .1) as f64;
                    }
                }
                s.count(&format!("draw:active-tuples~{}", active.min(3)));
                for (style, tol) in [(skrifa::outline::pen::PathStyle::FreeType, 0.5 + 0.05), (skrifa::outline::pen::PathStyle::HarfBuzz, 0.05)] {
                    let og = outlines.get(GlyphId::new(gid as u32)).unwrap();
                    let mut pen = PtPen(vec![], 0);
                    let r = catch(|| og.draw(skrifa::outline::DrawSettings::unhinted(skrifa::instance::Size::unscaled(), skrifa::instance::LocationRef::new(&coords)).with_path_style(style), &mut pen).map(|_| ()).map_err(|e| e.to_string()));
                    let input = || format!("loc {loc:?} gid {gid} style {style:?} :: {}", desc());
                    s.oracle("draw-ok", matches!(r, Ok(Ok(()))), input, || format!("{r:?}"));
                    if !matches!(r, Ok(Ok(()))) { continue; }
                    if pen.0.len() != pts.len() || pen.1 != 0 { s.count("draw:point-count-differs-skipped"); continue; }
                    let worst = pen.0.iter().zip(&want).map(|(g, w)| (g.0 as f64 - w.0).abs().max((g.1 as f64 - w.1).abs())).fold(0.0f64, f64::max);
                    s.oracle("draw-equals-default-plus-scaled-deltas", worst <= tol, input,
                        || format!("worst deviation {worst} (allowed {tol}); drawn {:?} expected {:?}", pen.0, want));
                }
            }
        }
    }

    fn vd_bytes<'a>(gvar: &read_fonts::tables::gvar::Gvar<'a>, gid: usize) -> &'a [u8] {
        gvar.data_for_gid(GlyphId::new(gid as u32)).unwrap().unwrap().as_bytes()
    }

    /// reader range resolution on crafted headers: arbitrary stored offsets, both formats
    fn range_cases(s: &mut Session, rng: &mut Rng, n: usize) {
        for _ in 0..n {
            let long = rng.chance(1, 2);
            let ng = 1 + rng.below(4) as usize;
            let unit = if long { 4 } else { 2 };
            let dao_true = 20 + (ng + 1) * unit;
            let extra = 8 + rng.below(120) as usize;
            let tlen = dao_true + extra;
            let dao: u32 = match rng.below(12) { 0 => 0xFFFF_FFF0, 1 => rng.below(tlen as u64 + 8) as u32, _ => dao_true as u32 };
            let mut offs: Vec<u32> = vec![];
            let mut cur = 0u32;
            for _ in 0..=ng {
                offs.push(match rng.below(16) { 0 => rng.below(60) as u32, 1 if long => 0xFFFF_FFFF - rng.below(32) as u32, 1 => 0xFFFF - rng.below(4) as u32, _ => cur });
                cur += rng.below(if long { 12 } else { 6 }) as u32;
            }
            let mut t: Vec<u8> = vec![0, 1, 0, 0];
            t.extend_from_slice(&1u16.to_be_bytes());
            t.extend_from_slice(&0u16.to_be_bytes());
            t.extend_from_slice(&(tlen as u32).to_be_bytes());
            t.extend_from_slice(&(ng as u16).to_be_bytes());
            t.extend_from_slice(&(long as u16).to_be_bytes());
            t.extend_from_slice(&dao.to_be_bytes());
            for o in &offs { if long { t.extend_from_slice(&o.to_be_bytes()); } else { t.extend_from_slice(&(*o as u16).to_be_bytes()); } }
            t.resize(tlen, 0xAA);
            let gid = if rng.chance(1, 8) { rng.below(ng as u64 + 2) as u32 } else { rng.below(ng as u64) as u32 };
            let r = catch(|| {
                let gvar = read_fonts::tables::gvar::Gvar::read(FontData::new(&t)).map_err(|e| e.to_string())?;
                Ok::<_, String>(match gvar.data_for_gid(GlyphId::new(gid)) {
                    Ok(None) => "none".to_string(),
                    Ok(Some(d)) => { let st = d.as_bytes().as_ptr() as usize - t.as_ptr() as usize; format!("{} {}", st, st + d.len()) }
                    Err(_) => "err".to_string(),
                })
            });
            let canon = match r { Ok(Ok(v)) => v, Ok(Err(e)) => format!("readerr:{e}"), Err(_) => "trap".into() };
            s.oracle("gvar-data-for-gid-total", canon != "trap", || hex(&t), || canon.clone());
            s.count(&format!("gvar-range:{}", canon.split(' ').count().min(2).to_string() + if canon == "none" { "none" } else if canon == "err" { "err" } else { "range" }));
            s.case("Gvar::data_for_gid(range)", format!("gv.range {} {} {} {} | {}", long as u8, dao, tlen, gid, join(&offs.iter().map(|o| if long { *o } else { *o & 0xFFFF }).collect::<Vec<_>>())), canon);
        }
    }

    pub fn run(cfg: &Config, s: &mut Session, rng: &mut Rng) {
        range_cases(s, rng, if cfg.thorough() { 20000 } else { 3000 });
        // a tuple without any required delta next to an ordinary one (was written as an empty
        // point list = "all points" with no deltas, which made skrifa drop the glyph's variations)
        let tri = vec![vec![(100i16, 100i16), (300, 100), (200, 300)]];
        let t1 = Tup { tents: vec![(16384, None)], deltas: vec![(10, 0), (20, 5), (-7, 9), (0, 0), (0, 0), (0, 0), (0, 0)], req: vec![true, true, true, false, false, false, false], tol: None };
        let t2 = Tup { tents: vec![(16384, None)], deltas: vec![(0, 0); 7], req: vec![false; 7], tol: Some((1, 2)) };
        check_font(s, rng, &[Gl { contours: tri.clone(), tuples: vec![t1.clone(), t2.clone()] }], 1, true);
        check_font(s, rng, &[Gl { contours: tri.clone(), tuples: vec![t2] }, Gl { contours: tri, tuples: vec![t1] }], 1, true);
        let n = if cfg.thorough() { 10_000 } else { 250 };
        for _ in 0..n {
            let axes = 1 + rng.below(3) as usize;
            let ng = 1 + rng.below(5) as usize;
            let mut pool = vec![];
            let glyphs: Vec<Gl> = (0..ng).map(|_| gen_glyph(rng, axes, &mut pool, false)).collect();
            check_font(s, rng, &glyphs, axes, true);
        }
        // big fonts: enough variation data for long offsets
        let nbig = if cfg.thorough() { 12 } else { 2 };
        for i in 0..nbig {
            let axes = 2;
            let mut pool = vec![];
            let ng = if i % 2 == 0 { 46 } else { 60 };
            let glyphs: Vec<Gl> = (0..ng).map(|_| { let mut g = gen_glyph(rng, axes, &mut pool, true);
                while g.tuples.len() < 3 { let mut h = gen_glyph(rng, axes, &mut pool, true); h.contours = g.contours.clone();
                    if let Some(t) = h.tuples.pop() { if t.deltas.len() == g.points().len() + 4 { g.tuples.push(t); } } }
                g }).collect();
            check_font(s, rng, &glyphs, axes, false);
        }
    }
}

mod gdata {
    //! Glyph variation DATA: `GlyphDeltas::new` / `GlyphVariations` / `Gvar::new` -> bytes vs
    //! Model/GvarData.lean (byte-exact: every glyph's serialised data, the shared tuples and the
    //! complete table), and read-fonts `GlyphVariationData` (`tuples()`, `peak()`,
    //! `intermediate_*()`, `has_deltas_for_all_points()`, `deltas()`) on written and damaged data.
    use super::*;
    use super::e2e::{Gl, Tup};
    use font_types::{F2Dot14, GlyphId};
    use read_fonts::{FontData, FontRead};
    use write_fonts::tables::gvar::{GlyphDelta, GlyphDeltas, GlyphVariations, Gvar, GvarInputError, Tent};

    /// a glyph for `Gvar::new`: gid + tuples (tents may have any length: error paths)
    #[derive(Clone, Debug)]
    pub struct In { pub gid: u32, pub tuples: Vec<Tup> }

    pub fn req(glyphs: &[In], axes: usize) -> String {
        let mut out = format!("gd.build {axes}");
        for g in glyphs {
            out += &format!(" G{}", g.gid);
            for t in &g.tuples {
                out += " T";
                for (p, i) in &t.tents { match i { Some((a, b)) => out += &format!(" t{p}:{a}:{b}"), None => out += &format!(" t{p}") } }
                for (d, r) in t.deltas.iter().zip(&t.req) { out += &format!(" d{},{},{}", d.0, d.1, *r as u8); }
            }
        }
        out
    }

    fn hex_or_dash(b: &[u8]) -> String { if b.is_empty() { "-".into() } else { hex(b) } }

    /// `Gvar::new` on the real code: canonical response + the dumped table
    pub fn build(glyphs: &[In], axes: usize) -> (String, Option<Vec<u8>>) {
        let gl = glyphs.to_vec();
        let r = catch(move || {
            let vars: Vec<GlyphVariations> = gl.iter().map(|g| {
                let tuples = g.tuples.iter().map(|t| {
                    let tents = t.tents.iter().map(|(p, i)| Tent::new(F2Dot14::from_bits(*p), i.map(|(a, b)| (F2Dot14::from_bits(a), F2Dot14::from_bits(b))))).collect();
                    let deltas = t.deltas.iter().zip(&t.req).map(|(d, r)| GlyphDelta::new(d.0, d.1, *r)).collect();
                    GlyphDeltas::new(tents, deltas)
                }).collect();
                GlyphVariations::new(GlyphId::new(g.gid), tuples)
            }).collect();
            match Gvar::new(vars, axes as u16) {
                Err(e) => Err(match e {
                    GvarInputError::UnexpectedAxisCount { .. } => "UnexpectedAxisCount",
                    GvarInputError::InconsistentGlyphAxisCount(_) => "InconsistentGlyphAxisCount",
                    GvarInputError::InconsistentDeltaLength(_) => "InconsistentDeltaLength",
                    GvarInputError::InconsistentTupleLengths(_) => "InconsistentTupleLengths",
                }.to_string()),
                Ok(gvar) => {
                    let shared: Vec<u8> = gvar.shared_tuples.tuples.iter().flat_map(|t| t.values.iter().flat_map(|v| v.to_bits().to_be_bytes())).collect();
                    let blobs: Vec<Vec<u8>> = gvar.glyph_variation_data_offsets.iter().map(|gd| {
                        let b = write_fonts::dump_table(gd).unwrap();
                        // an empty glyph serialises its (empty) header fields; the table writer skips it
                        if b.len() <= 4 { vec![] } else { b }
                    }).collect();
                    let table = write_fonts::dump_table(&gvar).map_err(|e| format!("dump:{e}"))?;
                    Ok((shared, blobs, table))
                }
            }
        });
        match r {
            Err(_) => ("panic".into(), None),
            Ok(Err(e)) => (format!("err:{e}"), None),
            Ok(Ok((shared, blobs, table))) => (
                format!("ok {} | {} | {}", hex_or_dash(&shared), blobs.iter().map(|b| hex_or_dash(b)).collect::<Vec<_>>().join(" "), hex(&table)),
                Some(table)),
        }
    }

    /// single-glyph table (long offsets) around arbitrary glyph data
    pub fn craft_table(axes: usize, shared: &[u8], glyph: &[u8]) -> Vec<u8> {
        let mut t: Vec<u8> = vec![0, 1, 0, 0];
        t.extend_from_slice(&(axes as u16).to_be_bytes());
        let n_shared = if axes == 0 { 0 } else { shared.len() / (2 * axes) };
        t.extend_from_slice(&(n_shared as u16).to_be_bytes());
        t.extend_from_slice(&((28 + glyph.len()) as u32).to_be_bytes());
        t.extend_from_slice(&1u16.to_be_bytes());
        t.extend_from_slice(&1u16.to_be_bytes());
        t.extend_from_slice(&28u32.to_be_bytes());
        t.extend_from_slice(&0u32.to_be_bytes());
        t.extend_from_slice(&(glyph.len() as u32).to_be_bytes());
        t.extend_from_slice(glyph);
        t.extend_from_slice(&shared[..n_shared * 2 * axes]);
        t
    }

    fn ints(v: &[i16]) -> String { if v.is_empty() { "-".into() } else { v.iter().map(|x| x.to_string()).collect::<Vec<_>>().join(",") } }

    /// canonical read-back of glyph `gid` of `table`
    pub fn read_canon(table: &[u8], gid: u32) -> String {
        let r = catch(|| {
            let gvar = read_fonts::tables::gvar::Gvar::read(FontData::new(table)).map_err(|_| "tableerr".to_string())?;
            let vd = match gvar.glyph_variation_data(GlyphId::new(gid)) { Err(_) => return Ok("err".to_string()), Ok(None) => return Ok("none".to_string()), Ok(Some(v)) => v };
            let tuples: Vec<_> = vd.tuples().collect();
            let mut out = format!("{}", tuples.len());
            for t in &tuples {
                let peak: Vec<i16> = t.peak().values.iter().map(|v| v.get().to_bits()).collect();
                let inter = match (t.intermediate_start(), t.intermediate_end()) {
                    (Some(a), Some(b)) => format!("{}/{}", ints(&a.values.iter().map(|v| v.get().to_bits()).collect::<Vec<_>>()), ints(&b.values.iter().map(|v| v.get().to_bits()).collect::<Vec<_>>())),
                    _ => "-".into() };
                let ds: Vec<String> = t.deltas().take(300_000).map(|d| format!("{}:{}:{}", d.position, d.x_delta, d.y_delta)).collect();
                out += &format!(" ; {} {} {} {}", ints(&peak), inter, t.has_deltas_for_all_points() as u8, if ds.is_empty() { "-".into() } else { ds.join(",") });
            }
            Ok::<_, String>(out)
        });
        match r { Ok(Ok(v)) => v, Ok(Err(e)) => e, Err(_) => "trap".into() }
    }

    fn be16(b: &[u8], o: usize) -> usize { ((b[o] as usize) << 8) | b[o + 1] as usize }
    fn be32(b: &[u8], o: usize) -> usize { (be16(b, o) << 16) | be16(b, o + 2) }

    /// byte-exact build correspondence + read-back correspondence (intact and damaged) for one font
    pub fn check(s: &mut Session, rng: &mut Rng, glyphs: &[In], axes: usize, damage: usize) {
        let (canon, table) = build(glyphs, axes);
        let r = req(glyphs, axes);
        s.count(&format!("gdata:build~{}", canon.split(' ').next().unwrap_or("")));
        if r.len() < 60_000 { s.case("Gvar::new -> glyph variation data, shared tuples, table bytes", r, canon.clone()); }
        else { s.count("gdata:build-too-long-skipped"); }
        let Some(table) = table else { return };
        let n = be16(&table, 12);
        let n_shared = be16(&table, 6);
        let sh_off = be32(&table, 8);
        let shared = table[sh_off.min(table.len())..(sh_off + n_shared * 2 * axes).min(table.len())].to_vec();
        let Ok(gvar) = read_fonts::tables::gvar::Gvar::read(FontData::new(&table)) else { s.oracle("gdata-table-reads", false, || r_short(glyphs, axes), || "Gvar::read failed".into()); return };
        let mut sorted: Vec<&In> = glyphs.iter().collect();
        sorted.sort_by_key(|g| g.gid);
        for gid in 0..n {
            let data = match gvar.data_for_gid(GlyphId::new(gid as u32)) { Ok(Some(d)) => d.as_bytes().to_vec(), _ => continue };
            s.case("GlyphVariationData read-back (written)", format!("gd.read {axes} {} {}", hex_or_dash(&shared), hex(&data)), read_canon(&table, gid as u32));
            // model-independent oracle: what was read is what was given
            if let Some(g) = sorted.get(gid) {
                let want = expect_read(g);
                let got = read_canon(&table, gid as u32);
                let parts: Vec<&str> = got.split(" ; ").collect();
                let ok = parts[0] == want.len().to_string() && parts.len() == want.len() + 1
                    && parts[1..].iter().zip(&want).all(|(p, (d, sp))| *p == d.as_str() || sp.as_deref() == Some(*p));
                s.oracle("gdata-readback-equals-input", ok, || r_short(glyphs, axes), || format!("gid {gid}: read {got} expected {want:?}"));
                for (p, (d, _)) in parts[1..].iter().zip(&want) { s.count(if *p == d.as_str() { "gdata:tuple-read-all-points" } else { "gdata:tuple-read-sparse" }); }
            }
            for _ in 0..damage {
                let mut d = data.clone();
                match rng.below(5) {
                    0 => { let k = rng.below(d.len() as u64) as usize; d.truncate(k); }
                    1 => { let k = rng.below(d.len() as u64) as usize; d[k] ^= 1 << rng.below(8); }
                    2 => { let k = rng.below(d.len().min(8) as u64) as usize; d[k] = rng.below(256) as u8; }
                    3 => { let k = rng.below(d.len() as u64) as usize; d[k] = *rng.pick(&[0u8, 0x80, 0xff, 0x7f, 0x3f, 0x40, 0xc0]); }
                    _ => { let k = 1 + rng.below(6) as usize; let extra = rng.bytes(k); d.extend_from_slice(&extra); }
                }
                if d.is_empty() { continue; }
                let t = craft_table(axes, &shared, &d);
                let canon = read_canon(&t, 0);
                s.oracle("gdata-read-total", canon != "trap", || hex(&d), || canon.clone());
                s.count(&format!("gdata:damaged~{}", if canon == "err" { "err" } else if canon.starts_with("0") { "no-tuples" } else { "tuples" }));
                s.case("GlyphVariationData read-back (damaged)", format!("gd.read {axes} {} {}", hex_or_dash(&shared), hex(&d)), canon);
            }
        }
    }

    fn r_short(glyphs: &[In], axes: usize) -> String { let r = req(glyphs, axes); if r.len() > 4000 { format!("{}…", &r[..4000]) } else { r } }

    /// what reading glyph `g` back must give: per tuple the peak, the intermediate region iff some
    /// tent is not implied by its peak, and all points or exactly the required ones with their
    /// deltas (the choice between the two forms is the writer's size heuristic; the sparse form is
    /// not acceptable when everything or nothing is required)
    fn expect_read(g: &In) -> Vec<(String, Option<String>)> {
        g.tuples.iter().map(|t| {
            let peak: Vec<i16> = t.tents.iter().map(|x| x.0).collect();
            let needs = t.tents.iter().any(|(p, i)| match i { Some((a, b)) => (*a, *b) != ((*p).min(0), (*p).max(0)), None => false });
            let inter = if needs {
                let st: Vec<i16> = t.tents.iter().map(|(p, i)| i.map(|x| x.0).unwrap_or((*p).min(0))).collect();
                let en: Vec<i16> = t.tents.iter().map(|(p, i)| i.map(|x| x.1).unwrap_or((*p).max(0))).collect();
                format!("{}/{}", ints(&st), ints(&en))
            } else { "-".into() };
            let nreq = t.req.iter().filter(|r| **r).count();
            let listed = |all: bool| -> String {
                let v: Vec<String> = t.deltas.iter().zip(&t.req).enumerate().filter(|(_, (_, r))| all || **r).map(|(k, (d, _))| format!("{k}:{}:{}", d.0, d.1)).collect();
                if v.is_empty() { "-".into() } else { v.join(",") } };
            let dense_form = format!("{} {} 1 {}", ints(&peak), inter, listed(true));
            let sparse_form = format!("{} {} 0 {}", ints(&peak), inter, listed(false));
            (dense_form, if nreq == t.req.len() || nreq == 0 { None } else { Some(sparse_form) })
        }).collect()
    }

    pub fn from_gl(glyphs: &[Gl]) -> Vec<In> { glyphs.iter().enumerate().map(|(i, g)| In { gid: i as u32, tuples: g.tuples.clone() }).collect() }

    /// small glyphs whose tuples draw their required-masks, peaks and delta vectors from tiny pools:
    /// several candidate shared point sets with equal savings, peak tuples with equal use counts,
    /// sparse/dense sizes within a byte of each other
    fn gen_ties(rng: &mut Rng, axes: usize, npts: usize, peaks: &[Vec<(i16, Option<(i16, i16)>)>]) -> Vec<Tup> {
        let nmask = 1 + rng.below(3) as usize;
        let masks: Vec<Vec<bool>> = (0..nmask).map(|_| {
            let style = rng.below(4);
            (0..npts).map(|k| match style { 0 => k % 2 == 0, 1 => k < npts / 2, 2 => rng.chance(1, 3), _ => rng.chance(2, 3) }).collect() }).collect();
        let ntup = 2 + rng.below(5) as usize;
        (0..ntup).map(|_| {
            let tents = if rng.chance(3, 4) { rng.pick(peaks).clone() } else {
                (0..axes).map(|_| { let p = *rng.pick(&[0i16, 16384, -16384, 8192]); let i = match rng.below(6) {
                    0 => Some((p.min(0), p.max(0))), 1 => Some((p.min(0), 16384.max(p))), 2 => Some((-16384i16.max(-16384).min(p), p.max(0))), 3 => Some((p / 2, p)), _ => None }; (p, i) }).collect() };
            let req = rng.pick(&masks).clone();
            let mag = *rng.pick(&[0i64, 1, 5, 100, 127, 128, 300, 32767]);
            let deltas = (0..npts).map(|_| if rng.chance(1, 4) { (0, 0) } else { (rng.range(-mag, mag) as i16, rng.range(-mag, mag) as i16) }).collect();
            Tup { tents, deltas, req, tol: None }
        }).collect()
    }

    pub fn run(cfg: &Config, s: &mut Session, rng: &mut Rng) {
        let n = if cfg.thorough() { 4000 } else { 160 };
        for i in 0..n {
            let axes = 1 + rng.below(3) as usize;
            let ng = 1 + rng.below(4) as usize;
            let mut pool = vec![];
            let glyphs: Vec<Gl> = (0..ng).map(|_| e2e::gen_glyph(rng, axes, &mut pool, i % 40 == 39)).collect();
            let mut ins = from_gl(&glyphs);
            if rng.chance(1, 3) { rng.shuffle(&mut ins); }
            check(s, rng, &ins, axes, 2);
        }
        let n = if cfg.thorough() { 6000 } else { 260 };
        for _ in 0..n {
            let axes = 1 + rng.below(2) as usize;
            let npeak = 1 + rng.below(3) as usize;
            let peaks: Vec<Vec<(i16, Option<(i16, i16)>)>> = (0..npeak).map(|_| (0..axes).map(|_| (*rng.pick(&[16384i16, -16384, 8192, 0]), if rng.chance(1, 5) { Some((0, 16384)) } else { None })).collect()).collect();
            let ng = 1 + rng.below(3) as usize;
            let mut gids: Vec<u32> = (0..ng as u32).collect();
            rng.shuffle(&mut gids);
            let ins: Vec<In> = gids.iter().map(|gid| { let npts = 4 + rng.below(10) as usize;
                In { gid: *gid, tuples: if rng.chance(1, 8) { vec![] } else { gen_ties(rng, axes, npts, &peaks) } } }).collect();
            check(s, rng, &ins, axes, 1);
        }
        // many explicit points: two-byte point counts, word point runs; many tuples
        for k in 0..(if cfg.thorough() { 12 } else { 3 }) {
            let npts = [200usize, 300, 700][k % 3];
            let req: Vec<bool> = (0..npts).map(|i| i % 7 != 3 && !(300..600).contains(&i)).collect();
            let tuples: Vec<Tup> = (0..2 + k % 2).map(|j| Tup { tents: vec![(16384, None)], deltas: (0..npts).map(|i| ((i as i16 % 50) - 25 + j as i16, if i % 3 == 0 { 300 } else { -2 })).collect(), req: req.clone(), tol: None }).collect();
            check(s, rng, &[In { gid: 0, tuples }], 1, 2);
        }
        // more than 255 tuples for one glyph (the 12-bit tuple count)
        {
            let tuples: Vec<Tup> = (0..300).map(|j| Tup { tents: vec![(16384 - j as i16, None)], deltas: vec![(j as i16 % 7, 1), (0, 0), (2, -1), (0, 0), (0, 0)], req: vec![true, j % 2 == 0, true, false, false], tol: None }).collect();
            check(s, rng, &[In { gid: 0, tuples }], 1, 1);
        }
        // input errors of Gvar::new
        let ok = Tup { tents: vec![(16384, None)], deltas: vec![(1, 1); 5], req: vec![true; 5], tol: None };
        let two_axes = Tup { tents: vec![(16384, None), (0, None)], deltas: vec![(1, 1); 5], req: vec![true; 5], tol: None };
        let short = Tup { tents: vec![(16384, None)], deltas: vec![(1, 1); 4], req: vec![true; 4], tol: None };
        for (gl, axes) in [
            (vec![In { gid: 0, tuples: vec![ok.clone(), two_axes.clone()] }], 1usize),
            (vec![In { gid: 0, tuples: vec![ok.clone(), short.clone()] }], 1),
            (vec![In { gid: 0, tuples: vec![ok.clone()] }], 2),
            (vec![In { gid: 0, tuples: vec![] }, In { gid: 1, tuples: vec![two_axes.clone()] }], 1),
            (vec![In { gid: 1, tuples: vec![ok.clone(), short.clone()] }, In { gid: 0, tuples: vec![ok.clone(), two_axes.clone()] }], 1),
            (vec![In { gid: 0, tuples: vec![two_axes.clone(), short.clone()] }], 2),
            (vec![In { gid: 0, tuples: vec![] }], 1),
            (vec![], 1),
            (vec![In { gid: 0, tuples: vec![Tup { tents: vec![], deltas: vec![(1, 1)], req: vec![true], tol: None }] }], 0),
        ] { check(s, rng, &gl, axes, 0); }
        // Tent::requires_intermediate: every (peak, min, max) sign/equality combination
        for p in [-16384i16, -8192, -1, 0, 1, 8192, 16384] { for a in [-16384i16, -8192, -1, 0, 1, 8192, 16384] { for b in [-16384i16, -8192, -1, 0, 1, 8192, 16384] {
            let t = Tup { tents: vec![(p, Some((a, b)))], deltas: vec![(1, 2); 5], req: vec![true; 5], tol: None };
            let (_, table) = build(&[In { gid: 0, tuples: vec![t] }], 1);
            let Some(table) = table else { continue };
            let dao = be32(&table, 16);
            let has_inter = table.len() > dao + 6 && (table[dao + 6] & 0x40) != 0;
            s.case("Tent::requires_intermediate", format!("gd.tent {p} {a} {b}"), (has_inter as u8).to_string());
            s.oracle("intermediate-dropped-iff-implied", has_inter == ((a, b) != (p.min(0), p.max(0))), || format!("peak {p} min {a} max {b}"), || format!("intermediate region written: {has_inter}"));
        } } }
    }
}

mod apply {
    //! Application of glyph variation deltas vs Model/GvarApply.lean:
    //! `TupleVariation::compute_scalar`; `accumulate_sparse_deltas` / `accumulate_dense_deltas`
    //! (run-at-a-time fast paths) on written and damaged streams; skrifa `simple_glyph::<i32, Fixed>`
    //! (verif hook) value-exact in 16.16; the unscaled FreeType-style outline (`draw`) vs the model's
    //! final rounding of those deltas.  Oracles (exact rationals, model independent): the 16.16
    //! deltas lie within the PROVED error bound of  sum_t S_t * inferred_t(point)  (exact tent scalar
    //! times the specification's inference); the fast paths agree with the `deltas()` iterator.
    use super::*;
    use super::e2e::{Gl, Tup};
    use font_types::{F2Dot14, GlyphId};
    use read_fonts::tables::glyf::{PointFlags, PointMarker};
    use read_fonts::types::{Fixed, Point};
    use read_fonts::{FontData, FontRead, FontRef};
    use skrifa::outline::verif_hooks::simple_glyph_deltas_fixed;
    use skrifa::MetadataProvider;

    fn ints<T: std::fmt::Display>(v: &[T]) -> String { if v.is_empty() { "-".into() } else { join(v) } }

    /// glyph data with one tuple (embedded peak, optional intermediate region, private "all points"
    /// marker, no deltas) for `compute_scalar`
    fn scalar_glyph(peak: &[i16], inter: Option<(&[i16], &[i16])>) -> Vec<u8> {
        let mut hdr: Vec<u8> = vec![0, 1];
        let ti: u16 = 0x8000 | 0x2000 | if inter.is_some() { 0x4000 } else { 0 };
        hdr.extend_from_slice(&ti.to_be_bytes());
        for p in peak { hdr.extend_from_slice(&p.to_be_bytes()); }
        if let Some((a, b)) = inter { for v in a { hdr.extend_from_slice(&v.to_be_bytes()); } for v in b { hdr.extend_from_slice(&v.to_be_bytes()); } }
        let mut g: Vec<u8> = vec![0, 1];
        g.extend_from_slice(&((4 + hdr.len()) as u16).to_be_bytes());
        g.extend_from_slice(&hdr);
        g.push(0);
        g
    }

    fn scalar_cases(s: &mut Session, rng: &mut Rng, n: usize) {
        const VALS: [i16; 13] = [0, 1, -1, 4096, 8192, -8192, 12288, 16383, 16384, -16384, -16383, 32767, -32768];
        for _ in 0..n {
            let axes = 1 + rng.below(3) as usize;
            let peak: Vec<i16> = (0..axes).map(|_| if rng.chance(1, 5) { 0 } else { *rng.pick(&VALS) }).collect();
            let with_inter = rng.chance(1, 2);
            let (st, en): (Vec<i16>, Vec<i16>) = peak.iter().map(|p| {
                if rng.chance(3, 4) {
                    let a = rng.range(-16384, *p as i64) as i16; let b = rng.range(*p as i64, 16384) as i16;
                    (if rng.chance(1, 4) { *p } else if rng.chance(1, 4) { (*p).min(0) } else { a.min(*p) }, if rng.chance(1, 4) { *p } else if rng.chance(1, 4) { (*p).max(0) } else { b.max(*p) })
                } else { (*rng.pick(&VALS), *rng.pick(&VALS)) } }).unzip();
            let ncoord = match rng.below(8) { 0 => axes.saturating_sub(1), 1 => axes + 1, _ => axes };
            let coords: Vec<i16> = (0..ncoord).map(|i| {
                let (p, a, b) = (peak.get(i).copied().unwrap_or(0) as i64, st.get(i).copied().unwrap_or(0) as i64, en.get(i).copied().unwrap_or(0) as i64);
                (match rng.below(10) { 0 => p, 1 => a, 2 => b, 3 => 0, 4 => p + rng.range(-1, 1), 5 => a + rng.range(-1, 1), 6 => b + rng.range(-1, 1), 7 => (a + p) / 2, 8 => (b + p) / 2, _ => rng.range(-16384, 16384) }).clamp(-32768, 32767) as i16 }).collect();
            let g = scalar_glyph(&peak, if with_inter { Some((&st, &en)) } else { None });
            let t = super::gdata::craft_table(axes, &[], &g);
            let cs: Vec<F2Dot14> = coords.iter().map(|c| F2Dot14::from_bits(*c)).collect();
            let r = catch(|| {
                let gvar = read_fonts::tables::gvar::Gvar::read(FontData::new(&t)).map_err(|e| e.to_string())?;
                let vd = gvar.glyph_variation_data(GlyphId::new(0)).map_err(|e| e.to_string())?.ok_or("nodata".to_string())?;
                let tuple = vd.tuples().next().ok_or("notuple".to_string())?;
                Ok::<_, String>(match tuple.compute_scalar(&cs) { None => "none".to_string(), Some(f) => f.to_bits().to_string() })
            });
            let canon = match r { Ok(Ok(v)) => v, Ok(Err(e)) => format!("err:{e}"), Err(_) => "trap".into() };
            s.oracle("compute-scalar-total", canon != "trap", || format!("peak {peak:?} inter {with_inter} {st:?} {en:?} coords {coords:?}"), || canon.clone());
            // exact tent (for well-formed regions): |scalar - 65536 * S| <= (number of rounding steps) / 2
            // well-formed regions only: start <= peak <= end, not straddling zero (for those the code
            // follows FreeType: a zero coordinate on an axis with a non-zero peak switches the tuple off)
            let well = peak.iter().zip(st.iter().zip(&en)).all(|(p, (a, b))| !with_inter || (a <= p && p <= b && !(*a < 0 && *b > 0)));
            if well && ncoord == axes {
                let tents: Vec<(i16, Option<(i16, i16)>)> = peak.iter().enumerate().map(|(i, p)| (*p, if with_inter { Some((st[i], en[i])) } else { None })).collect();
                let (sn, sd) = super::e2e::scalar(&tents, &coords);
                let steps = peak.iter().zip(&coords).filter(|(p, c)| **p != 0 && p != c).count() as i128;
                match canon.parse::<i128>() {
                    Ok(bits) => { let ok = sn != 0 && (2 * (bits * sd - 65536 * sn)).abs() <= steps * sd.abs();
                        s.oracle("compute-scalar-within-half-ulp-per-axis", ok, || format!("peak {peak:?} inter {with_inter} {st:?} {en:?} coords {coords:?}"), || format!("bits {bits} exact {sn}/{sd} steps {steps}")); }
                    Err(_) => { // none: exact scalar is 0, or smaller than half an ulp per step
                        let ok = canon != "none" || sn == 0 || (2 * 65536 * sn).abs() <= (steps + 1) * sd.abs();
                        s.oracle("compute-scalar-none-only-when-negligible", ok, || format!("peak {peak:?} inter {with_inter} {st:?} {en:?} coords {coords:?}"), || format!("{canon} exact {sn}/{sd}")); }
                }
            }
            s.count(&format!("scalar:{}", if canon == "none" { "none" } else if canon == "65536" { "one" } else { "fraction" }));
            s.case("TupleVariation::compute_scalar", format!("ap.scalar {axes} {} | {} | {} | {} | {}", with_inter as u8, ints(&peak), ints(&st), ints(&en), ints(&coords)), canon);
        }
    }

    fn fmt_pf(buf: &[Point<Fixed>], flags: &[PointFlags]) -> String {
        join(&buf.iter().zip(flags).map(|(p, f)| format!("{},{},{}", p.x.to_bits(), p.y.to_bits(), f.has_marker(PointMarker::HAS_DELTA) as u8)).collect::<Vec<_>>())
    }

    /// accumulate_sparse_deltas / accumulate_dense_deltas on the single tuple of a crafted table
    fn accumulate(pt: &[u8], deltas: &[u8], shared: bool, n: usize, scalar: i32, dense: bool) -> String {
        let bytes = super::packed::craft_gvar(pt, deltas, shared);
        let r = catch(|| {
            let gvar = read_fonts::tables::gvar::Gvar::read(FontData::new(&bytes)).map_err(|e| format!("{e}"))?;
            let data = gvar.glyph_variation_data(GlyphId::new(0)).map_err(|e| format!("{e}"))?.ok_or("nodata".to_string())?;
            let Some(t) = data.tuples().next() else { return Ok("notuple".to_string()) };
            let mut buf = vec![Point::<Fixed>::default(); n];
            let mut flags = vec![PointFlags::default(); n];
            Ok::<_, String>(if dense {
                match t.accumulate_dense_deltas(&mut buf, Fixed::from_bits(scalar)) { Ok(()) => { let v: Vec<String> = buf.iter().map(|p| format!("{},{}", p.x.to_bits(), p.y.to_bits())).collect(); if v.is_empty() { "-".into() } else { v.join(" ") } }, Err(_) => "err".into() }
            } else {
                match t.accumulate_sparse_deltas(&mut buf, &mut flags, Fixed::from_bits(scalar)) { Ok(()) => fmt_pf(&buf, &flags), Err(_) => "err".into() }
            })
        });
        match r { Ok(Ok(v)) => v, Ok(Err(e)) => format!("err:{e}"), Err(_) => "trap".into() }
    }

    fn pick_scalar(rng: &mut Rng) -> i32 { match rng.below(5) { 0 | 1 => 0x10000, 2 => 0x8000, 3 => 1 + rng.below(0x10000) as i32, _ => *rng.pick(&[1, 0xffff, 0x5555, 0x10001, -0x8000]) } }

    fn accumulate_cases(s: &mut Session, rng: &mut Rng, n: usize) {
        for _ in 0..n {
            // sparse: explicit points, x then y streams
            let cap = if rng.chance(1, 6) { 200 } else { 12 };
            let npts = 1 + rng.below(cap) as usize;
            let mut pts: Vec<u16> = vec![]; let mut cur = 0u32;
            for _ in 0..npts { let gap = if rng.chance(1, 8) { 300 } else { 4 }; cur += if rng.chance(1, 10) { 0 } else { 1 + rng.below(gap) as u32 }; pts.push(cur.min(65535) as u16); }
            let mk = |rng: &mut Rng, len: usize| -> Vec<i32> { let mut v = super::packed::gen_deltas(rng, true); v.resize(len, 0); if rng.chance(1, 3) { for x in v.iter_mut() { if rng.chance(1, 2) { *x = 0; } } } v };
            let (xs, ys) = (mk(rng, npts), mk(rng, npts));
            let Ok(pb) = super::packed::write_points(&pts) else { continue };
            let (Ok(xb), Ok(yb)) = (super::packed::write_deltas(&xs), super::packed::write_deltas(&ys)) else { continue };
            let mut db = xb.clone(); db.extend_from_slice(&yb);
            let size = *pts.last().unwrap() as usize + 1;
            let n_buf = match rng.below(6) { 0 => size.saturating_sub(1 + rng.below(3) as usize), 1 => size + 3, _ => size }.min(2000);
            let scalar = pick_scalar(rng);
            let shared = rng.chance(1, 3);
            let got = accumulate(&pb, &db, shared, n_buf, scalar, false);
            // oracle: the fast path gives every listed point (first occurrence order irrelevant: sums) its
            // scaled delta, exactly as the slow iterator lists them
            let strictly = pts.windows(2).all(|w| w[0] < w[1]);
            if strictly {
                let mul = |d: i32| -> i32 { if scalar == 0x10000 { Fixed::from_i32(d).to_bits() } else { (Fixed::from_i32(d) * Fixed::from_bits(scalar)).to_bits() } };
                let mut want = vec![(0i32, 0i32, 0u8); n_buf];
                for (i, p) in pts.iter().enumerate() { if let Some(w) = want.get_mut(*p as usize) { *w = (mul(xs[i]), mul(ys[i]), 1); } }
                let wants = join(&want.iter().map(|w| format!("{},{},{}", w.0, w.1, w.2)).collect::<Vec<_>>());
                s.oracle("sparse-fast-path-equals-listed-deltas", got == wants, || format!("pts {pts:?} xs {xs:?} ys {ys:?} scalar {scalar} n {n_buf}"), || format!("got {got} want {wants}"));
            }
            let mut ser = pb.clone(); ser.extend_from_slice(&db);
            let reqline = |ser: &[u8], dlen: usize, n: usize, scalar: i32, shared: bool| if shared { format!("ap.sparse {scalar} {n} shared {dlen} {}", hex(ser)) } else { format!("ap.sparse {scalar} {n} priv 0 {}", hex(ser)) };
            s.case("accumulate_sparse_deltas(written)", reqline(&ser, db.len(), n_buf, scalar, shared), got);
            // damaged streams: runs that straddle the x/y boundary, truncated data, altered control bytes
            for _ in 0..2 {
                let mut d = db.clone();
                match rng.below(5) {
                    0 => { let k = rng.below(d.len() as u64) as usize; d.truncate(k); }
                    1 => { let k = rng.below(d.len() as u64) as usize; d[k] ^= 1 << rng.below(8); }
                    2 => { if let Ok(all) = { let mut a = xs.clone(); a.extend_from_slice(&ys); super::packed::write_deltas(&a) } { d = all; } }
                    3 => { d.extend_from_slice(&[0x83, 0x01, 0x05]); }
                    _ => { let k = rng.below(d.len() as u64) as usize; d[k] = *rng.pick(&[0u8, 0x80, 0xbf, 0x3f, 0x40, 0x7f, 0xc0, 0xff]); }
                }
                let got = accumulate(&pb, &d, shared, n_buf, scalar, false);
                s.oracle("accumulate-sparse-total", got != "trap", || format!("pt {} d {}", hex(&pb), hex(&d)), || got.clone());
                s.count(&format!("acc-sparse-damaged:{}", if got == "err" { "err" } else if got == "notuple" { "notuple" } else { "ok" }));
                let mut ser = pb.clone(); ser.extend_from_slice(&d);
                s.case("accumulate_sparse_deltas(damaged)", reqline(&ser, d.len(), n_buf, scalar, shared), got);
            }
            // dense
            let cap = if rng.chance(1, 6) { 150 } else { 10 };
            let nd = 1 + rng.below(cap) as usize;
            let (xs, ys) = (mk(rng, nd), mk(rng, nd));
            let (Ok(xb), Ok(yb)) = (super::packed::write_deltas(&xs), super::packed::write_deltas(&ys)) else { continue };
            let mut db = xb.clone(); db.extend_from_slice(&yb);
            let n_buf = match rng.below(6) { 0 => nd - 1, 1 => nd + 1, _ => nd };
            let mut d = db.clone();
            if rng.chance(1, 3) { match rng.below(3) { 0 => { let k = rng.below(d.len() as u64) as usize; d.truncate(k); } 1 => { let k = rng.below(d.len() as u64) as usize; d[k] ^= 1 << rng.below(8); }
                _ => { if let Ok(all) = { let mut a = xs.clone(); a.extend_from_slice(&ys); super::packed::write_deltas(&a) } { d = all; } } } }
            let got = accumulate(&[0], &d, false, n_buf, scalar, true);
            s.oracle("accumulate-dense-total", got != "trap", || hex(&d), || got.clone());
            s.count(&format!("acc-dense:{}", if got == "err" { "err" } else { "ok" }));
            s.case("accumulate_dense_deltas", format!("ap.dense {scalar} {n_buf} {}", if d.is_empty() { "-".into() } else { hex(&d) }), got);
        }
    }

    fn pts_str(v: &[(i32, i32)]) -> String { if v.is_empty() { "-".into() } else { join(&v.iter().map(|p| format!("{},{}", p.0, p.1)).collect::<Vec<_>>()) } }

    /// hook deltas of glyph `gid` of `table` at `loc`
    fn hook_deltas(table: &[u8], gid: u32, loc: &[i16], points: &[(i32, i32)], ends: &[u16]) -> Result<Option<Vec<(i32, i32)>>, String> {
        let cs: Vec<F2Dot14> = loc.iter().map(|c| F2Dot14::from_bits(*c)).collect();
        let pts: Vec<Point<i32>> = points.iter().map(|p| Point::new(p.0, p.1)).collect();
        catch(|| {
            let gvar = read_fonts::tables::gvar::Gvar::read(FontData::new(table)).ok()?;
            simple_glyph_deltas_fixed(&gvar, GlyphId::new(gid), &cs, &pts, ends).map(|d| d.iter().map(|p| (p.x.to_bits(), p.y.to_bits())).collect())
        })
    }

    fn be16(b: &[u8], o: usize) -> usize { ((b[o] as usize) << 8) | b[o + 1] as usize }
    fn be32(b: &[u8], o: usize) -> usize { (be16(b, o) << 16) | be16(b, o + 2) }

    /// exact expectation and proved error bound (units of 2^-16) for one point and axis
    /// returns (num, den, bound_num, bound_den)
    fn exact_and_bound(g: &Gl, loc: &[i16], k: usize, axis: usize) -> (i128, i128, f64) {
        let pts = g.points();
        let (mut num, mut den) = (0i128, 1i128);
        let mut bound = 0f64;
        for t in &g.tuples {
            let (sn, sd) = super::e2e::scalar(&t.tents, loc);
            if sn == 0 { continue; }
            let steps = t.tents.iter().zip(loc).filter(|((p, _), c)| *p != 0 && p != *c).count() as f64;
            let nreq = t.req.iter().filter(|r| **r).count();
            let all = nreq == t.req.len() || nreq == 0;
            // which points are explicit: decided by the writer (dense or sparse form); inference is the
            // identity on explicit points, so evaluate the spec on the REQUIRED set when the tuple is sparse;
            // the caller passes `explicit` via t.req / all through `listed`
            let _ = all;
            let (inum, iden, m): (i128, i128, f64) = infer_one(g, t, &pts, k, axis);
            // value: S * I
            let (vn, vd) = (sn * inum, sd * iden);
            num = num * vd + vn * den; den *= vd;
            let gcd = gcd(num.abs(), den.abs()); if gcd > 1 { num /= gcd; den /= gcd; }
            bound += steps / 2.0 * (inum as f64 / iden as f64).abs() + m / 2.0;
        }
        (num, den, bound)
    }
    fn gcd(a: i128, b: i128) -> i128 { if b == 0 { a.max(1) } else { gcd(b, a % b) } }

    thread_local! { static EXPLICIT: std::cell::RefCell<Vec<Vec<bool>>> = std::cell::RefCell::new(vec![]); }

    /// inferred delta (exact) of point k for tuple t on the given axis, with the explicit set taken
    /// from EXPLICIT (what the file lists), and the distance |c - in1| when interpolated
    fn infer_one(g: &Gl, t: &Tup, pts: &[(i16, i16)], k: usize, axis: usize) -> (i128, i128, f64) {
        let ti = g.tuples.iter().position(|x| std::ptr::eq(x, t)).unwrap();
        let explicit: Vec<bool> = EXPLICIT.with(|e| e.borrow()[ti].clone());
        let get = |p: (i16, i16)| if axis == 0 { p.0 as i64 } else { p.1 as i64 };
        if k >= pts.len() { // phantom point
            return if explicit[k] { (get(t.deltas[k]) as i128, 1, 0.0) } else { (0, 1, 0.0) };
        }
        if explicit[k] { return (get(t.deltas[k]) as i128, 1, 0.0); }
        // contour of k
        let mut start = 0usize;
        for c in &g.contours { let e = start + c.len(); if k < e {
            let idx: Vec<usize> = (start..e).collect();
            let n = idx.len();
            let pos = k - start;
            let prev = (1..=n).map(|d| idx[(pos + n - d) % n]).find(|j| explicit[*j]);
            let next = (1..=n).map(|d| idx[(pos + d) % n]).find(|j| explicit[*j]);
            let (Some(a), Some(b)) = (prev, next) else { return (0, 1, 0.0) };
            let (ca, da, cb, db, c) = (get(pts[a]), get(t.deltas[a]), get(pts[b]), get(t.deltas[b]), get(pts[k]));
            let f = super::iup::infer_axis(ca, da, cb, db, c);
            let (lo, hi) = (ca.min(cb), ca.max(cb));
            let m = if lo < c && c < hi { (c - lo) as f64 } else { 0.0 };
            return (f.0, f.1, m);
        } start = e; }
        (0, 1, 0.0)
    }

    pub fn simple_cases(s: &mut Session, rng: &mut Rng, glyphs: &[Gl], axes: usize) {
        let Ok(Ok((data, _))) = catch(|| super::e2e::build_font(glyphs, axes)) else { return };
        let font = FontRef::new(&data).unwrap();
        let table = font.table_data(font_types::Tag::new(b"gvar")).unwrap().as_bytes().to_vec();
        let gvar = read_fonts::tables::gvar::Gvar::read(FontData::new(&table)).unwrap();
        let n_shared = be16(&table, 6);
        let sh_off = be32(&table, 8);
        let shared = table[sh_off.min(table.len())..(sh_off + n_shared * 2 * axes).min(table.len())].to_vec();
        let mut locs: Vec<Vec<i16>> = vec![vec![16384; axes], vec![-16384; axes]];
        for g in glyphs { for t in &g.tuples { locs.push(t.tents.iter().map(|x| x.0).collect());
            locs.push(t.tents.iter().map(|x| (x.0 as i32 * 2 / 3) as i16).collect()); } }
        for _ in 0..3 { locs.push((0..axes).map(|_| if rng.chance(1, 4) { 0 } else { rng.range(-16384, 16384) as i16 }).collect()); }
        rng.shuffle(&mut locs);
        locs.truncate(6);
        let outlines = font.outline_glyphs();
        for (gid, g) in glyphs.iter().enumerate() {
            let pts = g.points();
            let mut points: Vec<(i32, i32)> = pts.iter().map(|p| (p.0 as i32, p.1 as i32)).collect();
            points.extend_from_slice(&[(0, 0), (500, 0), (0, 0), (0, 0)]);
            let ends: Vec<u16> = g.ends().iter().map(|e| *e as u16).collect();
            let gdata: Vec<u8> = match gvar.data_for_gid(GlyphId::new(gid as u32)) { Ok(Some(d)) => d.as_bytes().to_vec(), _ => vec![] };
            // which points each tuple lists explicitly (from the file, via the slow iterator)
            let mut explicit: Vec<Vec<bool>> = vec![];
            if let Ok(Some(vd)) = gvar.glyph_variation_data(GlyphId::new(gid as u32)) {
                for t in vd.tuples() { let mut e = vec![false; points.len()]; for d in t.deltas().take(points.len() + 8) { if let Some(x) = e.get_mut(d.position as usize) { *x = true; } } explicit.push(e); }
            }
            if explicit.len() != g.tuples.len() { continue; }
            EXPLICIT.with(|e| *e.borrow_mut() = explicit);
            for loc in &locs {
                let real = hook_deltas(&table, gid as u32, loc, &points, &ends);
                let canon = match &real { Ok(Some(v)) => pts_str(v), Ok(None) => "err".into(), Err(_) => "trap".into() };
                let input = || format!("loc {loc:?} gid {gid} :: {}", super::e2e::describe(glyphs, axes));
                s.oracle("simple-glyph-deltas-ok", matches!(real, Ok(Some(_))), input, || canon.clone());
                s.case("skrifa simple_glyph::<i32, Fixed> (16.16 deltas)",
                    format!("ap.simple {axes} {} {} | {} | {} | {}", if shared.is_empty() { "-".into() } else { hex(&shared) }, if gdata.is_empty() { "-".into() } else { hex(&gdata) }, ints(loc), ints(&ends), pts_str(&points)), canon);
                let Ok(Some(deltas)) = real else { continue };
                // exact-rational oracle with the proved bound
                let mut worst_slack = f64::MAX;
                for k in 0..points.len() { for axis in 0..2 {
                    let (num, den, bound) = exact_and_bound(g, loc, k, axis);
                    let got = if axis == 0 { deltas[k].0 } else { deltas[k].1 } as f64;
                    let want = 65536.0 * num as f64 / den as f64;
                    let err = (got - want).abs();
                    worst_slack = worst_slack.min(bound + 1e-3 - err);
                    s.oracle("applied-deltas-within-proved-bound", err <= bound + 1e-3, input, || format!("point {k} axis {axis}: 16.16 delta {got} exact*65536 {want} |err| {err} bound {bound}"));
                } }
                s.count(&format!("apply:slack~{}", if worst_slack >= 100.0 { ">=100" } else if worst_slack >= 1.0 { "1-100" } else { "<1 (tight)" }));
                // the drawn outline = model's rounding of exactly these deltas
                let og = outlines.get(GlyphId::new(gid as u32)).unwrap();
                let cs: Vec<F2Dot14> = loc.iter().map(|c| F2Dot14::from_bits(*c)).collect();
                let mut pen = super::e2e::PtPen(vec![], 0);
                let r = catch(|| og.draw(skrifa::outline::DrawSettings::unhinted(skrifa::instance::Size::unscaled(), skrifa::instance::LocationRef::new(&cs)).with_path_style(skrifa::outline::pen::PathStyle::FreeType), &mut pen).map(|_| ()).map_err(|e| e.to_string()));
                if !matches!(r, Ok(Ok(()))) || pen.0.len() != pts.len() || pen.1 != 0 { s.count("apply:draw-skipped"); continue; }
                let drawn: Vec<(i32, i32)> = pen.0.iter().map(|p| (p.0 as i32, p.1 as i32)).collect();
                let integral = pen.0.iter().all(|p| p.0.fract() == 0.0 && p.1.fract() == 0.0);
                s.oracle("unscaled-freetype-outline-is-integral", integral, input, || format!("{:?}", pen.0));
                s.case("draw (unscaled, FreeType style) = points + Fixed::to_i32(deltas) - pp1.x", format!("ap.adjust | {} | {}", pts_str(&points), pts_str(&deltas)), pts_str(&drawn));
            }
        }
    }

    pub fn run(cfg: &Config, s: &mut Session, rng: &mut Rng) {
        scalar_cases(s, rng, if cfg.thorough() { 60_000 } else { 4000 });
        accumulate_cases(s, rng, if cfg.thorough() { 20_000 } else { 1200 });
        let n = if cfg.thorough() { 3000 } else { 120 };
        for i in 0..n {
            let axes = 1 + rng.below(3) as usize;
            let ng = 1 + rng.below(3) as usize;
            let mut pool = vec![];
            let mut glyphs: Vec<Gl> = (0..ng).map(|_| super::e2e::gen_glyph(rng, axes, &mut pool, i % 60 == 59)).collect();
            // the first phantom point (left side bearing) moves too in a third of the glyphs: the
            // drawn outline is shifted by its ROUNDED delta
            for g in glyphs.iter_mut() { if rng.chance(1, 3) { let np = g.points().len(); for t in g.tuples.iter_mut() {
                t.deltas[np] = (rng.range(-25, 25) as i16, 0); if rng.chance(1, 2) { t.req[np] = true; } } } }
            simple_cases(s, rng, &glyphs, axes);
        }
    }
}

mod composite {
    //! Composite glyphs: component-offset deltas and phantom-point deltas.
    //! skrifa `composite_glyph::<Fixed>` (verif hook) vs Model/GvarApply.lean `compositeGlyph`
    //! (16.16, value exact); the drawn unscaled outline (FreeType style) vs `adjustComposite`
    //! (component offsets + Fixed::to_i32(delta), USE_MY_METRICS, shift by the first phantom point).
    //! Oracles: component / phantom deltas = sum_t S_t * d_t within k/2 ulp per listed delta (no
    //! inference); drawn points within the three roundings of the exact expectation.
    use super::*;
    use super::e2e::{Gl, Tup};
    use font_types::{F2Dot14, GlyphId, GlyphId16};
    use read_fonts::tables::glyf::CurvePoint;
    use read_fonts::types::Fixed;
    use read_fonts::{FontData, FontRead, FontRef};
    use skrifa::outline::verif_hooks::{composite_glyph_deltas_fixed, simple_glyph_deltas_fixed};
    use skrifa::MetadataProvider;
    use write_fonts::tables::glyf::{Anchor, Bbox, Component, ComponentFlags, CompositeGlyph, Contour, GlyfLocaBuilder, Glyph, SimpleGlyph, Transform};
    use write_fonts::tables::gvar::{GlyphDelta, GlyphDeltas, GlyphVariations, Gvar, Tent};

    #[derive(Clone, Debug)]
    struct Cp { gid: usize, off: (i16, i16), use_my_metrics: bool }

    fn bbox(pts: &[(i16, i16)]) -> Bbox {
        Bbox { x_min: pts.iter().map(|p| p.0).min().unwrap(), y_min: pts.iter().map(|p| p.1).min().unwrap(),
            x_max: pts.iter().map(|p| p.0).max().unwrap(), y_max: pts.iter().map(|p| p.1).max().unwrap() }
    }

    fn variations(gid: usize, tuples: &[Tup]) -> GlyphVariations {
        let tuples = tuples.iter().map(|t| {
            let tents = t.tents.iter().map(|(p, i)| Tent::new(F2Dot14::from_bits(*p), i.map(|(a, b)| (F2Dot14::from_bits(a), F2Dot14::from_bits(b))))).collect();
            let deltas = t.deltas.iter().zip(&t.req).map(|(d, r)| GlyphDelta::new(d.0, d.1, *r)).collect();
            GlyphDeltas::new(tents, deltas)
        }).collect();
        GlyphVariations::new(GlyphId::new(gid as u32), tuples)
    }

    fn build(simple: &[Gl], comps: &[Cp], ctuples: &[Tup], axes: usize) -> Result<Vec<u8>, String> {
        use write_fonts::tables::{head::Head, hhea::Hhea, hmtx::Hmtx, hmtx::LongMetric, maxp::Maxp};
        let mut b = GlyfLocaBuilder::new();
        let mut vars = vec![];
        let mut lsbs = vec![];
        for (gid, g) in simple.iter().enumerate() {
            let pts = g.points();
            let sg = SimpleGlyph { bbox: bbox(&pts), contours: g.contours.iter().map(|c| Contour::from(c.iter().map(|p| CurvePoint::new(p.0, p.1, true)).collect::<Vec<_>>())).collect(), instructions: vec![] };
            b.add_glyph(&Glyph::Simple(sg)).map_err(|e| e.to_string())?;
            vars.push(variations(gid, &g.tuples));
            lsbs.push(bbox(&pts).x_min);
        }
        let mut all: Vec<(i16, i16)> = vec![];
        let mut cg: Option<CompositeGlyph> = None;
        for c in comps {
            let pts: Vec<(i16, i16)> = simple[c.gid].points().iter().map(|p| (p.0 + c.off.0, p.1 + c.off.1)).collect();
            all.extend_from_slice(&pts);
            let comp = Component::new(GlyphId16::new(c.gid as u16), Anchor::Offset { x: c.off.0, y: c.off.1 }, Transform::default(),
                ComponentFlags { use_my_metrics: c.use_my_metrics, ..Default::default() });
            match cg.as_mut() { None => cg = Some(CompositeGlyph::new(comp, bbox(&pts))), Some(g) => g.add_component(comp, bbox(&pts)) }
        }
        b.add_glyph(&Glyph::Composite(cg.unwrap())).map_err(|e| e.to_string())?;
        vars.push(variations(simple.len(), ctuples));
        lsbs.push(bbox(&all).x_min);
        let (glyf, loca, fmt) = b.build();
        let gvar = Gvar::new(vars, axes as u16).map_err(|e| e.to_string())?;
        let n = lsbs.len() as u16;
        let head = Head { units_per_em: 1000, index_to_loc_format: fmt as i16, ..Default::default() };
        let maxp = Maxp { num_glyphs: n, max_points: Some(2000), max_contours: Some(100), max_composite_points: Some(4000), max_composite_contours: Some(200),
            max_zones: Some(1), max_twilight_points: Some(0), max_storage: Some(0), max_function_defs: Some(0), max_instruction_defs: Some(0),
            max_stack_elements: Some(0), max_size_of_instructions: Some(0), max_component_elements: Some(8), max_component_depth: Some(2) };
        let hhea = Hhea { number_of_h_metrics: n, ..Default::default() };
        let hmtx = Hmtx::new(lsbs.iter().map(|l| LongMetric::new(500, *l)).collect(), vec![]);
        let mut fb = write_fonts::FontBuilder::new();
        fb.add_table(&head).map_err(|e| e.to_string())?;
        fb.add_table(&maxp).map_err(|e| e.to_string())?;
        fb.add_table(&hhea).map_err(|e| e.to_string())?;
        fb.add_table(&hmtx).map_err(|e| e.to_string())?;
        fb.add_table(&glyf).map_err(|e| e.to_string())?;
        fb.add_table(&loca).map_err(|e| e.to_string())?;
        fb.add_table(&gvar).map_err(|e| e.to_string())?;
        Ok(fb.build())
    }

    fn pts_str(v: &[(i32, i32)]) -> String { if v.is_empty() { "-".into() } else { join(&v.iter().map(|p| format!("{},{}", p.0, p.1)).collect::<Vec<_>>()) } }
    fn ints<T: std::fmt::Display>(v: &[T]) -> String { if v.is_empty() { "-".into() } else { join(v) } }
    fn be16(b: &[u8], o: usize) -> usize { ((b[o] as usize) << 8) | b[o + 1] as usize }
    fn be32(b: &[u8], o: usize) -> usize { (be16(b, o) << 16) | be16(b, o + 2) }
    fn to_i32(bits: i32) -> i32 { Fixed::from_bits(bits).to_i32() }

    pub fn run(cfg: &Config, s: &mut Session, rng: &mut Rng) {
        let n = if cfg.thorough() { 3000 } else { 150 };
        for _ in 0..n {
            let axes = 1 + rng.below(2) as usize;
            let mut pool = vec![];
            let nsimple = 1 + rng.below(3) as usize;
            let simple: Vec<Gl> = (0..nsimple).map(|_| { let mut g = super::e2e::gen_glyph(rng, axes, &mut pool, false);
                // phantom point 0 also moves (lsb delta) in half of the glyphs
                if rng.chance(1, 2) { let np = g.points().len(); for t in g.tuples.iter_mut() { t.deltas[np] = (rng.range(-25, 25) as i16, 0); if rng.chance(1, 2) { t.req[np] = true; } } }
                g }).collect();
            let ncomp = 1 + rng.below(3) as usize;
            let comps: Vec<Cp> = (0..ncomp).map(|_| Cp { gid: rng.below(nsimple as u64) as usize, off: (rng.range(-300, 300) as i16, rng.range(-300, 300) as i16), use_my_metrics: rng.chance(1, 4) }).collect();
            let ntup = 1 + rng.below(3) as usize;
            let ctuples: Vec<Tup> = (0..ntup).map(|_| {
                let tents = if !pool.is_empty() && rng.chance(2, 3) { rng.pick(&pool).clone() } else { (0..axes).map(|_| (*rng.pick(&[16384i16, -16384, 8192]), None)).collect() };
                let mag = *rng.pick(&[3i64, 40, 40, 900]);
                let deltas: Vec<(i16, i16)> = (0..ncomp + 4).map(|k| if k >= ncomp + 2 { (0, 0) } else if rng.chance(1, 5) { (0, 0) } else { (rng.range(-mag, mag) as i16, if k >= ncomp { 0 } else { rng.range(-mag, mag) as i16 }) }).collect();
                let req: Vec<bool> = match rng.below(4) { 0 => vec![true; ncomp + 4], 1 => vec![false; ncomp + 4], _ => (0..ncomp + 4).map(|_| rng.chance(1, 2)).collect() };
                Tup { tents, deltas, req, tol: None } }).collect();
            let desc = || format!("axes={axes} comps={comps:?} ctuples={ctuples:?} :: {}", super::e2e::describe(&simple, axes));
            let data = match catch(|| build(&simple, &comps, &ctuples, axes)) { Ok(Ok(d)) => d, other => { s.oracle("composite-font-builds", false, desc, || format!("{:?}", other.map(|r| r.map(|_| ())))); continue } };
            let font = FontRef::new(&data).unwrap();
            let table = font.table_data(font_types::Tag::new(b"gvar")).unwrap().as_bytes().to_vec();
            let gvar = read_fonts::tables::gvar::Gvar::read(FontData::new(&table)).unwrap();
            let n_shared = be16(&table, 6);
            let sh_off = be32(&table, 8);
            let shared = table[sh_off.min(table.len())..(sh_off + n_shared * 2 * axes).min(table.len())].to_vec();
            let cgid = simple.len();
            let cdata: Vec<u8> = match gvar.data_for_gid(GlyphId::new(cgid as u32)) { Ok(Some(d)) => d.as_bytes().to_vec(), _ => vec![] };
            // explicit sets of the composite's tuples, from the file
            let mut explicit: Vec<Vec<bool>> = vec![];
            if let Ok(Some(vd)) = gvar.glyph_variation_data(GlyphId::new(cgid as u32)) {
                for t in vd.tuples() { let mut e = vec![false; ncomp + 4]; for d in t.deltas().take(ncomp + 12) { if let Some(x) = e.get_mut(d.position as usize) { *x = true; } } explicit.push(e); } }
            let mut locs: Vec<Vec<i16>> = vec![vec![16384; axes], vec![-16384; axes]];
            for t in &ctuples { locs.push(t.tents.iter().map(|x| x.0).collect()); locs.push(t.tents.iter().map(|x| (x.0 as i32 / 3) as i16).collect()); }
            locs.push((0..axes).map(|_| rng.range(-16384, 16384) as i16).collect());
            rng.shuffle(&mut locs);
            locs.truncate(4);
            let outlines = font.outline_glyphs();
            for loc in &locs {
                let cs: Vec<F2Dot14> = loc.iter().map(|c| F2Dot14::from_bits(*c)).collect();
                let input = || format!("loc {loc:?} :: {}", desc());
                // composite deltas: hook vs model
                let real = catch(|| composite_glyph_deltas_fixed(&gvar, GlyphId::new(cgid as u32), &cs, ncomp + 4).map(|d| d.iter().map(|p| (p.x.to_bits(), p.y.to_bits())).collect::<Vec<_>>()));
                let canon = match &real { Ok(Some(v)) => pts_str(v), Ok(None) => "err".into(), Err(_) => "trap".into() };
                s.oracle("composite-glyph-deltas-ok", matches!(real, Ok(Some(_))), input, || canon.clone());
                s.case("skrifa composite_glyph::<Fixed> (16.16 deltas)", format!("ap.composite {axes} {} {} {} | {}", if shared.is_empty() { "-".into() } else { hex(&shared) }, if cdata.is_empty() { "-".into() } else { hex(&cdata) }, ncomp + 4, ints(loc)), canon);
                let Ok(Some(cdeltas)) = real else { continue };
                // exact oracle: no inference, sum of S_t * d_t over the tuples that list the entry
                if explicit.len() == ctuples.len() {
                    for k in 0..ncomp + 4 { for axis in 0..2 {
                        let (mut want, mut bound) = (0f64, 0f64);
                        for (t, ex) in ctuples.iter().zip(&explicit) {
                            let (sn, sd) = super::e2e::scalar(&t.tents, loc);
                            if sn == 0 || !ex[k] { continue; }
                            let d = if axis == 0 { t.deltas[k].0 } else { t.deltas[k].1 } as f64;
                            let steps = t.tents.iter().zip(loc.iter()).filter(|((p, _), c)| *p != 0 && p != *c).count() as f64;
                            want += 65536.0 * d * sn as f64 / sd as f64; bound += steps / 2.0 * d.abs();
                        }
                        let got = if axis == 0 { cdeltas[k].0 } else { cdeltas[k].1 } as f64;
                        s.oracle("composite-deltas-are-scaled-listed-deltas", (got - want).abs() <= bound + 1e-3, input, || format!("entry {k} axis {axis}: got {got} want {want} bound {bound}"));
                    } }
                }
                // children
                let mut comp_req = vec![];
                let mut ok = true;
                let mut expect_cnt = 0usize;
                // model-independent expectation of the drawn points (exact 16.16 deltas / 65536, unrounded)
                let mut expect: Vec<(f64, f64)> = vec![];
                let mut shift = cdeltas[ncomp].0 as f64 / 65536.0;
                for (i, c) in comps.iter().enumerate() {
                    let g = &simple[c.gid];
                    let mut points: Vec<(i32, i32)> = g.points().iter().map(|p| (p.0 as i32, p.1 as i32)).collect();
                    let np = points.len();
                    points.extend_from_slice(&[(0, 0), (500, 0), (0, 0), (0, 0)]);
                    let ends: Vec<u16> = g.ends().iter().map(|e| *e as u16).collect();
                    let pts: Vec<read_fonts::types::Point<i32>> = points.iter().map(|p| read_fonts::types::Point::new(p.0, p.1)).collect();
                    let Ok(Some(d)) = catch(|| simple_glyph_deltas_fixed(&gvar, GlyphId::new(c.gid as u32), &cs, &pts, &ends).map(|d| d.iter().map(|p| (p.x.to_bits(), p.y.to_bits())).collect::<Vec<_>>())) else { ok = false; break };
                    let adj: Vec<(i32, i32)> = (0..np).map(|k| (points[k].0 + to_i32(d[k].0), points[k].1 + to_i32(d[k].1))).collect();
                    let pp0x = to_i32(d[np].0);
                    expect_cnt += np;
                    for k in 0..np { expect.push((points[k].0 as f64 + d[k].0 as f64 / 65536.0 + c.off.0 as f64 + cdeltas[i].0 as f64 / 65536.0,
                        points[k].1 as f64 + d[k].1 as f64 / 65536.0 + c.off.1 as f64 + cdeltas[i].1 as f64 / 65536.0)); }
                    if c.use_my_metrics { shift = d[np].0 as f64 / 65536.0; }
                    comp_req.push(format!("| C {} {},{} {} {}", c.use_my_metrics as u8, c.off.0, c.off.1, pp0x, pts_str(&adj)));
                    let _ = i;
                }
                if !ok { s.count("composite:child-failed"); continue; }
                let og = outlines.get(GlyphId::new(cgid as u32)).unwrap();
                let mut pen = super::e2e::PtPen(vec![], 0);
                let r = catch(|| og.draw(skrifa::outline::DrawSettings::unhinted(skrifa::instance::Size::unscaled(), skrifa::instance::LocationRef::new(&cs)).with_path_style(skrifa::outline::pen::PathStyle::FreeType), &mut pen).map(|_| ()).map_err(|e| e.to_string()));
                s.oracle("composite-draw-ok", matches!(r, Ok(Ok(()))), input, || format!("{r:?}"));
                if !matches!(r, Ok(Ok(()))) || pen.0.len() != expect_cnt || pen.1 != 0 { s.count("composite:draw-skipped"); continue; }
                let drawn: Vec<(i32, i32)> = pen.0.iter().map(|p| (p.0 as i32, p.1 as i32)).collect();
                s.count(&format!("composite:use-my-metrics~{}", comps.iter().filter(|c| c.use_my_metrics).count().min(2)));
                // three roundings (child delta, component delta, phantom shift), half a unit each
                let worst = pen.0.iter().zip(&expect).map(|(g, w)| (g.0 as f64 - (w.0 - shift)).abs().max((g.1 as f64 - w.1).abs())).fold(0.0f64, f64::max);
                s.oracle("composite-draw-equals-children-plus-offsets-plus-deltas", worst <= 1.5 + 1e-3, input, || format!("worst deviation {worst}; drawn {:?} expected {:?} shift {shift}", pen.0, expect));
                s.case("draw composite (unscaled, FreeType style) = children + offset + to_i32(delta) - pp1.x",
                    format!("ap.cadjust 0 | {} {}", pts_str(&cdeltas), comp_req.join(" ")), pts_str(&drawn));
            }
        }
    }
}

mod f64path {
    //! The f64 arithmetic of the IUP optimiser vs the exact IEEE model (Model/IupF64.lean), bit exact:
    //! `iup_segment` and `can_iup_in_between` (verif hooks) on integer, fractional and special
    //! inputs; the values `iup_delta_optimize` writes for non-integer deltas (`ot_round`).
    //! Oracle for the stated assumption: on integer inputs below 2^26 whose exact interpolation is a
    //! dyadic rational with a short expansion, the f64 result IS the exact rational.
    use super::*;
    use kurbo::{Point as KPoint, Vec2};
    use write_fonts::tables::gvar::iup::{iup_delta_optimize, verif_hooks::{can_iup_in_between, iup_segment}};

    /// exact rendering of an f64, same format as the Lean `FVal.show`
    pub fn show(x: f64) -> String {
        if x.is_nan() { return "nan".into(); }
        if x.is_infinite() { return if x < 0.0 { "-inf".into() } else { "inf".into() }; }
        let bits = x.to_bits();
        let neg = bits >> 63 == 1;
        let ex = ((bits >> 52) & 0x7ff) as i64;
        let frac = bits & ((1u64 << 52) - 1);
        let (mut m, mut e) = if ex == 0 { (frac, -1074i64) } else { (frac | (1u64 << 52), ex - 1075) };
        let sg = if neg { "-" } else { "" };
        if m == 0 { return format!("{sg}0"); }
        while m % 2 == 0 { m /= 2; e += 1; }
        format!("{sg}{m}e{e}")
    }

    fn pick(rng: &mut Rng, style: u64) -> f64 {
        match style {
            0 => rng.range(-4, 4) as f64,
            1 => rng.range(-1200, 1200) as f64,
            2 => rng.range(-(1 << 25), 1 << 25) as f64,
            3 => rng.range(-4000, 4000) as f64 / *rng.pick(&[2.0, 4.0, 8.0, 3.0, 10.0, 7.0]),
            4 => *rng.pick(&[0.0, -0.0, 0.5, -0.5, 1e-310, 1e300, -1e300, f64::INFINITY, f64::NEG_INFINITY, f64::NAN, f64::MIN_POSITIVE, 9007199254740993.0, 0.49999999999999994]),
            _ => f64::from_bits(rng.next()),
        }
    }

    pub fn run(cfg: &Config, s: &mut Session, rng: &mut Rng) {
        // ---- iup_segment, one point, one axis (x carries the case, y a second independent one)
        let n = if cfg.thorough() { 400_000 } else { 30_000 };
        for i in 0..n {
            let style = if i % 10 < 6 { rng.below(3) } else { rng.below(6) };
            let mut v: Vec<f64> = (0..10).map(|_| pick(rng, style)).collect();
            if rng.chance(1, 5) { v[2] = v[0]; } // c1 == c2
            if rng.chance(1, 5) { v[3] = v[1]; } // d1 == d2
            if rng.chance(1, 6) { v[4] = *rng.pick(&[v[0], v[2]]); } // c on a reference
            let (c1, d1, c2, d2, c) = (v[0], v[1], v[2], v[3], v[4]);
            let (c1y, d1y, c2y, d2y, cy) = (v[5], v[6], v[7], v[8], v[9]);
            let r = catch(|| iup_segment(&[KPoint::new(c, cy)], KPoint::new(c1, c1y), Vec2::new(d1, d1y), KPoint::new(c2, c2y), Vec2::new(d2, d2y)));
            let Ok(r) = r else { s.oracle("iup-segment-no-panic", false, || format!("{v:?}"), || "panic".into()); continue };
            s.case("iup_segment (f64, x axis)", format!("f64.seg {} {} {} {} {}", c1.to_bits(), d1.to_bits(), c2.to_bits(), d2.to_bits(), c.to_bits()), show(r[0].x));
            s.case("iup_segment (f64, y axis)", format!("f64.seg {} {} {} {} {}", c1y.to_bits(), d1y.to_bits(), c2y.to_bits(), d2y.to_bits(), cy.to_bits()), show(r[0].y));
            // the stated assumption: integer inputs below 2^26, exact interpolation a dyadic rational whose
            // scale (d2 - d1) / (c2 - c1) is itself exactly representable => f64 result == exact rational
            if style <= 2 {
                let (a1, b1, a2, b2, cc) = (c1 as i128, d1 as i128, c2 as i128, d2 as i128, c as i128);
                if a1 != a2 {
                    let (lo, hi, dlo, dhi) = if a1 > a2 { (a2, a1, b2, b1) } else { (a1, a2, b1, b2) };
                    if lo < cc && cc < hi {
                        let (num, den) = (dhi - dlo, hi - lo);
                        // scale = num/den is dyadic iff den / gcd(num, den) is a power of two
                        fn gcd(a: i128, b: i128) -> i128 { if b == 0 { a.abs().max(1) } else { gcd(b, a % b) } }
                        let g = gcd(num, den);
                        let dd = den / g;
                        let dyadic = dd & (dd - 1) == 0;
                        let exact_num = dlo * den + (cc - lo) * num; // / den
                        let got = r[0].x;
                        let is_exact = if got == 0.0 { exact_num == 0 } else { got.is_finite() && (got * den as f64 == exact_num as f64) && {
                            // exact comparison in integers: got = m * 2^e
                            let bits = got.to_bits(); let ex = ((bits >> 52) & 0x7ff) as i64; let frac = (bits & ((1u64 << 52) - 1)) as i128;
                            let (m, e) = if ex == 0 { (frac, -1074i64) } else { (frac | (1i128 << 52), ex - 1075) };
                            let m = if got < 0.0 { -m } else { m };
                            if e >= 0 { e < 60 && m.checked_mul(1i128 << e).and_then(|x| x.checked_mul(den)) == Some(exact_num) }
                            else if -e < 100 { m.checked_mul(den) == exact_num.checked_mul(1i128 << (-e)) } else { false } } };
                        if dyadic { s.oracle("f64-interpolation-exact-when-scale-is-dyadic", is_exact, || format!("c1 {c1} d1 {d1} c2 {c2} d2 {d2} c {c}"), || format!("f64 {} exact {exact_num}/{den}", show(got))); s.count("f64:dyadic-scale"); }
                        else { s.count(if is_exact { "f64:non-dyadic-scale-but-exact" } else { "f64:non-dyadic-scale-inexact" }); }
                    }
                }
            }
        }
        // ---- can_iup_in_between on small contours
        let n = if cfg.thorough() { 60_000 } else { 5000 };
        for _ in 0..n {
            let len = 3 + rng.below(6) as usize;
            let style = rng.below(5);
            let cs: Vec<(f64, f64)> = (0..len).map(|_| (pick(rng, style.min(3)), pick(rng, style.min(3)))).collect();
            let ds: Vec<(f64, f64)> = (0..len).map(|_| (pick(rng, style), pick(rng, style))).collect();
            let tol = *rng.pick(&[0.0, 0.5, 0.5, 1.0, 2.0, 0.3, 1e-9, 4.0]);
            let from: isize = if rng.chance(1, 4) { -1 } else { rng.below(len as u64 - 2) as isize };
            let to_min = (from + 2) as usize;
            if to_min >= len { continue; }
            let to = to_min + rng.below((len - to_min) as u64) as usize;
            let kc: Vec<KPoint> = cs.iter().map(|p| KPoint::new(p.0, p.1)).collect();
            let kd: Vec<Vec2> = ds.iter().map(|p| Vec2::new(p.0, p.1)).collect();
            let r = catch(|| can_iup_in_between(&kd, &kc, tol, from, to as isize));
            let canon = match r { Ok(Some(b)) => (b as u8).to_string(), Ok(None) => "invalid".into(), Err(_) => "trap".into() };
            s.oracle("can-iup-in-between-total", canon != "trap" && canon != "invalid", || format!("{cs:?} {ds:?} {from} {to}"), || canon.clone());
            s.count(&format!("f64:can-iup={canon}"));
            let f = |v: &[(f64, f64)]| join(&v.iter().map(|p| format!("{},{}", p.0.to_bits(), p.1.to_bits())).collect::<Vec<_>>());
            s.case("can_iup_in_between (f64)", format!("f64.can {} {from} {to} | {} | {}", tol.to_bits(), f(&cs), f(&ds)), canon);
        }
        // ---- values written for non-integer deltas
        let n = if cfg.thorough() { 30_000 } else { 3000 };
        for _ in 0..n {
            let npts = 1 + rng.below(4) as usize;
            let mut ds: Vec<(f64, f64)> = (0..npts).map(|_| {
                let style = rng.below(6);
                let mk = |rng: &mut Rng| match style {
                    0 => rng.range(-40000, 40000) as f64 / 2.0,
                    1 => rng.range(-70000, 70000) as f64 + *rng.pick(&[0.5, -0.5, 0.49999999999999994, 0.25, 0.0]),
                    2 => *rng.pick(&[32767.5, 32767.49, -32768.5, -32768.51, 1e30, -1e30, f64::NAN, f64::INFINITY, f64::NEG_INFINITY, -0.0, 0.49999999999999994, -0.5000000000000001]),
                    _ => rng.range(-300000, 300000) as f64 / *rng.pick(&[3.0, 7.0, 10.0, 16.0]),
                };
                (mk(rng), mk(rng)) }).collect();
            for _ in 0..4 { ds.push((0.0, 0.0)); }
            let mut cs: Vec<KPoint> = (0..npts).map(|i| KPoint::new(10.0 * i as f64, rng.range(0, 50) as f64)).collect();
            for i in 0..4 { cs.push(KPoint::new(if i == 1 { 500.0 } else { 0.0 }, 0.0)); }
            let dv: Vec<Vec2> = ds.iter().map(|d| Vec2::new(d.0, d.1)).collect();
            let ends = vec![npts - 1];
            let Ok(Ok(out)) = catch(move || iup_delta_optimize(dv, cs, 0.0, &ends)) else { s.count("f64:optimize-refused"); continue };
            for (d, o) in ds.iter().zip(&out) {
                s.case("iup_delta_optimize values = ot_round (f64)", format!("f64.round {} {}", d.0.to_bits(), d.1.to_bits()), format!("{} {}", o.x, o.y));
                // independent oracle: round half up, saturating, NaN -> 0
                let hu = |x: f64| -> i16 { if x.is_nan() { 0 } else { let f = (x + 0.5).floor(); if f >= 32767.0 { 32767 } else if f <= -32768.0 { -32768 } else { f as i16 } } };
                s.oracle("written-delta-is-ot-round", (o.x, o.y) == (hu(d.0), hu(d.1)), || format!("{d:?}"), || format!("{},{}", o.x, o.y));
            }
        }
    }
}

fn run(cfg: &Config, s: &mut Session) {
    let mut rng = Rng::new(cfg.seed);
    packed::run(cfg, s, &mut rng);
    iup::run(cfg, s, &mut rng);
    reader::run(cfg, s, &mut rng);
    gdata::run(cfg, s, &mut rng);
    apply::run(cfg, s, &mut rng);
    composite::run(cfg, s, &mut rng);
    f64path::run(cfg, s, &mut rng);
    e2e::run(cfg, s, &mut rng);
}

fn main() {
    fv_harness::main_with("C10", run)
}
