//! C10 — glyph variation deltas survive encoding, IUP optimisation and application.
//!
//! Correspondence (real code vs Lean model, Model/PackedDeltas.lean + Model/Iup.lean):
//!   * write-fonts `PackedDeltas` / `PackedPointNumbers` bytes, read-fonts `PackedDeltas`,
//!     `PackedPointNumbers`, `TupleVariation::deltas()` on valid and damaged bytes;
//!   * `iup_delta_optimize` required/optional flags on integer inputs.
//! Oracles (model independent): write -> read round trips; optional deltas are reproduced by
//! inference from retained neighbours within tolerance (exact rational arithmetic);
//! gvar built by write-fonts, read back and drawn by skrifa equals default + sum scalar*delta.
use fv_harness::common::*;

mod packed {
    use super::*;
    use read_fonts::tables::variations as rv;
    use read_fonts::{FontData, FontRead};
    use write_fonts::tables::variations as wv;

    pub const VALS: [i32; 30] = [
        0, 1, -1, 2, 100, 126, 127, -127, 128, -128, 129, -129, 255, 256, -255, -256, 300, 32766,
        32767, -32767, 32768, -32768, 32769, -32769, 65535, 65536, -65536, 70000, i32::MAX,
        i32::MIN,
    ];
    const LENS: [usize; 16] = [1, 1, 1, 2, 2, 3, 5, 31, 62, 63, 64, 65, 66, 127, 128, 129];

    fn kind_value(rng: &mut Rng, kind: u64) -> i32 {
        match kind {
            0 => 0,
            1 => *rng.pick(&[1, -1, 2, 100, 126, 127, -127, -128]),
            2 => *rng.pick(&[128, -129, 255, 256, -255, -256, 300, 32766, 32767, -32767, -32768]),
            _ => *rng.pick(&[32768, -32769, 65535, 65536, -65536, 70000, i32::MAX, i32::MIN]),
        }
    }

    /// segment-structured delta vectors: runs of one kind with lengths around the caps,
    /// optionally peppered with single values of another kind.
    pub fn gen_deltas(rng: &mut Rng, max_i16: bool) -> Vec<i32> {
        let nseg = 1 + rng.below(5) as usize;
        let mut out = vec![];
        let kinds = if max_i16 { 3 } else { 4 };
        for _ in 0..nseg {
            let kind = rng.below(kinds);
            let len = if rng.chance(1, 3) { 1 + rng.below(6) as usize } else { *rng.pick(&LENS) };
            let pepper = rng.below(4); // 0 none, else another kind sprinkled
            let pk = rng.below(kinds);
            let every = 2 + rng.below(5) as usize;
            for i in 0..len {
                let k = if pepper != 0 && i % every == every - 1 { pk } else { kind };
                out.push(kind_value(rng, k));
                if pepper == 3 && i % every == every - 1 && rng.chance(1, 2) {
                    out.push(kind_value(rng, pk)); // doubled pepper (two zeros, two bytes …)
                }
            }
        }
        out
    }

    pub fn write_deltas(ds: &[i32]) -> Result<Vec<u8>, String> {
        let ds = ds.to_vec();
        catch(move || write_fonts::dump_table(&wv::PackedDeltas::new(ds)).map_err(|e| e.to_string()))
            .and_then(|r| r)
    }

    pub fn write_points(ps: &[u16]) -> Result<Vec<u8>, String> {
        let ps = ps.to_vec();
        catch(move || {
            write_fonts::dump_table(&wv::PackedPointNumbers::Some(ps)).map_err(|e| e.to_string())
        })
        .and_then(|r| r)
    }

    /// hand-assembled single-glyph gvar whose only tuple has the given point-number bytes
    /// (private, or shared when `shared`) and packed delta bytes.
    pub fn craft_gvar(pt: &[u8], deltas: &[u8], shared: bool) -> Vec<u8> {
        let mut ser: Vec<u8> = vec![];
        ser.extend_from_slice(pt);
        ser.extend_from_slice(deltas);
        let var_size = if shared { deltas.len() } else { ser.len() } as u16;
        let mut g: Vec<u8> = vec![];
        let count: u16 = 1 | if shared { 0x8000 } else { 0 };
        g.extend_from_slice(&count.to_be_bytes());
        let header_len = 4 + 2; // size, index, one peak coord (axis count 1)
        g.extend_from_slice(&((4 + header_len) as u16).to_be_bytes());
        g.extend_from_slice(&var_size.to_be_bytes());
        let idx: u16 = 0x8000 | if shared { 0 } else { 0x2000 };
        g.extend_from_slice(&idx.to_be_bytes());
        g.extend_from_slice(&0x4000u16.to_be_bytes());
        g.extend_from_slice(&ser);
        let mut t: Vec<u8> = vec![];
        t.extend_from_slice(&[0, 1, 0, 0]); // version
        t.extend_from_slice(&1u16.to_be_bytes()); // axis count
        t.extend_from_slice(&0u16.to_be_bytes()); // shared tuple count
        t.extend_from_slice(&28u32.to_be_bytes()); // shared tuples offset
        t.extend_from_slice(&1u16.to_be_bytes()); // glyph count
        t.extend_from_slice(&1u16.to_be_bytes()); // flags: long offsets
        t.extend_from_slice(&28u32.to_be_bytes()); // data array offset
        t.extend_from_slice(&0u32.to_be_bytes());
        t.extend_from_slice(&(g.len() as u32).to_be_bytes());
        assert_eq!(t.len(), 28);
        t.extend_from_slice(&g);
        t
    }

    /// `TupleVariation::deltas()` of the crafted table, canonical `pos:x:y …`; `limit` guards
    /// against a runaway iterator.
    pub fn read_tuple_deltas(pt: &[u8], deltas: &[u8], shared: bool) -> String {
        let bytes = craft_gvar(pt, deltas, shared);
        let r = catch(|| {
            let gvar = read_fonts::tables::gvar::Gvar::read(FontData::new(&bytes)).map_err(|e| format!("{e}"))?;
            let data = gvar
                .glyph_variation_data(read_fonts::types::GlyphId::new(0))
                .map_err(|e| format!("{e}"))?
                .ok_or("nodata".to_string())?;
            let mut out = vec![];
            for t in data.tuples() {
                for d in t.deltas().take(200_000) {
                    out.push(format!("{}:{}:{}", d.position, d.x_delta, d.y_delta));
                }
            }
            Ok::<_, String>(out)
        });
        match r {
            Ok(Ok(v)) => join(&v),
            Ok(Err(e)) => format!("err:{e}"),
            Err(_) => "trap".into(),
        }
    }

    /// request line for the model: the serialized bytes exactly as the reader sees them
    fn td_req(pt: &[u8], deltas: &[u8], shared: bool) -> String {
        let mut ser = pt.to_vec();
        ser.extend_from_slice(deltas);
        if shared { format!("td.shared {} {}", deltas.len(), hex(&ser)) } else { format!("td.priv {}", hex(&ser)) }
    }

    fn gen_points(rng: &mut Rng) -> Vec<u16> {
        const GAPS: [u32; 14] = [0, 1, 1, 2, 5, 126, 127, 128, 129, 254, 255, 256, 257, 1000];
        let n = match rng.below(8) {
            0 => 1 + rng.below(4) as usize,
            1 => *rng.pick(&[126usize, 127, 128, 129, 130, 255, 256, 257]),
            2 => 100 + rng.below(200) as usize,
            _ => 1 + rng.below(40) as usize,
        };
        let mode = rng.below(4);
        let mut out = vec![];
        let mut cur: u32 = if rng.chance(1, 2) { 0 } else { *rng.pick(&GAPS) };
        let mut first = true;
        for i in 0..n {
            if !first {
                let gap = match mode {
                    0 => 1,
                    1 => *rng.pick(&GAPS),
                    2 => if (i / 130) % 2 == 0 { 1 + rng.below(255) as u32 } else { 256 + rng.below(300) as u32 },
                    _ => if rng.chance(1, 8) { 256 + rng.below(3) as u32 } else { 1 + rng.below(3) as u32 },
                };
                cur += gap.max(1);
            }
            first = false;
            if cur > 65535 {
                break;
            }
            out.push(cur as u16);
        }
        out
    }

    pub fn run(cfg: &Config, s: &mut Session, rng: &mut Rng) {
        let n_delta = if cfg.thorough() { 20000 } else { 2500 };
        // ---- packed deltas: writer bytes, reader round trip, size bookkeeping
        let mut fixed: Vec<Vec<i32>> = vec![vec![], vec![0], vec![0; 64], vec![0; 65], vec![1; 64], vec![1; 65],
            vec![300; 64], vec![300; 65], vec![70000; 64], vec![70000; 65], vec![1, 0, 1], vec![1, 0, 0, 1],
            vec![300, 0, 300], vec![300, 5, 300], vec![300, 5, 5, 300], vec![300, 5, 0], vec![300, 5],
            vec![70000, 5, 70000], vec![70000, 0, 70000], vec![i32::MIN, i32::MAX, 0, -1]];
        for &a in VALS.iter() {
            for &b in VALS.iter() {
                fixed.push(vec![a, b]);
                fixed.push(vec![a, b, a]);
                fixed.push(vec![a, b, b, a]);
            }
        }
        let total = fixed.len() + n_delta;
        for i in 0..total {
            let ds = if i < fixed.len() { fixed[i].clone() } else { gen_deltas(rng, false) };
            let w = write_deltas(&ds);
            let hexed = match &w { Ok(b) => hex(b), Err(_) => "trap".into() };
            s.case("PackedDeltas::write", format!("pd.enc {}", join(&ds)), hexed);
            let Ok(bytes) = w else {
                s.oracle("packed-deltas-write-no-panic", false, || join(&ds), || format!("{w:?}"));
                continue;
            };
            s.count(&format!("deltas.len~{}", match ds.len() { 0 => "0", 1..=63 => "1-63", 64 => "64", 65..=127 => "65-127", _ => "128+" }));
            // real reader on real writer output
            let back: Result<Vec<i32>, String> = catch(|| rv::PackedDeltas::consume_all(FontData::new(&bytes)).iter().collect());
            s.oracle("packed-deltas-roundtrip", back.as_ref().ok() == Some(&ds), || join(&ds), || format!("bytes {} read back {:?}", hex(&bytes), back.as_ref().map(|v| join(v))));
            s.case("PackedDeltas::consume_all", format!("pd.decall {}", hex(&bytes)), trap_or(back.map(|v| join(&v))));
            // run structure statistics from the bytes
            let mut off = 0;
            while off < bytes.len() {
                let c = bytes[off];
                let n = (c & 0x3f) as usize + 1;
                let (name, sz) = match c >> 6 { 0 => ("i8", 1), 1 => ("i16", 2), 2 => ("zero", 0), _ => ("i32", 4) };
                s.count(&format!("run:{name}:{}", if n == 64 { "64" } else if n == 1 { "1" } else { "2-63" }));
                off += 1 + n * sz;
            }
        }
        // ---- x/y split through TupleVariation::deltas(), all points (count byte 0)
        for i in 0..n_delta {
            let n = if i % 3 == 0 { *rng.pick(&LENS) } else { 1 + rng.below(70) as usize };
            let mut xs = gen_deltas(rng, true);
            let mut ys = gen_deltas(rng, true);
            xs.resize(n, 0);
            ys.resize(n, 1);
            let (Ok(bx), Ok(by)) = (write_deltas(&xs), write_deltas(&ys)) else { continue };
            let mut db = bx.clone();
            db.extend_from_slice(&by);
            let got = read_tuple_deltas(&[0], &db, false);
            let want: Vec<String> = (0..n).map(|k| format!("{k}:{}:{}", xs[k], ys[k])).collect();
            s.oracle("tuple-deltas-dense-roundtrip", got == join(&want), || format!("x={} y={}", join(&xs), join(&ys)), || format!("got {got}"));
            s.case("TupleVariation::deltas(all)", format!("td.priv 00{}", hex(&db)), got);
        }
        // ---- packed point numbers
        let n_pts = if cfg.thorough() { 12000 } else { 1500 };
        let mut fixed_pts: Vec<Vec<u16>> = vec![vec![0], vec![65535], vec![0, 65535], vec![255], vec![256], vec![0, 255], vec![0, 256],
            vec![1, 256, 257], vec![1, 257, 258], (0..127).collect(), (0..128).collect(), (0..129).collect(), (0..300).collect(),
            (0..128).map(|i| i * 256).collect(), (0..129).map(|i| i * 300).collect(), (0..200).map(|i| i * 255).collect(), vec![3, 3], vec![]];
        fixed_pts.push((0..0x7fffu32).map(|i| i as u16).collect());
        let totalp = fixed_pts.len() + n_pts;
        for i in 0..totalp {
            let ps = if i < fixed_pts.len() { fixed_pts[i].clone() } else { gen_points(rng) };
            let w = write_points(&ps);
            s.case("PackedPointNumbers::write", format!("pp.enc {}", join(&ps)), match &w { Ok(b) => hex(b), Err(_) => "trap".into() });
            let Ok(bytes) = w else {
                s.oracle("packed-points-write-no-panic", false, || join(&ps), || format!("{w:?}"));
                continue;
            };
            s.count(&format!("points.len~{}", match ps.len() { 0 => "0", 1..=126 => "1-126", 127 => "127", 128 => "128", 129..=255 => "129-255", _ => "256+" }));
            let mut padded = bytes.clone();
            padded.extend_from_slice(&[0xAB, 0xCD, 0xEF]);
            let rd = catch(|| {
                let (p, rest) = rv::PackedPointNumbers::split_off_front(FontData::new(&padded));
                let c = p.count();
                let l: Vec<u16> = if c == 0 { vec![] } else { p.iter().collect() };
                (c, rest.len(), l)
            });
            let ok = match &rd { Ok((c, rest, l)) => *rest == 3 && ((ps.is_empty() && *c == 0) || (*c as usize == ps.len() && l == &ps)), Err(_) => false };
            if ps.is_empty() {
                // documented: Some([]) is indistinguishable from All
                s.oracle("packed-points-empty-some-reads-as-all", matches!(&rd, Ok((0, 3, _))), || "Some([])".into(), || format!("{rd:?}"));
            } else {
                s.oracle("packed-points-roundtrip", ok, || join(&ps), || format!("bytes {} read back {rd:?}", hex(&bytes)));
            }
            let canon = match &rd { Ok((c, rest, l)) => format!("{c} {rest} {}", if *c == 0 { "all".to_string() } else { join(l) }), Err(_) => "trap".into() };
            s.case("PackedPointNumbers::read", format!("pp.dec {}", hex(&padded)), canon);
            // sparse tuple: these points with x = point number, y = -index
            if !ps.is_empty() && ps.len() <= 400 {
                let xs: Vec<i32> = ps.iter().map(|p| *p as i32).collect();
                let ys: Vec<i32> = (0..ps.len()).map(|k| -(k as i32)).collect();
                let (Ok(bx), Ok(by)) = (write_deltas(&xs), write_deltas(&ys)) else { continue };
                let mut db = bx.clone();
                db.extend_from_slice(&by);
                let shared = i % 2 == 0;
                let got = read_tuple_deltas(&bytes, &db, shared);
                let strictly = ps.windows(2).all(|w| w[0] < w[1]);
                let want: Vec<String> = (0..ps.len()).map(|k| format!("{}:{}:{}", ps[k], xs[k], ys[k])).collect();
                if strictly {
                    s.oracle("tuple-deltas-sparse-roundtrip", got == join(&want), || join(&ps), || format!("got {got}"));
                }
                s.case("TupleVariation::deltas(sparse)", td_req(&bytes, &db, shared), got);
            }
        }
        // ---- unsorted / duplicate point numbers: writer traps (u16 subtraction) or reader skips
        for _ in 0..(n_pts / 10) {
            let mut ps = gen_points(rng);
            ps.truncate(12);
            if ps.len() >= 2 {
                let a = rng.below(ps.len() as u64) as usize;
                let b = rng.below(ps.len() as u64) as usize;
                ps.swap(a, b);
                if rng.chance(1, 3) { ps[a] = ps[b]; }
            }
            let w = write_points(&ps);
            s.count(if w.is_ok() { "unsorted-points:written" } else { "unsorted-points:trap" });
            s.case("PackedPointNumbers::write(unsorted)", format!("pp.enc {}", join(&ps)), match &w { Ok(b) => hex(b), Err(_) => "trap".into() });
        }
        // ---- reader on damaged / arbitrary bytes (totality + same answers as the model)
        let n_fuzz = if cfg.thorough() { 30000 } else { 4000 };
        for i in 0..n_fuzz {
            let (mut pb, mut db): (Vec<u8>, Vec<u8>);
            if i % 4 == 0 {
                let k = rng.below(6) as usize + 1;
                pb = rng.bytes(k);
                if rng.chance(1, 2) { pb[0] &= 0x0f; }
                let k = rng.below(24) as usize;
                db = rng.bytes(k);
            } else {
                let mut ps = gen_points(rng);
                ps.truncate(1 + rng.below(20) as usize);
                pb = if rng.chance(1, 4) { vec![0] } else { write_points(&ps).unwrap_or(vec![0]) };
                let n = if pb == [0] { 1 + rng.below(70) as usize } else { ps.len() };
                let mut xs = gen_deltas(rng, false);
                let mut ys = gen_deltas(rng, false);
                xs.resize(n, 7);
                ys.resize(n, 0);
                db = write_deltas(&xs).unwrap_or_default();
                db.extend_from_slice(&write_deltas(&ys).unwrap_or_default());
                // damage
                match rng.below(6) {
                    0 => { let k = rng.below(db.len() as u64 + 1) as usize; db.truncate(k); }
                    1 => { if !db.is_empty() { let k = rng.below(db.len() as u64) as usize; db[k] ^= 1 << rng.below(8); } }
                    2 => { if !pb.is_empty() { let k = rng.below(pb.len() as u64) as usize; pb[k] ^= 1 << rng.below(8); } }
                    3 => { let k = rng.below(pb.len() as u64 + 1) as usize; pb.truncate(k.max(1)); }
                    4 => { db.extend_from_slice(&rng.bytes(3)); }
                    _ => {}
                }
            }
            let shared = rng.chance(1, 2);
            let got = read_tuple_deltas(&pb, &db, shared);
            s.oracle("tuple-deltas-total", got != "trap", || format!("points {} deltas {}", hex(&pb), hex(&db)), || got.clone());
            s.count(if got == "-" { "fuzz:empty" } else { "fuzz:some" });
            s.case("TupleVariation::deltas(damaged)", td_req(&pb, &db, shared), got);
            // the stand-alone point reader
            let rd = catch(|| {
                let (p, rest) = rv::PackedPointNumbers::split_off_front(FontData::new(&pb));
                let c = p.count();
                let l: Vec<u16> = if c == 0 { vec![] } else { p.iter().collect() };
                (c, rest.len(), l)
            });
            s.oracle("packed-points-read-total", rd.is_ok(), || hex(&pb), || format!("{rd:?}"));
            if let Ok((c, _, l)) = &rd {
                s.oracle("packed-points-yield-bound", l.len() <= *c as usize, || hex(&pb), || format!("{rd:?}"));
            }
            let canon = match &rd { Ok((c, rest, l)) => format!("{c} {rest} {}", if *c == 0 { "all".to_string() } else { join(l) }), Err(_) => "trap".into() };
            s.case("PackedPointNumbers::read(damaged)", format!("pp.dec {}", hex(&pb)), canon);
            let all: Result<Vec<i32>, String> = catch(|| rv::PackedDeltas::consume_all(FontData::new(&db)).iter().collect());
            s.oracle("packed-deltas-read-total", all.is_ok(), || hex(&db), || format!("{all:?}"));
            s.case("PackedDeltas::consume_all(damaged)", format!("pd.decall {}", hex(&db)), trap_or(all.map(|v| join(&v))));
        }
    }
}

fn run(cfg: &Config, s: &mut Session) {
    let mut rng = Rng::new(cfg.seed);
    packed::run(cfg, s, &mut rng);
}

fn main() {
    fv_harness::main_with("C10", run)
}
