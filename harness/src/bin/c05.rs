//! C05 — offset packing is sound.
//!
//! Correspondence: write-fonts' packing graph (through `write_fonts::verif_hooks`) vs
//! Model/Graph.lean: sort orders, node state (position, distance, space, cached parents), gate,
//! overflow lists, space assignment / isolation (with id remapping), pack result and the
//! serialized bytes, on exhaustive/sampled small shapes over a size alphabet straddling 64 KiB and
//! on random DAGs with sharing and 32-bit sub-spaces.
//! Oracles (model-independent): walk the output bytes from the root following every offset.
use fv_harness::common::*;
use std::collections::{BTreeSet, HashMap, HashSet};
use write_fonts::verif_hooks::{self as hooks, LinkSpec, NodeSpec, ObjView, VGraph};

#[path = "c05/tw.rs"]
mod tw;

// ---------------------------------------------------------------------------------------------
// specs

#[derive(Clone, Debug)]
pub struct L {
    pub pos: u32,
    pub width: u8,
    pub target: usize,
    pub adj: u32,
}

#[derive(Clone, Debug)]
pub struct N {
    pub size: usize,
    pub fill: u8,
    pub links: Vec<L>,
}

#[derive(Clone, Debug)]
pub struct Spec {
    pub nodes: Vec<N>,
    pub root: usize,
    /// lookup types (parallel to `nodes`; empty = untyped spec): `(is_gpos, lookup type)`
    pub types: Vec<Option<(bool, u16)>>,
}

impl Spec {
    fn is_typed(&self) -> bool {
        self.types.iter().any(|t| t.is_some())
    }

    fn type_of(&self, i: usize) -> Option<(bool, u16)> {
        self.types.get(i).copied().flatten()
    }

    /// the bytes of node `i`: the fill byte, and for a lookup its lookup type in the first two bytes
    fn node_bytes(&self, i: usize) -> Vec<u8> {
        let n = &self.nodes[i];
        let mut b = vec![n.fill; n.size];
        if let Some((_, t)) = self.type_of(i) {
            if b.len() >= 2 {
                b[0] = (t >> 8) as u8;
                b[1] = t as u8;
            }
        }
        b
    }

    fn node_specs(&self, burn: &[u32]) -> Vec<NodeSpec> {
        self.nodes
            .iter()
            .enumerate()
            .map(|(i, n)| NodeSpec {
                bytes: self.node_bytes(i),
                links: n
                    .links
                    .iter()
                    .map(|l| LinkSpec { pos: l.pos, width: l.width, target: l.target, adjustment: l.adj })
                    .collect(),
                burn_ids: burn.get(i).copied().unwrap_or(0),
            })
            .collect()
    }

    /// request tail `R root F fresh N …` with the given ids for the nodes
    fn render(&self, ids: &[u64], fresh: &str, with_bytes: bool) -> String {
        let mut s = format!("R {} F {}", ids[self.root], fresh);
        for (i, n) in self.nodes.iter().enumerate() {
            let bytes = if with_bytes && n.size > 0 { rle(&self.node_bytes(i)) } else { "-".to_string() };
            s.push_str(&format!(" N {} {} {}", ids[i], n.size, bytes));
            if let Some((gpos, t)) = self.type_of(i) {
                s.push_str(&format!(" T {}{}", if gpos { 'p' } else { 's' }, t));
            }
            for l in &n.links {
                s.push_str(&format!(" L {} {} {} {}", l.pos, l.width, ids[l.target], l.adj));
            }
        }
        s
    }

    fn describe(&self) -> String {
        self.render(&(0..self.nodes.len() as u64).collect::<Vec<_>>(), "-", false)
    }

    fn total_size(&self) -> usize {
        self.nodes.iter().map(|n| n.size).sum()
    }
}

/// byte-run codec, identical to Drv/C05.lean `rle`
pub fn rle(bs: &[u8]) -> String {
    if bs.is_empty() {
        return "-".into();
    }
    let mut segs: Vec<String> = vec![];
    let mut lit = String::new();
    let mut i = 0;
    while i < bs.len() {
        let b = bs[i];
        let mut n = 1;
        while i + n < bs.len() && bs[i + n] == b {
            n += 1;
        }
        if n >= 8 {
            if !lit.is_empty() {
                segs.push(format!("h{lit}"));
                lit.clear();
            }
            segs.push(format!("r{b:02x}x{n}"));
        } else {
            for _ in 0..n {
                lit.push_str(&format!("{b:02x}"));
            }
        }
        i += n;
    }
    if !lit.is_empty() {
        segs.push(format!("h{lit}"));
    }
    segs.join(".")
}

fn ranges(ids: &[u64]) -> String {
    if ids.is_empty() {
        return "-".into();
    }
    let mut out = vec![];
    let mut lo = ids[0];
    let mut hi = ids[0];
    for &x in &ids[1..] {
        if x == hi + 1 {
            hi = x;
        } else {
            out.push(format!("{lo}-{hi}"));
            lo = x;
            hi = x;
        }
    }
    out.push(format!("{lo}-{hi}"));
    out.join(",")
}

// ---------------------------------------------------------------------------------------------
// running ops on the real code

fn dash(v: Vec<String>, sep: &str) -> String {
    if v.is_empty() {
        "-".into()
    } else {
        v.join(sep)
    }
}

/// state rendering identical to Drv/C05.lean `showState`, ids mapped through `m`
/// `GPOS5MarkToLig` -> `p5`, `GSUB7Extension` -> `s7`
fn type_token(name: &str) -> Option<String> {
    let (k, rest) = if let Some(r) = name.strip_prefix("GPOS") {
        ('p', r)
    } else if let Some(r) = name.strip_prefix("GSUB") {
        ('s', r)
    } else {
        return None;
    };
    let digits: String = rest.chars().take_while(|c| c.is_ascii_digit()).collect();
    if digits.is_empty() { None } else { Some(format!("{k}{digits}")) }
}

fn show_state(g: &VGraph, m: &dyn Fn(u64) -> u64) -> String {
    show_state_typed(g, m, &[])
}

/// `typed_ids`: the (raw) ids whose lookup type is reported (the objects of the request; copies made
/// by `duplicate_subgraph` inherit a type that plays no role any more)
fn show_state_typed(g: &VGraph, m: &dyn Fn(u64) -> u64, typed_ids: &[u64]) -> String {
    let mut s = format!(
        "order={} ns={} roots={}",
        dash(g.order().iter().map(|i| m(*i).to_string()).collect(), ","),
        g.next_space(),
        dash(g.num_roots_per_space().iter().map(|(s, n)| format!("{s}:{n}")).collect(), ",")
    );
    let mut objs: Vec<(u64, String)> = g
        .objects()
        .iter()
        .map(|o| {
            (
                m(o.id),
                format!(
                    "{}:{}:{}:{}:{}:{}",
                    m(o.id),
                    o.position,
                    o.distance,
                    o.space,
                    dash(o.links.iter().map(|l| m(l.2).to_string()).collect(), "."),
                    dash(o.parents.iter().map(|p| format!("{}/{}", m(p.0), p.1)).collect(), ".")
                ),
            )
        })
        .collect();
    objs.sort();
    for (_, o) in objs {
        s.push(' ');
        s.push_str(&o);
    }
    let mut types: Vec<(u64, String)> = g
        .objects()
        .iter()
        .filter(|o| typed_ids.contains(&o.id))
        .filter_map(|o| type_token(&o.type_name).map(|t| (m(o.id), t)))
        .collect();
    types.sort();
    if !types.is_empty() {
        s.push_str(" types=");
        s.push_str(&types.iter().map(|(i, t)| format!("{i}:{t}")).collect::<Vec<_>>().join(","));
    }
    s
}

pub struct Ran {
    pub panic_msg: String,
    /// response in the ids given by `idmap`
    pub resp: String,
    pub trapped: bool,
    pub raw_ids: Vec<u64>,
    pub new_ids: Vec<u64>,
    pub bytes: Option<Vec<u8>>,
    pub pack_ok: Option<bool>,
    pub final_objs: Vec<ObjView>,
    pub final_order: Vec<u64>,
    pub root: u64,
}

/// Run `ops` on a fresh graph built from `spec`.  `normalise`: ids are renumbered by rank
/// (spec index, then new ids ascending from n); otherwise raw counter values are reported.
pub fn run_ops(spec: &Spec, ops: &[&str], burn: &[u32], normalise: bool) -> Ran {
    let specs = spec.node_specs(burn);
    let mut g = if spec.is_typed() { VGraph::new_typed(&specs, &spec.types, spec.root) } else { VGraph::new(&specs, spec.root) };
    let raw_ids = g.ids().to_vec();
    let root = g.root();
    let mut bytes = None;
    let mut pack_ok = None;
    let res = catch(|| {
        let mut toks: Vec<String> = vec![];
        for op in ops {
            match *op {
                "kahn" => {
                    g.sort_kahn();
                    toks.push("ok".into())
                }
                "short" => {
                    g.sort_shortest_distance();
                    toks.push("ok".into())
                }
                "basic" => toks.push(tf(g.basic_sort())),
                "gate" => toks.push(tf(g.has_overflows())),
                "ovf" => {
                    let ov = g.find_overflows();
                    toks.push(format!(
                        "ovf={}",
                        dash(ov.iter().map(|o| format!("{}>{}:{}:{}", IdTag(o.0), IdTag(o.1), o.2, o.3)).collect(), ",")
                    ))
                }
                "assign" => toks.push(tf(g.assign_spaces_hb())),
                "iso" => toks.push(tf(g.try_isolating_subgraphs())),
                "pack" => {
                    let ok = g.pack_objects();
                    pack_ok = Some(ok);
                    toks.push(tf(ok))
                }
                "ser" => {
                    let b = g.serialize();
                    toks.push(rle(&b));
                    bytes = Some(b);
                }
                "dump" => match g.dump() {
                    None => {
                        pack_ok = Some(false);
                        toks.push("fail".into())
                    }
                    Some(b) => {
                        pack_ok = Some(true);
                        toks.push(rle(&b));
                        bytes = Some(b);
                    }
                },
                "sel" => toks.push(match g.select_promotions() {
                    None => "sel=none".into(),
                    Some((parent, can, sel)) => format!(
                        "sel={}:{}:{}",
                        IdTag(parent),
                        dash(can.iter().map(|i| IdTag(*i).to_string()).collect(), "."),
                        dash(sel.iter().map(|i| IdTag(*i).to_string()).collect(), ".")
                    ),
                }),
                "promote" => {
                    g.try_promoting_subtables();
                    toks.push("ok".into())
                }
                "packt" => {
                    let ok = g.pack_objects();
                    pack_ok = Some(ok);
                    toks.push(tf(ok))
                }
                "dumpt" => match g.dump() {
                    None => {
                        pack_ok = Some(false);
                        toks.push("fail".into())
                    }
                    Some(b) => {
                        pack_ok = Some(true);
                        toks.push(rle(&b));
                        bytes = Some(b);
                    }
                },
                other => panic!("unknown op {other}"),
            }
        }
        toks
    });
    let objs_after: Vec<ObjView> = catch(|| g.objects()).unwrap_or_default();
    // every id drawn from the global counter during the ops (this thread is the only user), whether
    // or not the object survived (remove_orphans may have dropped it again)
    let counter_after = hooks::next_raw_id();
    let first_new = raw_ids.iter().copied().max().map(|m| m + 1).unwrap_or(counter_after);
    let new_ids: Vec<u64> = (first_new..counter_after).collect();
    let n = raw_ids.len() as u64;
    let mut map: HashMap<u64, u64> = HashMap::new();
    for (i, id) in raw_ids.iter().enumerate() {
        map.insert(*id, if normalise { i as u64 } else { *id });
    }
    for (k, id) in new_ids.iter().enumerate() {
        map.insert(*id, if normalise { n + k as u64 } else { *id });
    }
    let m = |id: u64| -> u64 { *map.get(&id).unwrap_or(&u64::MAX) };
    match res {
        Err(msg) => Ran {
            panic_msg: msg,
            resp: "trap".into(),
            trapped: true,
            raw_ids,
            new_ids,
            bytes: None,
            pack_ok: None,
            final_objs: vec![],
            final_order: vec![],
            root,
        },
        Ok(toks) => {
            let toks: Vec<String> = toks.into_iter().map(|t| untag_ids(&t, &m)).collect();
            let typed_ids: Vec<u64> = raw_ids.iter().enumerate().filter(|(i, _)| spec.type_of(*i).is_some()).map(|(_, id)| *id).collect();
            let resp = format!("{} | {}", toks.join(" "), show_state_typed(&g, &m, &typed_ids));
            Ran {
                panic_msg: String::new(),
                resp,
                trapped: false,
                raw_ids,
                new_ids,
                bytes,
                pack_ok,
                final_order: g.order(),
                final_objs: objs_after,
                root,
            }
        }
    }
}

/// raw ids are embedded as `#<raw>#` and mapped once the id map is known
struct IdTag(u64);
impl std::fmt::Display for IdTag {
    fn fmt(&self, f: &mut std::fmt::Formatter) -> std::fmt::Result {
        write!(f, "#{}#", self.0)
    }
}

fn untag_ids(t: &str, m: &dyn Fn(u64) -> u64) -> String {
    if !t.contains('#') {
        return t.to_string();
    }
    let mut out = String::new();
    let mut parts = t.split('#');
    // pattern: text (#id# text)*
    if let Some(first) = parts.next() {
        out.push_str(first);
    }
    loop {
        let Some(id) = parts.next() else { break };
        out.push_str(&m(id.parse::<u64>().unwrap()).to_string());
        if let Some(text) = parts.next() {
            out.push_str(text);
        }
    }
    out
}

fn tf(b: bool) -> String {
    if b { "t".into() } else { "f".into() }
}

// ---------------------------------------------------------------------------------------------
// oracle: walk the output from the root

pub type ObjMap = HashMap<u64, (Vec<u8>, Vec<(u32, u8, u64, u32)>)>;

/// Every offset, read with its width and base, must land on a byte-for-byte copy of the object it
/// references (link fields excepted, they are checked recursively).  Returns the set of objects
/// seen and the number of distinct (object, position) copies.
pub fn walk(out: &[u8], objs: &ObjMap, root: u64) -> Result<(BTreeSet<u64>, usize, usize), String> {
    walk_from(out, objs, root, 0)
}

/// the same walk starting at object `root` placed at `start`
pub fn walk_from(out: &[u8], objs: &ObjMap, root: u64, start: usize) -> Result<(BTreeSet<u64>, usize, usize), String> {
    let mut seen: HashSet<(u64, usize)> = HashSet::new();
    let mut ids = BTreeSet::new();
    let mut stack = vec![(root, start)];
    let mut covered = 0usize;
    while let Some((id, pos)) = stack.pop() {
        if !seen.insert((id, pos)) {
            continue;
        }
        ids.insert(id);
        let (bytes, links) = objs.get(&id).ok_or_else(|| format!("unknown object {id}"))?;
        if pos + bytes.len() > out.len() {
            return Err(format!("object {id} at {pos} (len {}) runs past the output ({})", bytes.len(), out.len()));
        }
        covered += bytes.len();
        // compare bytes outside the link fields
        let mut mask = vec![false; bytes.len()];
        for (lp, w, _, _) in links {
            for k in 0..*w as usize {
                if let Some(mk) = mask.get_mut(*lp as usize + k) {
                    *mk = true;
                }
            }
        }
        for (k, b) in bytes.iter().enumerate() {
            if !mask[k] && out[pos + k] != *b {
                return Err(format!("object {id} at {pos}: byte {k} is {:02x}, expected {:02x}", out[pos + k], b));
            }
        }
        for (lp, w, target, adj) in links {
            let at = pos + *lp as usize;
            if at + *w as usize > out.len() {
                return Err(format!("object {id} at {pos}: link field at {at} outside the output"));
            }
            let mut v: usize = 0;
            for k in 0..*w as usize {
                v = (v << 8) | out[at + k] as usize;
            }
            stack.push((*target, pos + *adj as usize + v));
        }
    }
    Ok((ids, seen.len(), covered))
}

fn spec_objmap(spec: &Spec) -> ObjMap {
    spec.nodes
        .iter()
        .enumerate()
        .map(|(i, n)| {
            (
                i as u64,
                (spec.node_bytes(i), n.links.iter().map(|l| (l.pos, l.width, l.target as u64, l.adj)).collect()),
            )
        })
        .collect()
}

fn reachable(spec: &Spec) -> BTreeSet<u64> {
    let mut seen = BTreeSet::new();
    let mut stack = vec![spec.root];
    while let Some(i) = stack.pop() {
        if seen.insert(i as u64) {
            for l in &spec.nodes[i].links {
                stack.push(l.target);
            }
        }
    }
    seen
}

fn objview_map(objs: &[ObjView]) -> ObjMap {
    objs.iter().map(|o| (o.id, (o.bytes.clone(), o.links.clone()))).collect()
}

// ---------------------------------------------------------------------------------------------
// one spec through all comparisons

const OPS_A: &[&str] = &["kahn", "gate", "ovf"];
const OPS_B: &[&str] = &["short", "gate", "ovf"];
const OPS_C: &[&str] = &["dump"];
const OPS_D: &[&str] = &["basic", "assign", "short", "gate", "ovf", "iso", "short", "ovf", "iso", "short", "gate"];
const OPS_E: &[&str] = &["pack", "ser"];

fn fresh_for(ran: &Ran, n: usize) -> String {
    if ran.trapped {
        // the model must trap whatever the supply is
        format!("{}-{}", n, n + 999)
    } else {
        let k = ran.new_ids.len();
        if k == 0 { "-".into() } else { format!("{}-{}", n, n + k - 1) }
    }
}

fn norm_ids(n: usize) -> Vec<u64> {
    (0..n as u64).collect()
}

static KNOWN_SPACE_ASSERT: std::sync::atomic::AtomicUsize = std::sync::atomic::AtomicUsize::new(0);

pub fn check_spec(s: &mut Session, group: &'static str, spec: &Spec, full: bool) {
    let n = spec.nodes.len();
    let ids = norm_ids(n);
    let valid_adj = spec.nodes.iter().all(|nd| nd.links.iter().all(|l| l.adj as usize <= nd.size));
    // --- dump: pack + serialize, the end-to-end observable
    let ran = run_ops(spec, OPS_C, &[], true);
    s.case(group, format!("g.ops dump {}", spec.render(&ids, &fresh_for(&ran, n), true)), ran.resp.clone());
    s.count(&format!(
        "dump:{}",
        if ran.trapped { "trap" } else if ran.pack_ok == Some(true) { "ok" } else { "fail" }
    ));
    if !ran.new_ids.is_empty() {
        s.count("dump:duplicated-nodes");
    }
    let input = || format!("g.ops dump {}", spec.describe());
    if valid_adj {
        // the panic site is part of the oracle name so that a known finding can be keyed on it
        let site = if ran.panic_msg.contains("cycle or something?") {
            "pack-no-panic(cycle-or-something)"
        } else if ran.panic_msg.contains("left == right") && ran.panic_msg.contains("Space(") {
            "pack-no-panic(try_isolating_subgraphs-space-assert)"
        } else {
            "pack-no-panic"
        };
        // the space assertion is a listed known finding: keep a few instances, count the rest, so
        // that they cannot crowd other failures out of the (capped) failure list
        if ran.trapped && site.contains("space-assert") {
            s.count("known:space-assert-panics");
            s.count(&format!("known:space-assert-nodes:{}", match n { 0..=8 => "<=8", 9..=32 => "9..32", 33..=99 => "33..99", _ => ">=100" }));
            if KNOWN_SPACE_ASSERT.fetch_add(1, std::sync::atomic::Ordering::Relaxed) >= 3 {
                return;
            }
        }
        s.oracle(site, !ran.trapped, input, || format!("pack_objects/serialize panicked on an acyclic graph: {}", ran.panic_msg));
    } else {
        s.count(if ran.trapped { "adj>size:trap" } else { "adj>size:no-trap" });
    }
    if let Some(out) = &ran.bytes {
        // walk with the *input* objects: duplication must be invisible to a reader
        let w = walk(out, &spec_objmap(spec), spec.root as u64);
        let want = reachable(spec);
        let ok = matches!(&w, Ok((seen, _, _)) if *seen == want);
        s.oracle("walk-input-graph", ok, input, || match &w {
            Ok((seen, _, _)) => format!("reached {seen:?}, reachable {want:?}"),
            Err(e) => e.clone(),
        });
        // walk with the final objects as the packer left them
        let wf = walk(out, &objview_map(&ran.final_objs), ran.root);
        let order_set: BTreeSet<u64> = ran.final_order.iter().copied().collect();
        let okf = matches!(&wf, Ok((seen, copies, covered)) if *seen == order_set && *copies == ran.final_order.len() && *covered == out.len());
        s.oracle("walk-final-graph", okf, input, || match &wf {
            Ok((seen, copies, covered)) => format!(
                "reached {} objects / order has {}; {copies} copies; covered {covered} of {} bytes",
                seen.len(),
                ran.final_order.len(),
                out.len()
            ),
            Err(e) => e.clone(),
        });
        if let Ok((_, _, covered)) = &w {
            if *covered > spec.total_size() {
                s.count("dump:output-larger-than-input");
            }
        }
    } else if !ran.trapped {
        // failure => no bytes, and the failure is genuine only if overflows remain
        s.oracle("fail-no-bytes", ran.pack_ok == Some(false) && ran.bytes.is_none(), input, || String::new());
    }
    if !full {
        return;
    }
    for (ops, name) in [(OPS_A, "kahn,gate,ovf"), (OPS_B, "short,gate,ovf"), (OPS_D, "basic,assign,short,gate,ovf,iso,short,ovf,iso,short,gate"), (OPS_E, "pack,ser")] {
        let with_bytes = ops.contains(&"ser");
        // serialize after a *failed* pack panics only after patching every link before the first
        // overflowing one; the list-based model needs O(output) per link, so keep that negative
        // case to small graphs
        if with_bytes && ran.pack_ok != Some(true) && (n > 16 || spec.total_size() > 400_000) {
            s.count("skipped:pack,ser-on-big-failed-pack");
            continue;
        }
        let r = run_ops(spec, ops, &[], true);
        s.case(group, format!("g.ops {} {}", name, spec.render(&ids, &fresh_for(&r, n), with_bytes)), r.resp.clone());
        if r.trapped {
            s.count(&format!("trap:{}", ops[0]));
        }
        if ops[0] == "kahn" || ops[0] == "short" {
            if !r.trapped {
                // topological: each reachable object exactly once, parents first
                let pos: HashMap<u64, usize> = r.final_order.iter().enumerate().map(|(i, id)| (*id, i)).collect();
                let idx: HashMap<u64, usize> = r.raw_ids.iter().enumerate().map(|(i, id)| (*id, i)).collect();
                let want = reachable(spec);
                let mut ok = pos.len() == r.final_order.len() && pos.len() == want.len();
                for id in &r.final_order {
                    let i = idx[id];
                    ok &= want.contains(&(i as u64));
                    for l in &spec.nodes[i].links {
                        ok &= pos.get(&r.raw_ids[l.target]).map(|p| *p > pos[id]).unwrap_or(false);
                    }
                }
                s.oracle(if ops[0] == "kahn" { "kahn-topological" } else { "shortest-topological" }, ok,
                    || format!("g.ops {} {}", ops[0], spec.describe()), || format!("order {:?} ids {:?}", r.final_order, r.raw_ids));
            } else if valid_adj {
                s.oracle("sort-no-panic", false, || format!("g.ops {} {}", ops[0], spec.describe()), || "sort panicked on an acyclic graph".into());
            }
        }
    }
}

// ---------------------------------------------------------------------------------------------
// typed graphs: extension promotion

/// Walk the output against the *input* objects, seeing lookups through extension indirection: a
/// lookup of (input) lookup type `t` is either unchanged, or starts with the extension lookup type of
/// its table (GPOS 9 / GSUB 7) and every one of its offsets leads to an 8-byte extension subtable
/// `{format 1, extensionLookupType t, Offset32}` whose 32-bit offset (relative to the extension
/// subtable) leads to a byte-for-byte copy of the original subtable.  Returns the set of input objects
/// reached and the number of promoted lookups met.
pub fn walk_promo(out: &[u8], objs: &ObjMap, types: &HashMap<u64, (bool, u16)>, root: u64) -> Result<(BTreeSet<u64>, usize), String> {
    let mut seen: HashSet<(u64, usize)> = HashSet::new();
    let mut ids = BTreeSet::new();
    let mut promoted_ids = BTreeSet::new();
    let mut stack = vec![(root, 0usize)];
    while let Some((id, pos)) = stack.pop() {
        if !seen.insert((id, pos)) {
            continue;
        }
        ids.insert(id);
        let (bytes, links) = objs.get(&id).ok_or_else(|| format!("unknown object {id}"))?;
        if pos + bytes.len() > out.len() {
            return Err(format!("object {id} at {pos} (len {}) runs past the output ({})", bytes.len(), out.len()));
        }
        let mut promoted = None;
        if let Some((gpos, t)) = types.get(&id) {
            if bytes.len() < 2 {
                return Err(format!("lookup {id} shorter than its type field"));
            }
            let head = u16::from_be_bytes([out[pos], out[pos + 1]]);
            let ext = if *gpos { 9 } else { 7 };
            if head == *t {
            } else if head == ext {
                promoted = Some(*t);
                promoted_ids.insert(id);
            } else {
                return Err(format!("lookup {id} at {pos}: lookup type field is {head}, expected {t} or the extension type {ext}"));
            }
        }
        let mut mask = vec![false; bytes.len()];
        for (lp, w, _, _) in links {
            for k in 0..*w as usize {
                if let Some(mk) = mask.get_mut(*lp as usize + k) {
                    *mk = true;
                }
            }
        }
        for (k, b) in bytes.iter().enumerate() {
            if promoted.is_some() && k < 2 {
                continue;
            }
            if !mask[k] && out[pos + k] != *b {
                return Err(format!("object {id} at {pos}: byte {k} is {:02x}, expected {:02x}", out[pos + k], b));
            }
        }
        for (lp, w, target, adj) in links {
            let at = pos + *lp as usize;
            if at + *w as usize > out.len() {
                return Err(format!("object {id} at {pos}: link field at {at} outside the output"));
            }
            let mut v: usize = 0;
            for k in 0..*w as usize {
                v = (v << 8) | out[at + k] as usize;
            }
            let tpos = pos + *adj as usize + v;
            match promoted {
                None => stack.push((*target, tpos)),
                Some(t) => {
                    if tpos + 8 > out.len() {
                        return Err(format!("lookup {id}: extension subtable at {tpos} runs past the output"));
                    }
                    let e = &out[tpos..tpos + 8];
                    if e[0] != 0 || e[1] != 1 || u16::from_be_bytes([e[2], e[3]]) != t {
                        return Err(format!("lookup {id}: extension subtable at {tpos} is {:02x?}, expected format 1 type {t}", &e[..4]));
                    }
                    let off = u32::from_be_bytes([e[4], e[5], e[6], e[7]]) as usize;
                    stack.push((*target, tpos + off));
                }
            }
        }
    }
    Ok((ids, promoted_ids.len()))
}

fn spec_types(spec: &Spec) -> HashMap<u64, (bool, u16)> {
    (0..spec.nodes.len()).filter_map(|i| spec.type_of(i).map(|t| (i as u64, t))).collect()
}

fn is_promotable(t: (bool, u16)) -> bool {
    if t.0 { t.1 != 9 } else { t.1 != 7 }
}

/// what `get_promotable_subtables` insists on: all promotable lookups hang off one and the same parent
fn promo_wellformed(spec: &Spec) -> bool {
    let mut parents = BTreeSet::new();
    let mut any = false;
    for i in 0..spec.nodes.len() {
        if spec.type_of(i).map(is_promotable).unwrap_or(false) {
            any = true;
            for (p, nd) in spec.nodes.iter().enumerate() {
                if nd.links.iter().any(|l| l.target == i) {
                    parents.insert(p);
                }
            }
        }
    }
    !any || parents.len() == 1
}

const OPS_T1: &[&str] = &["dumpt"];
const OPS_T2: &[&str] = &["basic", "sel", "promote", "short", "gate", "ovf"];
const OPS_T3: &[&str] = &["basic", "promote", "assign", "short", "gate", "ovf", "iso", "short", "gate"];
const OPS_T4: &[&str] = &["packt", "ser"];

pub fn check_typed(s: &mut Session, group: &'static str, spec: &Spec, full: bool) {
    let n = spec.nodes.len();
    let ids = norm_ids(n);
    let wellformed = promo_wellformed(spec);
    let ran = run_ops(spec, OPS_T1, &[], true);
    s.case(group, format!("g.ops dumpt {}", spec.render(&ids, &fresh_for(&ran, n), true)), ran.resp.clone());
    s.count(&format!(
        "dumpt:{}",
        if ran.trapped { "trap" } else if ran.pack_ok == Some(true) { "ok" } else { "fail" }
    ));
    let input = || format!("g.ops dumpt {}", spec.render(&ids, "-", false));
    if ran.trapped {
        let site = if ran.panic_msg.contains("multiple parents") {
            "multiple-parents"
        } else if ran.panic_msg.contains("left == right") && ran.panic_msg.contains("Space(") {
            "try_isolating_subgraphs-space-assert"
        } else if ran.panic_msg.contains("cycle or something?") {
            "cycle-or-something"
        } else {
            "other"
        };
        s.count(&format!("dumpt:trap:{site}"));
        if wellformed {
            s.oracle(&format!("packt-no-panic({site})"), false, input, || format!("pack_objects panicked on a well-formed typed graph: {}", ran.panic_msg));
        }
    }
    if let Some(out) = &ran.bytes {
        let w = walk_promo(out, &spec_objmap(spec), &spec_types(spec), spec.root as u64);
        let want = reachable(spec);
        let ok = matches!(&w, Ok((seen, _)) if *seen == want);
        s.oracle("walk-input-through-extensions", ok, input, || match &w {
            Ok((seen, _)) => format!("reached {seen:?}, reachable {want:?}"),
            Err(e) => e.clone(),
        });
        if let Ok((_, promoted)) = &w {
            s.count(if *promoted > 0 { "dumpt:ok:with-promoted-lookups" } else { "dumpt:ok:nothing-promoted" });
        }
        let wf = walk(out, &objview_map(&ran.final_objs), ran.root);
        let order_set: BTreeSet<u64> = ran.final_order.iter().copied().collect();
        let okf = matches!(&wf, Ok((seen, copies, covered)) if *seen == order_set && *copies == ran.final_order.len() && *covered == out.len());
        s.oracle("walk-final-graph", okf, input, || match &wf {
            Ok((seen, copies, covered)) => format!("reached {} objects / order has {}; {copies} copies; covered {covered} of {} bytes", seen.len(), ran.final_order.len(), out.len()),
            Err(e) => e.clone(),
        });
    } else if !ran.trapped {
        s.oracle("fail-no-bytes", ran.pack_ok == Some(false) && ran.bytes.is_none(), input, || String::new());
    }
    if !full {
        return;
    }
    for (ops, name) in [
        (OPS_T2, "basic,sel,promote,short,gate,ovf"),
        (OPS_T3, "basic,promote,assign,short,gate,ovf,iso,short,gate"),
        (OPS_T4, "packt,ser"),
    ] {
        let with_bytes = ops.contains(&"ser");
        if with_bytes && ran.pack_ok != Some(true) && (n > 16 || spec.total_size() > 400_000) {
            s.count("skipped:packt,ser-on-big-failed-pack");
            continue;
        }
        let r = run_ops(spec, ops, &[], true);
        s.case(group, format!("g.ops {} {}", name, spec.render(&ids, &fresh_for(&r, n), with_bytes)), r.resp.clone());
        if r.trapped {
            s.count(&format!("typed-trap:{}", ops[0]));
        } else if ops.contains(&"sel") {
            s.count(if r.resp.contains("sel=none") { "sel:none" } else if r.resp.split(' ').any(|t| t.starts_with("sel=") && t.ends_with(":-")) { "sel:empty" } else { "sel:some" });
        }
    }
}

/// two lookups of different lookup types sharing one subtable, then fillers, all of which overflow:
/// promotion must give each lookup its own extension subtable carrying its own lookup type
fn shared_subtable_specs() -> Vec<Spec> {
    let mut v = vec![];
    for (gpos, ta, tb, tf) in [(false, 2u16, 3u16, 1u16), (true, 1, 3, 5), (false, 4, 4, 1)] {
        for (shared_leaf, filler_leaf, n_fill) in [(42_000usize, 21_000usize, 3usize), (30_000, 30_000, 2), (60_000, 10_000, 4)] {
            // 0 header, 1 lookup list, 2 = A, 3 = B, 4 = shared subtable, 5 = its leaf, then fillers (lookup, subtable, leaf)
            let mut nodes = vec![
                N { size: 10, fill: 1, links: vec![L { pos: 8, width: 2, target: 1, adj: 0 }] },
                N { size: 0, fill: 2, links: vec![L { pos: 0, width: 2, target: 2, adj: 0 }, L { pos: 0, width: 2, target: 3, adj: 0 }] },
                N { size: 8, fill: 3, links: vec![L { pos: 6, width: 2, target: 4, adj: 0 }] },
                N { size: 8, fill: 4, links: vec![L { pos: 6, width: 2, target: 4, adj: 0 }] },
                N { size: 12, fill: 5, links: vec![L { pos: 2, width: 2, target: 5, adj: 0 }] },
                N { size: shared_leaf, fill: 6, links: vec![] },
            ];
            let mut types = vec![None, None, Some((gpos, ta)), Some((gpos, tb)), None, None];
            for k in 0..n_fill {
                let base = nodes.len();
                nodes[1].links.push(L { pos: 0, width: 2, target: base, adj: 0 });
                nodes.push(N { size: 8, fill: 0x20 + k as u8, links: vec![L { pos: 6, width: 2, target: base + 1, adj: 0 }] });
                nodes.push(N { size: 12, fill: 0x30 + k as u8, links: vec![L { pos: 2, width: 2, target: base + 2, adj: 0 }] });
                nodes.push(N { size: filler_leaf, fill: 0x40 + k as u8, links: vec![] });
                types.extend([Some((gpos, tf)), None, None]);
            }
            let need = place_links(&mut nodes[1].links, 2) as usize;
            nodes[1].size = need;
            v.push(Spec { nodes, root: 0, types });
        }
    }
    v
}

/// GPOS/GSUB shaped graphs: header → lookup list → typed lookups → subtables → big shared leaves
fn lookup_family(rng: &mut Rng) -> Spec {
    let gpos = rng.chance(1, 2);
    let plain: &[u16] = if gpos { &[1, 3, 5, 6, 7, 8] } else { &[1, 2, 3, 4, 5, 6, 8] };
    let ext: u16 = if gpos { 9 } else { 7 };
    let n_lookups = 1 + rng.below(6) as usize;
    let n_leaves = 1 + rng.below(5) as usize;
    let mut nodes = vec![
        N { size: 10, fill: 0x01, links: vec![L { pos: 8, width: 2, target: 1, adj: 0 }] },
        N { size: 0, fill: 0x02, links: vec![] },
    ];
    let mut types: Vec<Option<(bool, u16)>> = vec![None, None];
    let big = *rng.pick(&[0usize, 1, 2, 3]);
    let leaf_sizes: Vec<usize> = (0..n_leaves)
        .map(|_| match big {
            0 => *rng.pick(&[20usize, 100, 1000]),
            1 => *rng.pick(&[1000usize, 20000, 30000]),
            2 => *rng.pick(&[20000usize, 30000, 40000, 65000]),
            _ => *rng.pick(&[10usize, 65000, 66000]),
        })
        .collect();
    // leaves are appended last; remember the links to patch
    let mut leaf_links: Vec<(usize, usize, usize)> = vec![]; // (node, link index, leaf)
    let mut shareable: Vec<usize> = vec![];
    for _ in 0..n_lookups {
        let lookup = nodes.len();
        nodes[1].links.push(L { pos: 0, width: 2, target: lookup, adj: 0 });
        let is_ext = rng.chance(1, 6);
        let t = if is_ext { ext } else { *rng.pick(plain) };
        nodes.push(N { size: 0, fill: 0x10 + (lookup % 64) as u8, links: vec![] });
        types.push(Some((gpos, t)));
        let n_sub = rng.below(4) as usize + if rng.chance(1, 10) { 0 } else { 1 };
        for _ in 0..n_sub {
            // a subtable shared with an earlier lookup (byte-identical subtable data of two lookups,
            // possibly of different lookup types, is one object after ObjectStore deduplication)
            if !is_ext && !shareable.is_empty() && rng.chance(1, 3) {
                let sub = *rng.pick(&shareable);
                nodes[lookup].links.push(L { pos: 0, width: 2, target: sub, adj: 0 });
                continue;
            }
            let mut sub = nodes.len();
            if is_ext {
                // an extension subtable already in the input
                nodes[lookup].links.push(L { pos: 0, width: 2, target: sub, adj: 0 });
                nodes.push(N { size: 8, fill: 0, links: vec![L { pos: 4, width: 4, target: sub + 1, adj: 0 }] });
                types.push(None);
                sub += 1;
            } else {
                nodes[lookup].links.push(L { pos: 0, width: 2, target: sub, adj: 0 });
            }
            nodes.push(N { size: 0, fill: 0x50 + (sub % 64) as u8, links: vec![] });
            types.push(None);
            if !is_ext {
                shareable.push(sub);
            }
            let k = 1 + rng.below(3) as usize;
            for j in 0..k {
                let leaf = rng.below(n_leaves as u64) as usize;
                nodes[sub].links.push(L { pos: 0, width: if rng.chance(1, 10) { 3 } else { 2 }, target: usize::MAX, adj: 0 });
                leaf_links.push((sub, j, leaf));
            }
        }
    }
    let leaf_base = nodes.len();
    let mut used = vec![false; n_leaves];
    for (node, li, leaf) in &leaf_links {
        nodes[*node].links[*li].target = leaf_base + *leaf;
        used[*leaf] = true;
    }
    for (lf, size) in leaf_sizes.iter().enumerate() {
        nodes.push(N { size: *size, fill: 0x90 + lf as u8, links: vec![] });
        types.push(None);
        if !used[lf] {
            // keep every object reachable
            nodes[0].links.push(L { pos: 0, width: 2, target: leaf_base + lf, adj: 0 });
        }
    }
    // malformed variants: a second parent for a lookup / a promotable root
    if rng.chance(1, 14) && n_lookups > 0 {
        nodes[0].links.push(L { pos: 0, width: 2, target: 2, adj: 0 });
    }
    if rng.chance(1, 25) {
        types[0] = Some((gpos, *rng.pick(plain)));
    }
    for (i, nd) in nodes.iter_mut().enumerate() {
        let header: u32 = if types[i].is_some() { 6 } else if i == 0 { 0 } else if nd.size == 8 && nd.links.len() == 1 && nd.links[0].width == 4 { 4 } else { 2 * rng.below(4) as u32 };
        let need = place_links(&mut nd.links, header) as usize;
        if nd.size < need {
            nd.size = need + if types[i].is_some() || nd.size == 8 { 0 } else { rng.below(30) as usize };
        }
    }
    Spec { nodes, root: 0, types }
}

// ---------------------------------------------------------------------------------------------
// generators

const SIZES: [usize; 6] = [0, 2, 0x7FFE, 0xFFFC, 0xFFFE, 0x10002];

/// lay the links of a node out from `start`, packed; returns bytes needed
fn place_links(links: &mut [L], start: u32) -> u32 {
    let mut p = start;
    for l in links.iter_mut() {
        l.pos = p;
        p += l.width as u32;
    }
    p
}

/// small shapes: nodes 0..n (edges only from lower to higher index, so acyclic), every node
/// reachable from 0.  `edges[k]` ∈ {0 = absent, 2, 3, 4} over the pairs (i<j) in lexicographic order.
fn small_shape(n: usize, edges: &[u8], sizes: &[usize]) -> Option<Spec> {
    let mut nodes: Vec<N> = (0..n).map(|i| N { size: sizes[i], fill: 0xa0 + i as u8, links: vec![] }).collect();
    let mut k = 0;
    for i in 0..n {
        for j in i + 1..n {
            if edges[k] != 0 {
                nodes[i].links.push(L { pos: 0, width: edges[k], target: j, adj: 0 });
            }
            k += 1;
        }
    }
    for nd in nodes.iter_mut() {
        let need = place_links(&mut nd.links, 0);
        if need as usize > nd.size {
            return None;
        }
    }
    let spec = Spec { nodes, root: 0, types: vec![] };
    if reachable(&spec).len() != n {
        return None;
    }
    Some(spec)
}

fn random_small(rng: &mut Rng) -> Option<Spec> {
    let n = 2 + rng.below(4) as usize; // 2..=5
    let pairs = n * (n - 1) / 2;
    let edges: Vec<u8> = (0..pairs)
        .map(|_| *rng.pick(&[0u8, 0, 2, 2, 2, 3, 4, 4]))
        .collect();
    let sizes: Vec<usize> = (0..n).map(|_| *rng.pick(&SIZES)).collect();
    let mut spec = small_shape(n, &edges, &sizes)?;
    // occasionally double an edge (two links between the same pair of objects)
    if rng.chance(1, 6) {
        let i = rng.below(n as u64) as usize;
        if let Some(l) = spec.nodes[i].links.first().cloned() {
            let mut links = spec.nodes[i].links.clone();
            links.push(l);
            let need = place_links(&mut links, 0);
            if need as usize <= spec.nodes[i].size {
                spec.nodes[i].links = links;
            }
        }
    }
    Some(spec)
}

/// number of 16/24-bit-link paths from the root (what `find_space_roots_hb` walks), saturating
fn narrow_path_count(spec: &Spec) -> u64 {
    // nodes are topologically indexed in every generator here
    let n = spec.nodes.len();
    let mut paths = vec![0u64; n];
    paths[spec.root] = 1;
    let mut total = 0u64;
    for i in 0..n {
        total = total.saturating_add(paths[i]);
        for l in &spec.nodes[i].links {
            if l.width != 4 {
                paths[l.target] = paths[l.target].saturating_add(paths[i]);
            }
        }
    }
    total
}

/// random DAG with sharing, 32-bit sub-spaces and sizes chosen to provoke overflow
fn random_dag(rng: &mut Rng, max_nodes: usize) -> Spec {
    let n = 2 + rng.below(max_nodes as u64 - 1) as usize;
    let style = rng.below(4);
    // probability (out of 16) that a link is 32-bit / 24-bit
    let (p32, p24) = match style {
        0 => (0, 0),
        1 => (3, 1),
        2 => (6, 0),
        _ => (2, 3),
    };
    let mut nodes: Vec<N> = (0..n).map(|i| N { size: 0, fill: (i % 251) as u8 + 1, links: vec![] }).collect();
    let pick_width = |rng: &mut Rng| -> u8 {
        let r = rng.below(16);
        if r < p32 { 4 } else if r < p32 + p24 { 3 } else { 2 }
    };
    // every node but the root gets one parent with a smaller index (reachability)
    for j in 1..n {
        // bias towards recent nodes (deep graphs) or the root (wide graphs)
        let i = match rng.below(3) {
            0 => rng.below(j as u64) as usize,
            1 => j - 1 - rng.below((j as u64).min(3)) as usize,
            _ => rng.below(((j as u64) / 4).max(1)) as usize,
        };
        let w = pick_width(rng);
        nodes[i].links.push(L { pos: 0, width: w, target: j, adj: 0 });
    }
    // sharing: extra edges i -> j (i < j), sometimes doubled
    let extra = rng.below(n as u64 + 1) as usize;
    for _ in 0..extra {
        let j = 1 + rng.below(n as u64 - 1) as usize;
        let i = rng.below(j as u64) as usize;
        let w = pick_width(rng);
        nodes[i].links.push(L { pos: 0, width: w, target: j, adj: 0 });
    }
    for nd in nodes.iter_mut() {
        rng.shuffle(&mut nd.links);
    }
    // sizes: mostly small, some huge; leaves are more often huge
    let big_share = *rng.pick(&[0u64, 1, 2, 4, 8]);
    for i in 0..n {
        let header = rng.below(6) as u32 * 2;
        let need = place_links(&mut nodes[i].links, header) as usize;
        let extra = if rng.below(16) < big_share {
            *rng.pick(&[0x7FF0usize, 0xFFE0, 0xFFFC, 0xFFFF, 0x10002, 30000, 20000])
        } else {
            rng.below(40) as usize
        };
        nodes[i].size = need + extra;
        // offset adjustments (name-table style): relative to some point inside the parent
        if rng.chance(1, 12) && nodes[i].size > 0 {
            let adj = rng.below(nodes[i].size as u64 + 1) as u32;
            for l in nodes[i].links.iter_mut() {
                l.adj = adj;
            }
        }
    }
    let mut spec = Spec { nodes, root: 0, types: vec![] };
    // keep find_space_roots_hb's path-exponential walk bounded
    while narrow_path_count(&spec) > 20_000 {
        // drop the last extra narrow edge of the node with most links
        let i = (0..n).max_by_key(|i| spec.nodes[*i].links.len()).unwrap();
        let links = &mut spec.nodes[i].links;
        if let Some(k) = links.iter().rposition(|l| l.width != 4) {
            // never drop a node's only parent: re-point instead to keep it simple
            let t = links[k].target;
            let parents = spec.nodes.iter().flat_map(|nd| nd.links.iter()).filter(|l| l.target == t).count();
            if parents > 1 {
                spec.nodes[i].links.remove(k);
            } else {
                spec.nodes[i].links[k].width = 4;
            }
        } else {
            break;
        }
        let nd = &mut spec.nodes[i];
        let header = nd.links.first().map(|l| l.pos).unwrap_or(0);
        place_links(&mut nd.links, header);
    }
    spec
}

/// the shapes of graph.rs's own unit tests and of the HarfBuzz repacker docs, with the sizes scaled
/// so that the wide sub-spaces overflow: several 32-bit roots sharing big leaves
fn space_family(rng: &mut Rng) -> Spec {
    let roots = 2 + rng.below(4) as usize;
    let leaves = 1 + rng.below(4) as usize;
    let mut nodes = vec![N { size: 0, fill: 1, links: vec![] }];
    let via_ext = rng.chance(1, 2);
    let leaf_base = 1 + roots * if via_ext { 2 } else { 1 };
    for r in 0..roots {
        let idx = nodes.len();
        if via_ext {
            // root -16-> ext -32-> subtable
            nodes[0].links.push(L { pos: 0, width: 2, target: idx, adj: 0 });
            nodes.push(N { size: 0, fill: (idx + 1) as u8, links: vec![L { pos: 0, width: 4, target: idx + 1, adj: 0 }] });
            nodes.push(N { size: 0, fill: (idx + 2) as u8, links: vec![] });
        } else {
            nodes[0].links.push(L { pos: 0, width: 4, target: idx, adj: 0 });
            nodes.push(N { size: 0, fill: (idx + 1) as u8, links: vec![] });
        }
        let sub = nodes.len() - 1;
        for lf in 0..leaves {
            if rng.chance(3, 4) || lf == r % leaves {
                let w = if rng.chance(1, 8) { 3 } else { 2 };
                nodes[sub].links.push(L { pos: 0, width: w, target: leaf_base + lf, adj: 0 });
                if rng.chance(1, 6) {
                    nodes[sub].links.push(L { pos: 0, width: 2, target: leaf_base + lf, adj: 0 });
                }
            }
        }
    }
    assert_eq!(nodes.len(), leaf_base);
    for lf in 0..leaves {
        let size = *rng.pick(&[65520usize, 65524, 40000, 30000, 66000, 10, 24]);
        nodes.push(N { size, fill: 0x80 + lf as u8, links: vec![] });
    }
    // sometimes a 16-bit path from the root into a shared leaf (forces duplication of the leaf)
    if rng.chance(1, 3) {
        let t = leaf_base + rng.below(leaves as u64) as usize;
        nodes[0].links.push(L { pos: 0, width: 2, target: t, adj: 0 });
    }
    // drop unreachable leaves by giving them a parent
    for lf in 0..leaves {
        let t = leaf_base + lf;
        if !nodes.iter().any(|nd| nd.links.iter().any(|l| l.target == t)) {
            let sub = leaf_base - 1;
            nodes[sub].links.push(L { pos: 0, width: 2, target: t, adj: 0 });
        }
    }
    for nd in nodes.iter_mut() {
        let need = place_links(&mut nd.links, 0) as usize;
        if nd.size < need {
            nd.size = need + rng.below(12) as usize;
        }
    }
    Spec { nodes, root: 0, types: vec![] }
}

// ---------------------------------------------------------------------------------------------
// real tables

mod real {
    use super::*;
    use write_fonts::tables::{gpos, gsub, layout};
    use write_fonts::types::GlyphId16;
    use write_fonts::{dump_table, FontWrite};

    pub fn big_pair_pos(lo: u16, hi: u16, per_set: u16) -> gpos::PositionLookup {
        let coverage = (lo..hi).map(GlyphId16::new).collect();
        let pair_sets = (lo..hi)
            .map(|id| {
                let value_rec = gpos::ValueRecord::new().with_x_advance(id as _);
                gpos::PairSet::new(
                    (id..id + per_set)
                        .map(|id2| gpos::PairValueRecord::new(GlyphId16::new(id2), value_rec.clone(), gpos::ValueRecord::default()))
                        .collect(),
                )
            })
            .collect::<Vec<_>>();
        gpos::PositionLookup::Pair(layout::Lookup::new(layout::LookupFlag::empty(), vec![gpos::PairPos::format_1(coverage, pair_sets)]))
    }

    /// a PairPosFormat1 over the glyphs lo..hi (so all of them share one coverage table)
    pub fn pair_pos_f1(lo: u16, hi: u16, per_set: u16, salt: i16) -> gpos::PairPos {
        let coverage = (lo..hi).map(GlyphId16::new).collect();
        let pair_sets = (lo..hi)
            .map(|id| {
                let value_rec = gpos::ValueRecord::new().with_x_advance(id as i16 + salt);
                gpos::PairSet::new(
                    (id..id + per_set)
                        .map(|id2| gpos::PairValueRecord::new(GlyphId16::new(id2), value_rec.clone(), gpos::ValueRecord::default()))
                        .collect(),
                )
            })
            .collect::<Vec<_>>();
        gpos::PairPos::format_1(coverage, pair_sets)
    }

    /// a hand-built extension lookup whose first subtable is also used (16-bit) by a plain lookup
    pub fn shared_extension_gpos(n_ext: usize, lo: u16, hi: u16, per_set: u16) -> gpos::Gpos {
        let subs: Vec<gpos::PairPos> = (0..n_ext).map(|i| pair_pos_f1(lo, hi, per_set, 1000 * i as i16)).collect();
        let plain = gpos::PositionLookup::Pair(layout::Lookup::new(layout::LookupFlag::empty(), vec![subs[0].clone()]));
        let ext = gpos::PositionLookup::Extension(layout::Lookup::new(
            layout::LookupFlag::empty(),
            subs.iter().map(|s| gpos::ExtensionSubtable::Pair(gpos::ExtensionPosFormat1::new(2, s.clone()))).collect(),
        ));
        gpos_table(vec![plain, ext])
    }

    pub fn gpos_table(lookups: Vec<gpos::PositionLookup>) -> gpos::Gpos {
        gpos::Gpos::new(Default::default(), Default::default(), layout::LookupList::new(lookups))
    }

    pub fn rsub_gsub(n: u16) -> gsub::Gsub {
        let rules = (0u16..n)
            .map(|id| {
                let coverage = std::iter::once(GlyphId16::new(id)).collect();
                let backtrack = [id + 1, id + 3].into_iter().map(GlyphId16::new).collect();
                gsub::ReverseChainSingleSubstFormat1::new(coverage, vec![backtrack], vec![], vec![GlyphId16::new(id + 1)])
            })
            .collect();
        let list = layout::LookupList::<gsub::SubstitutionLookup>::new(vec![gsub::SubstitutionLookup::Reverse(layout::Lookup::new(
            layout::LookupFlag::empty(),
            rules,
        ))]);
        gsub::Gsub::new(Default::default(), Default::default(), list)
    }

    /// a GSUB whose Multiple and Alternate lookups hold byte-identical subtable data (one object after
    /// deduplication), followed by big SingleSubst fillers: both shared lookups get promoted
    pub fn shared_subtable_gsub(n_shared: u16, seq_len: u16, fillers: &[(u16, u16)], swap: bool) -> gsub::Gsub {
        let gids = |r: std::ops::Range<u16>| -> Vec<GlyphId16> { r.map(GlyphId16::new).collect() };
        let coverage = |r: std::ops::Range<u16>| -> layout::CoverageTable { r.map(GlyphId16::new).collect() };
        let multiple = gsub::MultipleSubstFormat1::new(
            coverage(0..n_shared),
            (0..n_shared).map(|i| gsub::Sequence::new(gids(i..i + seq_len))).collect(),
        );
        let alternate = gsub::AlternateSubstFormat1::new(
            coverage(0..n_shared),
            (0..n_shared).map(|i| gsub::AlternateSet::new(gids(i..i + seq_len))).collect(),
        );
        let m = gsub::SubstitutionLookup::Multiple(layout::Lookup::new(layout::LookupFlag::empty(), vec![multiple]));
        let a = gsub::SubstitutionLookup::Alternate(layout::Lookup::new(layout::LookupFlag::empty(), vec![alternate]));
        let mut lookups = if swap { vec![a, m] } else { vec![m, a] };
        for (first, n) in fillers {
            let sub = gsub::SingleSubst::format_2(
                coverage(*first..*first + *n),
                (0..*n).map(|i| GlyphId16::new(i.wrapping_mul(7) ^ *first)).collect(),
            );
            lookups.push(gsub::SubstitutionLookup::Single(layout::Lookup::new(layout::LookupFlag::empty(), vec![sub])));
        }
        gsub::Gsub::new(Default::default(), Default::default(), layout::LookupList::new(lookups))
    }

    /// a class-based (format 2) PairPos subtable with DISTINCT non-null VariationIndex tables on both
    /// value records of every `dev_every`-th class2 record
    pub fn pair_pos_f2_devices(class1: u16, class2: u16, dev_every: u16) -> gpos::PairPos {
        use read_fonts::tables::gpos::ValueFormat;
        let class_def = |n_classes: u16, per: u16| -> layout::ClassDef {
            (1..=n_classes * per).map(|gid| (GlyphId16::new(gid), (gid - 1) / per)).collect()
        };
        let value_record = |k: u16, outer: Option<u16>| -> gpos::ValueRecord {
            let rec = gpos::ValueRecord::new()
                .with_explicit_value_format(ValueFormat::X_ADVANCE | ValueFormat::X_ADVANCE_DEVICE)
                .with_x_advance(k as i16);
            match outer {
                Some(outer) => rec.with_x_advance_device(layout::VariationIndex::new(outer, k)),
                None => rec,
            }
        };
        let class_def1 = class_def(class1, 4);
        let class_def2 = class_def(class2, 3);
        let coverage: layout::CoverageTable = class_def1.iter().map(|(gid, _)| gid).collect();
        let class1_records = (0..class1)
            .map(|i| {
                gpos::Class1Record::new(
                    (0..class2)
                        .map(|j| {
                            let k = i * class2 + j;
                            let has = j % dev_every == 0;
                            gpos::Class2Record::new(value_record(k, has.then_some(1)), value_record(k, has.then_some(2)))
                        })
                        .collect(),
                )
            })
            .collect();
        gpos::PairPos::format_2(coverage, class_def1, class_def2, class1_records)
    }

    fn be16(b: &[u8], at: usize) -> usize {
        if at + 2 <= b.len() { u16::from_be_bytes([b[at], b[at + 1]]) as usize } else { 0 }
    }

    /// Through PairPos splitting (and promotion): every offset of a final PairPos subtable that lies in
    /// its PairSet-offset array (format 1) / class record array (format 2) or is its ClassDef2 offset
    /// corresponds, by position, to exactly one offset of the INPUT subtable it was split from; the
    /// output bytes at the resolved position must be a byte-for-byte copy of the object graph the input
    /// offset referenced, and no input offset may be lost.
    pub fn check_pairpos_split(out: &[u8], input_objs: &[ObjView], final_objs: &[ObjView]) -> Result<usize, String> {
        let inmap = objview_map(input_objs);
        let fin: HashMap<u64, &ObjView> = final_objs.iter().map(|o| (o.id, o)).collect();
        let inp: HashMap<u64, &ObjView> = input_objs.iter().map(|o| (o.id, o)).collect();
        let mut checked = 0usize;
        for lookup in input_objs.iter().filter(|o| type_token(&o.type_name).as_deref() == Some("p2")) {
            let fl = fin.get(&lookup.id).ok_or_else(|| format!("lookup {} is gone", lookup.id))?;
            let promoted = type_token(&fl.type_name).as_deref() == Some("p9");
            // final subtables in order, extension subtables unwrapped
            let mut finals: Vec<&ObjView> = vec![];
            for l in &fl.links {
                let mut t = *fin.get(&l.2).ok_or_else(|| format!("lookup {}: subtable {} missing", lookup.id, l.2))?;
                if promoted {
                    if t.bytes.len() != 8 || t.links.len() != 1 || be16(&t.bytes, 2) != 2 {
                        return Err(format!("lookup {}: object {} is not an extension subtable of type 2", lookup.id, t.id));
                    }
                    t = *fin.get(&t.links[0].2).ok_or_else(|| "extension target missing".to_string())?;
                }
                finals.push(t);
            }
            let mut j = 0usize;
            for il in &lookup.links {
                let s_in = *inp.get(&il.2).ok_or_else(|| "input subtable missing".to_string())?;
                let fmt = be16(&s_in.bytes, 0);
                let (header, in_count, unit) = match fmt {
                    1 => (10usize, be16(&s_in.bytes, 8), 2usize),
                    2 => {
                        let recsize = 2 * ((be16(&s_in.bytes, 4) as u16).count_ones() + (be16(&s_in.bytes, 6) as u16).count_ones()) as usize;
                        (16usize, be16(&s_in.bytes, 12), be16(&s_in.bytes, 14) * recsize)
                    }
                    _ => return Err(format!("input PairPos subtable {} has format {fmt}", s_in.id)),
                };
                let mut a = 0usize; // records of this input subtable already accounted for
                let mut matched: HashSet<u32> = HashSet::new();
                while a < in_count || (in_count == 0 && a == 0) {
                    let f = finals.get(j).ok_or_else(|| format!("lookup {}: ran out of final subtables (input subtable {} has {in_count} records, {a} found)", lookup.id, s_in.id))?;
                    j += 1;
                    if be16(&f.bytes, 0) != fmt {
                        return Err(format!("final subtable {} has format {}, input {fmt}", f.id, be16(&f.bytes, 0)));
                    }
                    let count = if fmt == 1 { be16(&f.bytes, 8) } else { be16(&f.bytes, 12) };
                    for (pos, width, _target, adj) in &f.links {
                        let pos_u = *pos as usize;
                        let in_pos = if pos_u >= header {
                            pos_u + a * unit
                        } else if fmt == 2 && pos_u == 10 {
                            10
                        } else {
                            continue; // coverage / ClassDef1 are rebuilt by the split
                        };
                        let il2 = s_in.links.iter().find(|l| l.0 as usize == in_pos && l.1 == *width).ok_or_else(|| {
                            format!("final subtable {} (records {a}..{}): offset at {pos} has no counterpart at {in_pos} in input subtable {}", f.id, a + count, s_in.id)
                        })?;
                        matched.insert(il2.0);
                        let at = f.position as usize + pos_u;
                        let mut v = 0usize;
                        for k in 0..*width as usize {
                            v = (v << 8) | *out.get(at + k).ok_or_else(|| "offset field outside the output".to_string())? as usize;
                        }
                        let tpos = f.position as usize + *adj as usize + v;
                        walk_from(out, &inmap, il2.2, tpos).map_err(|e| {
                            format!("final subtable {} (records {a}..{}): offset at {pos} (input subtable {} offset at {in_pos}, written to reference object {}) resolves to {tpos}: {e}", f.id, a + count, s_in.id, il2.2)
                        })?;
                        checked += 1;
                    }
                    a += count;
                    if in_count == 0 {
                        break;
                    }
                }
                if a != in_count {
                    return Err(format!("input subtable {}: {in_count} records, final subtables hold {a}", s_in.id));
                }
                let lost = s_in.links.iter().filter(|l| (l.0 as usize >= header || (fmt == 2 && l.0 == 10)) && !matched.contains(&l.0)).count();
                if lost > 0 {
                    return Err(format!("input subtable {}: {lost} offsets have no counterpart after splitting", s_in.id));
                }
            }
            if j != finals.len() {
                return Err(format!("lookup {}: {} final subtables, {} accounted for", lookup.id, finals.len(), j));
            }
        }
        Ok(checked)
    }

    /// pair lookups of a compiled GPOS through read-fonts: value of (g1, g2) in lookup `li`
    pub fn read_pair(bytes: &[u8], li: usize, g1: u16, g2: u16) -> Option<i16> {
        use read_fonts::tables::gpos as rgpos;
        use read_fonts::{FontData, FontRead};
        let t = rgpos::Gpos::read(FontData::new(bytes)).ok()?;
        let lookups = t.lookup_list().ok()?;
        let lookup = lookups.lookups().get(li).ok()?;
        let subtables = match lookup.subtables().ok()? {
            rgpos::PositionSubtables::Pair(s) => s,
            _ => return None,
        };
        for sub in subtables.iter() {
            let rgpos::PairPos::Format1(pp) = sub.ok()? else { continue };
            let cov = pp.coverage().ok()?;
            let Some(ci) = cov.get(read_fonts::types::GlyphId16::new(g1)) else { continue };
            let set = pp.pair_sets().get(ci as usize).ok()?;
            for rec in set.pair_value_records().iter() {
                let rec = rec.ok()?;
                if rec.second_glyph().to_u16() == g2 {
                    return rec.value_record1().x_advance();
                }
            }
        }
        None
    }

    pub fn check_table<T: FontWrite + write_fonts::validate::Validate>(s: &mut Session, name: &str, table: &T) -> Option<Vec<u8>> {
        let dumped = catch(|| dump_table(table).ok());
        let input = || format!("real-table {name}");
        s.oracle("real:pack-no-panic", dumped.is_ok(), input, || format!("{:?}", dumped.as_ref().err()));
        let dumped = dumped.ok()?;
        // the same compilation under the hook, to get at the final graph
        let r = catch(|| {
            let mut g = VGraph::from_table(table);
            let before = g.object_count();
            let input_objs = g.objects();
            let ok = g.pack_objects();
            let bytes = if ok { Some(g.serialize()) } else { None };
            (before, ok, bytes, g.objects(), g.order(), g.root(), input_objs)
        });
        let Ok((before, ok, bytes, objs, order, root, input_objs)) = r else {
            s.oracle("real:hook-no-panic", false, input, || "panic under the hook".into());
            return None;
        };
        s.count(&format!("real:{}", if ok { "packed" } else { "failed" }));
        if objs.len() != before {
            s.count("real:graph-modified(split/promote/duplicate)");
        }
        s.oracle("real:dump_table=pack+serialize", dumped == bytes, input, || {
            format!("dump_table {:?} bytes, hook {:?} bytes", dumped.as_ref().map(|b| b.len()), bytes.as_ref().map(|b| b.len()))
        });
        if let Some(out) = &bytes {
            let wf = walk(out, &objview_map(&objs), root);
            let order_set: BTreeSet<u64> = order.iter().copied().collect();
            let okf = matches!(&wf, Ok((seen, copies, covered)) if *seen == order_set && *copies == order.len() && *covered == out.len());
            s.oracle("real:walk-final-graph", okf, input, || match &wf {
                Ok((seen, copies, covered)) => format!("reached {} / {} objects, {copies} copies, covered {covered}/{}", seen.len(), order.len(), out.len()),
                Err(e) => e.clone(),
            });
            // the output read against the INPUT objects, lookups seen through extension indirection
            // (only when no subtable splitting can have happened: no GPOS PairPos / MarkToBase lookups)
            let in_types: HashMap<u64, (bool, u16)> = input_objs
                .iter()
                .filter_map(|o| {
                    type_token(&o.type_name).map(|t| (o.id, (t.starts_with('p'), t[1..].parse::<u16>().unwrap())))
                })
                .collect();
            let splittable = in_types.values().any(|t| t.0 && (t.1 == 2 || t.1 == 4));
            if !splittable {
                let w = walk_promo(out, &objview_map(&input_objs), &in_types, root);
                let all: BTreeSet<u64> = input_objs.iter().map(|o| o.id).collect();
                let okw = matches!(&w, Ok((seen, _)) if *seen == all);
                s.oracle("real:walk-input-through-extensions", okw, input, || match &w {
                    Ok((seen, _)) => format!("reached {} of {} input objects", seen.len(), all.len()),
                    Err(e) => e.clone(),
                });
                if let Ok((_, promoted)) = &w {
                    s.count(&format!("real:input-walk:{}", if *promoted > 0 { "promoted-lookups" } else { "no-promotion" }));
                }
            }
            // PairPos lookups: every offset of the (possibly split, possibly promoted) subtables lands on a
            // byte-for-byte copy of the object graph the corresponding INPUT offset referenced
            if in_types.values().any(|t| t.0 && t.1 == 2) {
                let r = check_pairpos_split(out, &input_objs, &objs);
                s.oracle("real:split-offsets-land-on-input-objects", r.is_ok(), input, || format!("{:?}", r.as_ref().err()));
                if let Ok(n) = &r {
                    s.count(&format!("real:split-offsets-checked:{}", if *n == 0 { "0" } else if *n < 1000 { "<1000" } else { ">=1000" }));
                }
            }
            // adjustment never exceeds the parent's size on real tables (hypothesis of serialize_sound)
            let adj_ok = objs.iter().all(|o| o.links.iter().all(|l| l.3 as usize <= o.bytes.len() && (l.0 + l.1 as u32) as usize <= o.bytes.len()));
            s.oracle("real:adjustment<=parent-size", adj_ok, input, || String::new());
        }
        bytes
    }

    pub fn run(s: &mut Session, thorough: bool) {
        // splitting (PairPos format 1 far beyond 64 KiB) and extension promotion
        let cases: Vec<(&str, Vec<(u16, u16, u16)>)> = vec![
            ("gpos-pairpos-small", vec![(1, 20, 10)]),
            ("gpos-pairpos-split", vec![(0, 100, 165)]),
            ("gpos-pairpos-promote", vec![(1, 20, 165), (100, 120, 165), (200, 221, 165), (400, 422, 165), (500, 523, 165), (600, 624, 165)]),
            ("gpos-pairpos-split+promote", vec![(0, 90, 165), (100, 190, 165), (300, 420, 120), (500, 520, 30)]),
        ];
        for (name, lookups) in &cases {
            if !thorough && lookups.len() > 4 && false {
                continue;
            }
            let table = gpos_table(lookups.iter().map(|(lo, hi, per)| big_pair_pos(*lo, *hi, *per)).collect());
            if let Some(bytes) = check_table(s, name, &table) {
                // semantic spot check through read-fonts: first, middle, last pair of every lookup
                for (li, (lo, hi, per)) in lookups.iter().enumerate() {
                    for g1 in [*lo, (*lo + *hi) / 2, *hi - 1] {
                        for g2 in [g1, g1 + per / 2, g1 + per - 1] {
                            let got = read_pair(&bytes, li, g1, g2);
                            s.oracle("real:pair-value-reads-back", got == Some(g1 as i16), || format!("real-table {name} lookup {li} pair ({g1},{g2})"), || format!("{got:?}"));
                        }
                    }
                }
            }
        }
        for (n_ext, hi, per) in [(2usize, 10u16, 10u16), (4, 40, 165), (5, 30, 165)] {
            let table = shared_extension_gpos(n_ext, 0, hi, per);
            check_table(s, &format!("gpos-shared-extension-{n_ext}x{hi}x{per}"), &table);
        }
        // lookups of DIFFERENT types sharing byte-identical subtable data, under overflow pressure
        for (n_shared, seq_len, fillers, swap) in [
            (500u16, 40u16, vec![(1000u16, 10_500u16), (12_000, 10_500), (24_000, 10_500)], false),
            (500, 40, vec![(1000, 10_500), (12_000, 10_500), (24_000, 10_500)], true),
            (300, 30, vec![(1000, 14_000), (16_000, 14_000)], false),
            (20, 4, vec![(1000, 50)], false),
        ] {
            let table = shared_subtable_gsub(n_shared, seq_len, &fillers, swap);
            check_table(s, &format!("gsub-shared-subtable-{n_shared}x{seq_len}+{}fillers{}", fillers.len(), if swap { "-swapped" } else { "" }), &table);
        }
        // PairPos format 2 with distinct device tables on both value records, split (and promoted)
        for (c1, c2, every, extra) in [(100u16, 100u16, 5u16, 0usize), (60, 40, 1, 0), (100, 100, 5, 2), (10, 10, 2, 0)] {
            let mut lookups = vec![gpos::PositionLookup::Pair(layout::Lookup::new(layout::LookupFlag::empty(), vec![pair_pos_f2_devices(c1, c2, every)]))];
            for k in 0..extra {
                lookups.push(big_pair_pos(1 + 100 * k as u16, 60 + 100 * k as u16, 165));
            }
            let table = gpos_table(lookups);
            check_table(s, &format!("gpos-pairpos2-devices-{c1}x{c2}/{every}+{extra}"), &table);
        }
        for n in [10u16, 3279, 3400] {
            let table = rsub_gsub(n);
            check_table(s, &format!("gsub-rsub-{n}"), &table);
        }
        // the only user of offset adjustments: name (string offsets are relative to the storage area)
        for n in [1u16, 3, 40, 400] {
            use write_fonts::tables::name::{Name, NameRecord};
            use write_fonts::types::NameId;
            let records: Vec<NameRecord> = (0..n)
                .map(|i| NameRecord::new(3, 1, 0x409, NameId::new(256 + i), format!("name string number {i} {}", "x".repeat((i % 7) as usize)).into()))
                .collect();
            let table = Name::new(records);
            if let Some(bytes) = check_table(s, &format!("name-{n}"), &table) {
                // read back through read-fonts: every string resolves
                use read_fonts::{FontData, FontRead};
                let ok = read_fonts::tables::name::Name::read(FontData::new(&bytes))
                    .map(|t| {
                        let data = t.string_data();
                        t.name_record().iter().enumerate().all(|(i, r)| {
                            r.string(data).map(|st| st.chars().collect::<String>().starts_with(&format!("name string number {i} "))).unwrap_or(false)
                        })
                    })
                    .unwrap_or(false);
                s.oracle("real:name-strings-read-back", ok, || format!("real-table name-{n}"), || String::new());
            }
        }
    }
}

// ---------------------------------------------------------------------------------------------

fn main() {
    fv_harness::main_with("C05", run);
}

fn run(cfg: &Config, s: &mut Session) {
    let mut rng = Rng::new(cfg.seed);
    let _ = hooks::next_raw_id();
    // debugging aid only: C05_ONLY=fixed,small,family,dag,adj,real restricts the sections run
    let only = std::env::var("C05_ONLY").unwrap_or_default();
    let on = |name: &str| only.is_empty() || only.split(',').any(|x| x == name);

    // 1. the unit-test graphs of graph.rs
    if on("fixed") {
        for spec in fixed_specs() {
            check_spec(s, "fixed", &spec, true);
        }
    }

    // 2. small shapes over the size alphabet
    if cfg.thorough() && on("small") {
        // exhaustive: n ≤ 4, every edge absent/16/32-bit, every size assignment
        for n in 2..=4usize {
            let pairs = n * (n - 1) / 2;
            let mut edges = vec![0u8; pairs];
            loop {
                let mut sizes_idx = vec![0usize; n];
                loop {
                    let sizes: Vec<usize> = sizes_idx.iter().map(|i| SIZES[*i]).collect();
                    if let Some(spec) = small_shape(n, &edges, &sizes) {
                        check_spec(s, "small-exhaustive", &spec, false);
                    }
                    // next size assignment
                    let mut k = 0;
                    while k < n {
                        sizes_idx[k] += 1;
                        if sizes_idx[k] < SIZES.len() {
                            break;
                        }
                        sizes_idx[k] = 0;
                        k += 1;
                    }
                    if k == n {
                        break;
                    }
                }
                let mut k = 0;
                while k < pairs {
                    edges[k] = match edges[k] { 0 => 2, 2 => 4, _ => 0 };
                    if edges[k] != 0 {
                        break;
                    }
                    k += 1;
                }
                if k == pairs {
                    break;
                }
            }
        }
    }
    let n_small = if !on("small") { 0 } else if cfg.thorough() { 60_000 } else { 6_000 };
    let mut made = 0;
    while made < n_small {
        if let Some(spec) = random_small(&mut rng) {
            check_spec(s, "small-random", &spec, made % 4 == 0);
            made += 1;
        }
    }

    // 3. wide sub-space families (assign_spaces_hb / try_isolating_subgraphs / duplication)
    let n_fam = if !on("family") { 0 } else if cfg.thorough() { 6_000 } else { 800 };
    for _ in 0..n_fam {
        let spec = space_family(&mut rng);
        check_spec(s, "space-family", &spec, true);
    }

    // 4. random DAGs
    let n_dag = if !on("dag") { 0 } else if cfg.thorough() { 12_000 } else { 1_500 };
    for i in 0..n_dag {
        let max_nodes = if i % 10 == 0 { 200 } else if i % 3 == 0 { 60 } else { 16 };
        let spec = random_dag(&mut rng, max_nodes);
        s.count(&format!("dag-nodes:{}", match spec.nodes.len() { 0..=8 => "<=8", 9..=32 => "9..32", 33..=100 => "33..100", _ => ">100" }));
        check_spec(s, "random-dag", &spec, i % 2 == 0);
    }

    // 5. adjustment probe: adjustments up to and beyond the parent's size
    for _ in 0..(if !on("adj") { 0 } else if cfg.thorough() { 4_000 } else { 500 }) {
        let mut spec = random_dag(&mut rng, 8);
        for nd in spec.nodes.iter_mut() {
            let size = nd.size as u32;
            for l in nd.links.iter_mut() {
                l.adj = match rng.below(4) {
                    0 => size,
                    1 => size + 1 + rng.below(70000) as u32,
                    2 => rng.below(size as u64 + 1) as u32,
                    _ => 0,
                };
            }
        }
        check_spec(s, "adjustment-probe", &spec, false);
    }

    // 5b. adjustment at the 16-bit boundary: `has_overflows` ignores `adjustment` (graph.rs "TODO: account
    //     for 'whence'"), `serialize` subtracts it.  A parent of size s with one 16-bit link (adjustment a <= s) to
    //     a child placed right behind it: gate distance s, stored offset s - a.
    if on("adj") {
        for s_par in [65_533usize, 65_534, 65_535, 65_536, 65_537, 65_540, 70_000, 131_070] {
            for a in [0usize, 1, 2, 4, 5, 4_465, 65_535] {
                for (width, extra) in [(2u8, 0usize), (2, 1), (3, 0), (4, 0)] {
                    if a > s_par {
                        continue;
                    }
                    let spec = Spec {
                        nodes: vec![
                            N { size: s_par, fill: 0x11, links: vec![L { pos: 2, width, target: 1, adj: a as u32 }] },
                            N { size: 3 + extra, fill: 0x22, links: vec![] },
                        ],
                        root: 0,
                        types: vec![],
                    };
                    check_spec(s, "adjustment-boundary", &spec, true);
                    // the layout root, child serialized without asking the gate
                    let r = run_ops(&spec, &["kahn", "gate", "ser"], &[], true);
                    s.case("adjustment-boundary", format!("g.ops kahn,gate,ser {}", spec.render(&norm_ids(2), "-", true)), r.resp.clone());
                    let max = match width { 2 => 0xFFFFusize, 3 => 0xFF_FFFF, _ => 0xFFFF_FFFF };
                    let gate_overflow = s_par > max;
                    let offset_fits = s_par - a <= max;
                    s.oracle("adjustment:serialize-succeeds-iff-stored-offset-fits", r.trapped != offset_fits,
                        || format!("g.ops kahn,gate,ser {}", spec.describe()), || format!("trapped={} {}", r.trapped, r.panic_msg));
                    if let Some(out) = &r.bytes {
                        let w = walk(out, &spec_objmap(&spec), 0);
                        s.oracle("adjustment:walk", w.is_ok(), || format!("g.ops kahn,gate,ser {}", spec.describe()), || format!("{w:?}"));
                    }
                    if gate_overflow && offset_fits {
                        // completeness only: the gate refuses a layout whose stored offset fits
                        s.count("adjustment:gate-conservative(refuses-a-fitting-layout)");
                    } else if gate_overflow == !offset_fits {
                        s.count("adjustment:gate-exact");
                    }
                    // soundness direction, all cases: gate passes => the stored offset fits
                    s.oracle("adjustment:gate-pass-implies-offset-fits", gate_overflow || offset_fits, || spec.describe(), || String::new());
                }
            }
        }
    }

    // 5c. typed graphs: extension promotion
    if on("typed") {
        for spec in shared_subtable_specs() {
            check_typed(s, "shared-subtable", &spec, true);
        }
    }
    let n_typed = if !on("typed") { 0 } else if cfg.thorough() { 12_000 } else { 900 };
    for i in 0..n_typed {
        let spec = lookup_family(&mut rng);
        check_typed(s, "lookup-family", &spec, i % 2 == 0);
    }
    // random DAGs with a few nodes typed as lookups (mostly the multiple-parents panic)
    for _ in 0..(if !on("typed") { 0 } else if cfg.thorough() { 2_000 } else { 250 }) {
        let mut spec = random_dag(&mut rng, 12);
        let n = spec.nodes.len();
        spec.types = vec![None; n];
        let gpos = rng.chance(1, 2);
        for _ in 0..1 + rng.below(3) {
            let i = rng.below(n as u64) as usize;
            if spec.nodes[i].size >= 2 && spec.nodes[i].links.iter().all(|l| l.pos >= 2) {
                spec.types[i] = Some((gpos, if gpos { *rng.pick(&[1u16, 3, 5, 9]) } else { *rng.pick(&[1u16, 4, 7, 8]) }));
            }
        }
        check_typed(s, "typed-dag", &spec, true);
    }
    // the f64 sort key of select_promotions_hb: `((count as f64 / size as f64) * 1e9) as u64`
    if on("typed") {
        for i in 0..(if cfg.thorough() { 200_000 } else { 10_000 }) {
            let count = match i % 4 { 0 => rng.below(8), 1 => rng.below(200), _ => rng.below(70_000) } as usize;
            let size = match rng.below(5) { 0 => rng.below(16), 1 => rng.below(70_000), 2 => rng.below(1 << 24), 3 => rng.below(1 << 33), _ => 1 + rng.below(3_000_000) } as usize;
            let key = ((count as f64 / size as f64) * 1e9) as u64;
            s.case("promo-key(rust-f64)", format!("g.key {count} {size}"), key.to_string());
        }
    }

    // 6. real tables that force splitting / promotion
    if on("real") {
        real::run(s, cfg.thorough());
    }

    // 7. the C04 ⇄ C05 bridge: value trees through the real TableWriter / ObjectStore (c05/tw.rs)
    if on("tw") {
        tw::run(cfg, s, &mut rng);
    }
}

fn mk(sizes: &[usize], links: &[(usize, usize, u8)]) -> Spec {
    let mut nodes: Vec<N> = sizes.iter().enumerate().map(|(i, s)| N { size: *s, fill: 0x10 + i as u8, links: vec![] }).collect();
    for (f, t, w) in links {
        nodes[*f].links.push(L { pos: 0, width: *w, target: *t, adj: 0 });
    }
    for nd in nodes.iter_mut() {
        let need = place_links(&mut nd.links, 0) as usize;
        nd.size = nd.size.max(need);
    }
    Spec { nodes, root: 0, types: vec![] }
}

fn fixed_specs() -> Vec<Spec> {
    vec![
        mk(&[10], &[]),
        mk(&[10, 10, 20, 10], &[(0, 1, 2), (0, 2, 2), (0, 3, 2), (3, 1, 2)]),
        mk(&[10, 10, 20, 10], &[(0, 1, 2), (0, 2, 2), (0, 3, 2)]),
        mk(&[10, 65530, 100], &[(0, 1, 2), (0, 2, 2), (1, 2, 2)]),
        mk(&[10; 10], &[(0, 1, 2), (0, 2, 4), (1, 3, 2), (1, 9, 2), (2, 3, 2), (2, 4, 2), (2, 5, 2), (3, 6, 2), (4, 6, 2), (4, 7, 2), (7, 8, 2), (8, 9, 2)]),
        mk(&[10, 4, 12, 8, 8, 14, 14, 65520, 65520], &[(0, 1, 2), (1, 2, 2), (2, 3, 2), (2, 4, 2), (3, 5, 4), (4, 6, 4), (5, 7, 2), (5, 8, 2), (6, 7, 2), (6, 8, 2)]),
        mk(&[16, 10, 10, 10, 10, 65524, 65524, 10, 24], &[(0, 1, 4), (0, 2, 4), (0, 3, 4), (0, 4, 4), (1, 5, 2), (1, 5, 2), (2, 6, 2), (3, 7, 2), (5, 8, 2), (5, 8, 2), (6, 8, 2), (7, 8, 2)]),
        mk(&[10; 6], &[(0, 1, 2), (0, 2, 4), (0, 3, 4), (1, 4, 2), (2, 4, 2), (3, 4, 2), (4, 5, 2)]),
        mk(&[10; 3], &[(0, 1, 2), (0, 2, 4), (1, 2, 2)]),
        mk(&[10; 4], &[(0, 1, 2), (0, 2, 4), (2, 3, 2)]),
        mk(&[10; 4], &[(0, 1, 4), (0, 2, 4), (0, 3, 2)]),
        mk(&[10, 65535, 10], &[(0, 1, 4), (0, 2, 2), (1, 2, 2)]),
        mk(&[10, 10, 66000, 66000], &[(0, 1, 4), (1, 2, 2), (1, 3, 2)]),
    ]
}
