//! C02 core 3 — CFF / CFF2 charstring evaluation (Model/Charstring.lean).
//!
//! `cs` cases run the REAL `read_fonts::tables::postscript::charstring::evaluate` with a recording `CommandSink` on
//! generated (global subr INDEX, local subr INDEX, blend state, charstring) tuples; the canonical outcome
//! (`ok` + number / kinds / hash of the emitted commands, or the `Error` variant with its payload) must equal the
//! model's.  `cse` cases embed the same tuples into hand-assembled CFF / CFF2 tables of a synthetic font and draw
//! the glyph through skrifa (unhinted and hinted); the outcome class must equal the model's.
use fv_harness::common::*;
use read_fonts::tables::postscript::charstring::{self, CommandSink};
use read_fonts::tables::postscript::{BlendState, Error, Index};
use read_fonts::tables::variations::ItemVariationStore;
use read_fonts::types::{F2Dot14, Fixed, GlyphId, Tag};
use read_fonts::{FontData, FontRead, FontRef, ReadError};
use skrifa::instance::{LocationRef, Size};
use skrifa::outline::{DrawError, DrawSettings, HintingInstance, HintingOptions};
use skrifa::MetadataProvider;

#[derive(Clone, Debug)]
pub struct Case {
    pub cff2: bool,
    pub gsubrs: Vec<u8>,
    pub lsubrs: Option<Vec<u8>>,
    /// (initial vsindex, region count of every ItemVariationData)
    pub blend: Option<(u16, Vec<u16>)>,
    pub cs: Vec<u8>,
    pub family: &'static str,
    /// Private DICT entries placed before the Subrs / vsindex operators (stress families only: blue zones, stem
    /// snaps, LanguageGroup ...); not part of the request line of the `cs` / `cse` / `cffbat` commands
    pub private_extra: Vec<u8>,
}

pub fn case_line(cmd: &str, c: &Case) -> String {
    let blend = match &c.blend {
        None => "none".to_string(),
        Some((i, rs)) => format!(
            "{i}@{}",
            if rs.is_empty() { "-".to_string() } else { rs.iter().map(|r| r.to_string()).collect::<Vec<_>>().join(".") }
        ),
    };
    format!(
        "{cmd} {} {} {} {blend} {}",
        c.cff2 as u8,
        hex(&c.gsubrs),
        c.lsubrs.as_ref().map(|l| hex(l)).unwrap_or_else(|| "none".into()),
        hex(&c.cs)
    )
}

pub fn parse_case(t: &[&str]) -> Option<Case> {
    if t.len() != 5 {
        return None;
    }
    let blend = if t[3] == "none" {
        None
    } else {
        let (i, rs) = t[3].split_once('@')?;
        let rs: Vec<u16> = if rs == "-" { vec![] } else { rs.split('.').map(|r| r.parse().ok()).collect::<Option<Vec<_>>>()? };
        Some((i.parse().ok()?, rs))
    };
    Some(Case {
        cff2: t[0] == "1",
        gsubrs: unhex(t[1]),
        lsubrs: if t[2] == "none" { None } else { Some(unhex(t[2])) },
        blend,
        cs: unhex(t[4]),
        family: "",
        private_extra: vec![],
    })
}

// ------------------------------------------------------------------------------------------------
// real side
// ------------------------------------------------------------------------------------------------

#[derive(Default)]
struct RecSink {
    seq: Vec<u32>,
}

impl CommandSink for RecSink {
    fn move_to(&mut self, _: Fixed, _: Fixed) {
        self.seq.push(0)
    }
    fn line_to(&mut self, _: Fixed, _: Fixed) {
        self.seq.push(1)
    }
    fn curve_to(&mut self, _: Fixed, _: Fixed, _: Fixed, _: Fixed, _: Fixed, _: Fixed) {
        self.seq.push(2)
    }
    fn close(&mut self) {
        self.seq.push(3)
    }
    fn hstem(&mut self, _: Fixed, _: Fixed) {
        self.seq.push(4)
    }
    fn vstem(&mut self, _: Fixed, _: Fixed) {
        self.seq.push(5)
    }
    fn hint_mask(&mut self, mask: &[u8]) {
        self.seq.push(8 + 2 * mask.len() as u32)
    }
    fn counter_mask(&mut self, mask: &[u8]) {
        self.seq.push(9 + 2 * mask.len() as u32)
    }
}

pub fn err_name(e: &Error) -> String {
    match e {
        Error::Read(ReadError::OutOfBounds) => "Read(OutOfBounds)".into(),
        Error::Read(r) => format!("Read(other:{r:?})"),
        other => format!("{other:?}"),
    }
}

/// ItemVariationStore with one axis, `max(rs)` regions (all peaking at +1.0) and one ItemVariationData per entry
/// of `rs` whose region index list is `0..r`.
pub fn ivs_bytes(rs: &[u16]) -> Vec<u8> {
    let nreg = rs.iter().copied().max().unwrap_or(0);
    let mut region_list: Vec<u8> = vec![];
    region_list.extend_from_slice(&1u16.to_be_bytes());
    region_list.extend_from_slice(&nreg.to_be_bytes());
    for _ in 0..nreg {
        for v in [0i16, 0x4000, 0x4000] {
            region_list.extend_from_slice(&v.to_be_bytes());
        }
    }
    let header_len = 8 + 4 * rs.len();
    let mut out: Vec<u8> = vec![];
    out.extend_from_slice(&1u16.to_be_bytes());
    out.extend_from_slice(&(header_len as u32).to_be_bytes());
    out.extend_from_slice(&(rs.len() as u16).to_be_bytes());
    let mut ivds: Vec<Vec<u8>> = vec![];
    for r in rs {
        let mut d: Vec<u8> = vec![];
        d.extend_from_slice(&0u16.to_be_bytes());
        d.extend_from_slice(&0u16.to_be_bytes());
        d.extend_from_slice(&r.to_be_bytes());
        for k in 0..*r {
            d.extend_from_slice(&k.to_be_bytes());
        }
        ivds.push(d);
    }
    let mut off = header_len + region_list.len();
    for d in &ivds {
        out.extend_from_slice(&(off as u32).to_be_bytes());
        off += d.len();
    }
    out.extend_from_slice(&region_list);
    for d in ivds {
        out.extend_from_slice(&d);
    }
    out
}

fn render_ok(seq: &[u32]) -> String {
    let mut h: u64 = 7;
    for k in seq {
        h = (h * 31 + *k as u64 + 1) % 4294967296;
    }
    let cnt = |k: u32| seq.iter().filter(|x| **x == k).count();
    let masks: Vec<u32> = seq.iter().copied().filter(|k| *k >= 8).collect();
    let mb: u32 = masks.iter().map(|k| (k - 8) / 2).sum();
    format!(
        "ok n={} h={h} m={} l={} c={} z={} hs={} vs={} k={} kb={mb}",
        seq.len(),
        cnt(0),
        cnt(1),
        cnt(2),
        cnt(3),
        cnt(4),
        cnt(5),
        masks.len()
    )
}

/// child side of a `cs` case: the real evaluator
pub fn cs_case(c: &Case) -> String {
    let g = match Index::new(&c.gsubrs, c.cff2) {
        Ok(i) => i,
        Err(e) => return format!("gsubrs-err:{}", err_name(&e)),
    };
    let l = match &c.lsubrs {
        None => None,
        Some(b) => match Index::new(b, c.cff2) {
            Ok(i) => Some(i),
            Err(e) => return format!("subrs-err:{}", err_name(&e)),
        },
    };
    let coords = [F2Dot14::from_f32(0.5)];
    let ivs_data;
    let blend = match &c.blend {
        None => None,
        Some((i, rs)) => {
            ivs_data = ivs_bytes(rs);
            let Ok(store) = ItemVariationStore::read(FontData::new(&ivs_data)) else { return "ivs-read-failed".into() };
            match BlendState::new(store, &coords, *i) {
                Ok(b) => Some(b),
                Err(_) => return "blend-new-err".into(),
            }
        }
    };
    let mut sink = RecSink::default();
    match charstring::evaluate(&c.cs, g, l, blend, &mut sink) {
        Ok(()) => render_ok(&sink.seq),
        Err(e) => format!("err:{}", err_name(&e)),
    }
}

// ------------------------------------------------------------------------------------------------
// end to end: hand-assembled CFF / CFF2 table in a synthetic font, drawn through skrifa
// ------------------------------------------------------------------------------------------------

/// DICT operand: 5-byte integer (fixed size so that offsets can be laid out in one pass)
pub fn dict_int(out: &mut Vec<u8>, v: u32) {
    out.push(29);
    out.extend_from_slice(&v.to_be_bytes());
}

pub fn index_bytes(cff2: bool, off_size: u8, items: &[Vec<u8>]) -> Vec<u8> {
    let mut out: Vec<u8> = vec![];
    if cff2 {
        out.extend_from_slice(&(items.len() as u32).to_be_bytes());
    } else {
        out.extend_from_slice(&(items.len() as u16).to_be_bytes());
        if items.is_empty() {
            return out;
        }
    }
    if cff2 && items.is_empty() {
        return out;
    }
    out.push(off_size);
    let mut off: u32 = 1;
    let put = |out: &mut Vec<u8>, v: u32| {
        let b = v.to_be_bytes();
        out.extend_from_slice(&b[4 - off_size as usize..]);
    };
    put(&mut out, off);
    for it in items {
        off += it.len() as u32;
        put(&mut out, off);
    }
    for it in items {
        out.extend_from_slice(it);
    }
    out
}

/// CFF (version 1) table: header, Name INDEX, Top DICT INDEX, String INDEX, Global Subr INDEX, CharStrings INDEX,
/// Private DICT, Local Subr INDEX (last, so that hostile INDEX bytes see the same "rest of the table" as `cs`).
fn cff1_table(c: &Case) -> (Vec<u8>, usize) {
    let mut t: Vec<u8> = vec![1, 0, 4, 4];
    t.extend_from_slice(&index_bytes(false, 1, &[b"A".to_vec()]));
    // top dict: CharStrings offset (17), Private size + offset (18): 2 * 5 + 1 + 5 + 5 + 1 = 17... laid out below
    let top_len = 5 + 1 + 5 + 5 + 1;
    let top_index_len = 2 + 1 + 2 + top_len;
    let strings = index_bytes(false, 1, &[]);
    let charstrings = index_bytes(false, 4, &[vec![14], c.cs.clone()]);
    let cs_off = t.len() + top_index_len + strings.len() + c.gsubrs.len();
    let priv_off = cs_off + charstrings.len();
    let mut private: Vec<u8> = c.private_extra.clone();
    if c.lsubrs.is_some() {
        let here = private.len() + 6;
        dict_int(&mut private, here as u32); // Subrs offset, relative to the Private DICT: directly after it
        private.push(19);
    }
    let mut top: Vec<u8> = vec![];
    dict_int(&mut top, cs_off as u32);
    top.push(17);
    dict_int(&mut top, private.len() as u32);
    dict_int(&mut top, priv_off as u32);
    top.push(18);
    assert_eq!(top.len(), top_len);
    t.extend_from_slice(&index_bytes(false, 1, &[top]));
    t.extend_from_slice(&strings);
    let goff = t.len();
    t.extend_from_slice(&c.gsubrs);
    t.extend_from_slice(&charstrings);
    t.extend_from_slice(&private);
    if let Some(l) = &c.lsubrs {
        t.extend_from_slice(l);
    }
    (t, goff)
}

/// CFF2 table: header, Top DICT, Global Subr INDEX, CharStrings INDEX, FDArray INDEX (one Font DICT), VariationStore,
/// Private DICT, Local Subr INDEX (last).
fn cff2_table(c: &Case) -> (Vec<u8>, usize) {
    let has_vs = c.blend.is_some();
    let top_len = 6 + 7 + if has_vs { 6 } else { 0 };
    let mut t: Vec<u8> = vec![2, 0, 5];
    t.extend_from_slice(&(top_len as u16).to_be_bytes());
    let charstrings = index_bytes(true, 4, &[vec![], c.cs.clone()]);
    let cs_off = 5 + top_len + c.gsubrs.len();
    let fd_off = cs_off + charstrings.len();
    let font_dict_len = 5 + 5 + 1;
    let fd_index_len = 4 + 1 + 2 + font_dict_len;
    let vs_off = fd_off + fd_index_len;
    let vstore: Vec<u8> = match &c.blend {
        None => vec![],
        Some((_, rs)) => {
            let ivs = ivs_bytes(rs);
            let mut v = (ivs.len() as u16).to_be_bytes().to_vec();
            v.extend_from_slice(&ivs);
            v
        }
    };
    let priv_off = vs_off + vstore.len();
    let mut private: Vec<u8> = c.private_extra.clone();
    if let Some((i, _)) = &c.blend {
        dict_int(&mut private, *i as u32);
        private.push(22); // vsindex
    }
    if c.lsubrs.is_some() {
        let here = private.len() + 6;
        dict_int(&mut private, here as u32);
        private.push(19);
    }
    let mut top: Vec<u8> = vec![];
    dict_int(&mut top, cs_off as u32);
    top.push(17);
    dict_int(&mut top, fd_off as u32);
    top.extend_from_slice(&[12, 36]);
    if has_vs {
        dict_int(&mut top, vs_off as u32);
        top.push(24);
    }
    assert_eq!(top.len(), top_len);
    t.extend_from_slice(&top);
    let goff = t.len();
    t.extend_from_slice(&c.gsubrs);
    t.extend_from_slice(&charstrings);
    let mut font_dict: Vec<u8> = vec![];
    dict_int(&mut font_dict, private.len() as u32);
    dict_int(&mut font_dict, priv_off as u32);
    font_dict.push(18);
    assert_eq!(font_dict.len(), font_dict_len);
    t.extend_from_slice(&index_bytes(true, 1, &[font_dict]));
    t.extend_from_slice(&vstore);
    t.extend_from_slice(&private);
    if let Some(l) = &c.lsubrs {
        t.extend_from_slice(l);
    }
    (t, goff)
}

/// What the table parser sees as the global subr INDEX of the embedded case: `Cff::read` / `Cff2::read` parse it from
/// its first byte to the END of the table (so an empty INDEX takes the next table byte as its offSize, and offsets
/// may reach into the following data).  The model request of a `cse` case carries this view.
pub fn embedded_view(c: &Case) -> Case {
    let (t, goff) = if c.cff2 { cff2_table(c) } else { cff1_table(c) };
    let mut v = c.clone();
    v.gsubrs = t[goff..].to_vec();
    v
}

pub fn build_cff_font(c: &Case) -> Result<Vec<u8>, String> {
    use write_fonts::tables::{head::Head, hhea::Hhea, hmtx::Hmtx, hmtx::LongMetric, maxp::Maxp};
    let head = Head { units_per_em: 1000, ..Default::default() };
    let maxp = Maxp { num_glyphs: 2, ..Default::default() };
    let hhea = Hhea { number_of_h_metrics: 2, ..Default::default() };
    let hmtx = Hmtx::new(vec![LongMetric::new(500, 0), LongMetric::new(500, 0)], vec![]);
    let mut fb = write_fonts::FontBuilder::new();
    fb.add_table(&head).map_err(|e| e.to_string())?;
    fb.add_table(&maxp).map_err(|e| e.to_string())?;
    fb.add_table(&hhea).map_err(|e| e.to_string())?;
    fb.add_table(&hmtx).map_err(|e| e.to_string())?;
    if c.cff2 {
        fb.add_raw(Tag::new(b"CFF2"), cff2_table(c).0);
    } else {
        fb.add_raw(Tag::new(b"CFF "), cff1_table(c).0);
    }
    Ok(fb.build())
}

struct CountPen(u64);
impl skrifa::outline::OutlinePen for CountPen {
    fn move_to(&mut self, _: f32, _: f32) {
        self.0 += 1
    }
    fn line_to(&mut self, _: f32, _: f32) {
        self.0 += 1
    }
    fn quad_to(&mut self, _: f32, _: f32, _: f32, _: f32) {
        self.0 += 1
    }
    fn curve_to(&mut self, _: f32, _: f32, _: f32, _: f32, _: f32, _: f32) {
        self.0 += 1
    }
    fn close(&mut self) {
        self.0 += 1
    }
}

fn draw_class(r: Result<(), DrawError>) -> String {
    match r {
        Ok(()) => "ok".into(),
        Err(DrawError::PostScript(e)) => {
            // `Subfont::subrs` reports a malformed local subr INDEX with the same error value
            format!("err:{}", err_name(&e))
        }
        Err(other) => format!("other:{other:?}"),
    }
}

/// child side of a `cse` case: skrifa, unhinted then hinted; both classes
pub fn cse_case(c: &Case) -> String {
    let data = match build_cff_font(c) {
        Ok(d) => d,
        Err(e) => return format!("build-failed {e}"),
    };
    let Ok(font) = FontRef::new(&data) else { return "font-failed".into() };
    let outlines = font.outline_glyphs();
    let Some(g) = outlines.get(GlyphId::new(1)) else { return "no-glyph".into() };
    let coords = [F2Dot14::from_f32(0.5)];
    let loc = LocationRef::new(&coords);
    let mut pen = CountPen(0);
    let a = draw_class(g.draw(DrawSettings::unhinted(Size::new(24.0), loc), &mut pen).map(|_| ()));
    let n_unhinted = pen.0;
    let b = match HintingInstance::new(&outlines, Size::new(24.0), loc, HintingOptions::default()) {
        Ok(inst) => {
            let mut pen = CountPen(0);
            draw_class(g.draw(DrawSettings::hinted(&inst, false), &mut pen).map(|_| ()))
        }
        Err(e) => format!("hinting-new-failed:{e:?}"),
    };
    let mut pen = CountPen(0);
    let u = draw_class(g.draw(DrawSettings::unhinted(Size::unscaled(), loc), &mut pen).map(|_| ()));
    format!("{a} {b} {u} pen={n_unhinted}")
}

// ------------------------------------------------------------------------------------------------
// generators
// ------------------------------------------------------------------------------------------------

const OPS1: [u8; 25] = [1, 3, 4, 5, 6, 7, 8, 10, 11, 14, 15, 16, 18, 19, 20, 21, 22, 23, 24, 25, 26, 27, 29, 30, 31];
const PATH_OPS: [u8; 13] = [4, 5, 6, 7, 8, 21, 22, 24, 25, 26, 27, 30, 31];
const STEM_OPS: [u8; 4] = [1, 3, 18, 23];

/// shortest encoding of an integer in -32768..=32767
pub fn num(out: &mut Vec<u8>, v: i32) {
    if (-107..=107).contains(&v) {
        out.push((v + 139) as u8);
    } else if (108..=1131).contains(&v) {
        let w = v - 108;
        out.push(247 + (w >> 8) as u8);
        out.push((w & 255) as u8);
    } else if (-1131..=-108).contains(&v) {
        let w = -v - 108;
        out.push(251 + (w >> 8) as u8);
        out.push((w & 255) as u8);
    } else {
        out.push(28);
        out.extend_from_slice(&(v as i16).to_be_bytes());
    }
}

fn any_num(rng: &mut Rng, out: &mut Vec<u8>) {
    match rng.below(10) {
        0..=4 => num(out, rng.range(-107, 107) as i32),
        5 => num(out, rng.range(108, 1131) as i32),
        6 => num(out, rng.range(-1131, -108) as i32),
        7 => {
            out.push(28);
            out.extend_from_slice(&rng.bytes(2));
        }
        8 => {
            out.push(255);
            out.extend_from_slice(&rng.bytes(4));
        }
        _ => num(out, *rng.pick(&[-32768, 32767, 0, 1, -1, 108, -108, 1131, -1131, 1132, -1132])),
    }
}

fn nums(rng: &mut Rng, out: &mut Vec<u8>, n: usize) {
    for _ in 0..n {
        any_num(rng, out);
    }
}

pub fn bias(count: usize) -> i32 {
    if count < 1240 {
        107
    } else if count < 33900 {
        1131
    } else {
        32768
    }
}

struct Ctx {
    cff2: bool,
    ng: usize,
    nl: Option<usize>,
    regions: Option<u16>,
    n_ivd: usize,
}

/// one structured token sequence (`depth` limits nested generation of call sites)
fn gen_tokens(rng: &mut Rng, ctx: &Ctx, out: &mut Vec<u8>, ntok: usize) {
    for _ in 0..ntok {
        match rng.below(100) {
            0..=44 => any_num(rng, out),
            45..=64 => {
                // a path operator preceded by a plausible number of operands
                let op = *rng.pick(&PATH_OPS);
                let want = match rng.below(6) {
                    0 => 0,
                    1 => rng.below(4) as usize,
                    _ => match op {
                        21 => 2 + rng.below(2) as usize,
                        4 | 22 => 1 + rng.below(2) as usize,
                        8 => 6 * (1 + rng.below(3)) as usize,
                        24 => 6 * (1 + rng.below(2)) as usize + 2,
                        25 => 2 * rng.below(3) as usize + 6,
                        _ => 4 * (1 + rng.below(3)) as usize + rng.below(2) as usize,
                    },
                };
                nums(rng, out, want);
                out.push(op);
            }
            65..=69 => {
                let want = 6 + rng.below(8) as usize;
                nums(rng, out, want);
                out.extend_from_slice(&[12, *rng.pick(&[34u8, 35, 36, 37])]);
            }
            70..=77 => {
                let pairs = rng.below(6) as usize;
                let extra = rng.below(2) as usize;
                nums(rng, out, pairs * 2 + extra);
                out.push(*rng.pick(&STEM_OPS));
            }
            78..=82 => {
                let pairs = rng.below(3) as usize;
                nums(rng, out, pairs * 2);
                out.push(*rng.pick(&[19u8, 20]));
                let nb = rng.below(4) as usize;
                out.extend_from_slice(&rng.bytes(nb));
            }
            83..=90 => {
                // subroutine call with an index that is usually valid
                let global = ctx.nl.is_none() || rng.chance(1, 2);
                let count = if global { ctx.ng } else { ctx.nl.unwrap_or(0) };
                let target: i64 = if count == 0 || rng.chance(1, 6) { rng.range(-3, count as i64 + 2) } else { rng.below(count as u64) as i64 };
                num(out, (target as i32 - bias(count)).clamp(-32768, 32767));
                out.push(if global { 29 } else { 10 });
            }
            91..=94 => {
                if ctx.cff2 {
                    let r = ctx.regions.unwrap_or(0) as usize;
                    let k = rng.below(3) as usize;
                    let extra = rng.below(2) as usize;
                    nums(rng, out, k * (r + 1) + extra);
                    num(out, if rng.chance(1, 5) { rng.range(-2, 6) as i32 } else { k as i32 });
                    out.push(16);
                } else {
                    out.push(*rng.pick(&[15u8, 16]));
                }
            }
            95 => {
                num(out, rng.range(-1, ctx.n_ivd as i64 + 1) as i32);
                out.push(15);
            }
            96 => out.push(11),
            97 => out.push(14),
            98 => out.push(*rng.pick(&[0u8, 2, 9, 13, 17, 12])),
            _ => out.push(rng.next() as u8),
        }
    }
}

fn gen_subrs(rng: &mut Rng, ctx: &Ctx, n: usize, ntok: usize) -> Vec<Vec<u8>> {
    (0..n)
        .map(|_| {
            let mut b = vec![];
            let k = rng.below(ntok as u64 + 1) as usize;
            gen_tokens(rng, ctx, &mut b, k);
            if rng.chance(3, 4) {
                b.push(11);
            }
            b
        })
        .collect()
}

/// hostile edits of a well-formed INDEX
fn mutate_index(rng: &mut Rng, cff2: bool, idx: &mut Vec<u8>) -> &'static str {
    let cw = if cff2 { 4 } else { 2 };
    if idx.len() <= cw {
        let nb = rng.below(4) as usize;
        idx.extend_from_slice(&rng.bytes(nb));
        return "empty+junk";
    }
    match rng.below(9) {
        0 => {
            idx[cw] = *rng.pick(&[0u8, 5, 255, 2, 3, 4, 1]);
            "off-size"
        }
        1 => {
            // zero one offset
            let os = idx[cw] as usize;
            let count = if cff2 { u32::from_be_bytes([idx[0], idx[1], idx[2], idx[3]]) as usize } else { u16::from_be_bytes([idx[0], idx[1]]) as usize };
            let k = rng.below(count as u64 + 1) as usize;
            for j in 0..os {
                if let Some(b) = idx.get_mut(cw + 1 + k * os + j) {
                    *b = 0;
                }
            }
            "zero-offset"
        }
        2 => {
            let os = idx[cw] as usize;
            let count = if cff2 { u32::from_be_bytes([idx[0], idx[1], idx[2], idx[3]]) as usize } else { u16::from_be_bytes([idx[0], idx[1]]) as usize };
            let k = rng.below(count as u64 + 1) as usize;
            if let Some(b) = idx.get_mut(cw + 1 + k * os + os.saturating_sub(1)) {
                *b = rng.next() as u8;
            }
            "random-offset"
        }
        3 => {
            let n = rng.below(idx.len() as u64) as usize;
            idx.truncate(n);
            "truncated"
        }
        4 => {
            // count one larger / smaller than the offsets array
            let last = cw - 1;
            idx[last] = idx[last].wrapping_add(*rng.pick(&[1u8, 255, 2]));
            "count-edit"
        }
        5 => {
            let os = idx[cw] as usize;
            if let Some(b) = idx.get_mut(cw + 1 + os.saturating_sub(1)) {
                *b = 2; // first offset 2: everything shifts
            }
            "first-offset-2"
        }
        6 => {
            let p = rng.below(idx.len() as u64) as usize;
            idx[p] ^= 1 << rng.below(8);
            "bit-flip"
        }
        7 => {
            // high offset byte set: past the end
            let os = idx[cw] as usize;
            if os > 1 {
                let count = if cff2 { u32::from_be_bytes([idx[0], idx[1], idx[2], idx[3]]) as usize } else { u16::from_be_bytes([idx[0], idx[1]]) as usize };
                let k = rng.below(count as u64 + 1) as usize;
                if let Some(b) = idx.get_mut(cw + 1 + k * os) {
                    *b = 0x7f;
                }
            }
            "offset-past-end"
        }
        _ => "pristine",
    }
}

fn pick_off_size(rng: &mut Rng, items: &[Vec<u8>]) -> u8 {
    let total: usize = items.iter().map(|i| i.len()).sum::<usize>() + 1;
    let min = if total < 256 {
        1
    } else if total < 65536 {
        2
    } else {
        3
    };
    (min + rng.below(5 - min as u64) as u8).min(4)
}

/// `push target; call` through an index of `count` entries
pub fn call(out: &mut Vec<u8>, global: bool, target: usize, count: usize) {
    num(out, target as i32 - bias(count));
    out.push(if global { 29 } else { 10 });
}

pub fn gen_case(rng: &mut Rng, i: usize, e2e: bool) -> Case {
    let cff2 = rng.chance(1, 3);
    let fam = if e2e { [0usize, 1, 2, 3, 4, 8, 9, 0, 1, 4][i % 10] } else { i % 12 };
    let regions_list: Vec<u16> = if cff2 && rng.chance(4, 5) {
        (0..1 + rng.below(3)).map(|_| *rng.pick(&[0u16, 1, 2, 3, 5, 17, 20])).collect()
    } else {
        vec![]
    };
    let blend = if regions_list.is_empty() { None } else { Some((rng.below(regions_list.len() as u64) as u16, regions_list.clone())) };
    let mk = |cff2: bool, blend: Option<(u16, Vec<u16>)>, g: Vec<u8>, l: Option<Vec<u8>>, cs: Vec<u8>, family: &'static str| Case {
        cff2,
        gsubrs: g,
        lsubrs: l,
        blend,
        cs,
        family,
        private_extra: vec![],
    };
    match fam {
        // random structured programs with random structured subroutines
        0 | 10 => {
            let ng = rng.below(5) as usize;
            let nl = if rng.chance(2, 3) { Some(rng.below(5) as usize) } else { None };
            let ctx = Ctx { cff2, ng, nl, regions: blend.as_ref().map(|(i, rs)| rs[*i as usize]), n_ivd: regions_list.len() };
            let g = gen_subrs(rng, &ctx, ng, 8);
            let l = nl.map(|n| gen_subrs(rng, &ctx, n, 8));
            let mut cs = vec![];
            let nt = 1 + rng.below(14) as usize;
            gen_tokens(rng, &ctx, &mut cs, nt);
            if rng.chance(2, 3) {
                cs.push(14);
            }
            let gos = pick_off_size(rng, &g);
            let gi = index_bytes(cff2, gos, &g);
            let li = l.map(|l| {
                let os = pick_off_size(rng, &l);
                index_bytes(cff2, os, &l)
            });
            mk(cff2, blend, gi, li, cs, "structured")
        }
        // subroutine chains at depth limit-1 / limit / limit+1 / +2, alternating local/global, recursion, mutual recursion
        1 => {
            let shape = rng.below(4);
            let use_local = rng.chance(1, 2);
            let mut g: Vec<Vec<u8>> = vec![];
            let mut l: Vec<Vec<u8>> = vec![];
            let mut cs = vec![];
            let extra_g = rng.below(3) as usize;
            match shape {
                0 | 1 => {
                    let d = *rng.pick(&[1usize, 5, 9, 10, 11, 12]);
                    // chain: top -> s0 -> s1 … -> s(d-1); alternating between the two indexes when use_local
                    let in_local = |k: usize| use_local && k % 2 == 1;
                    let ng = (0..d).filter(|k| !in_local(*k)).count() + extra_g;
                    let nl = (0..d).filter(|k| in_local(*k)).count();
                    let pos = |k: usize| (0..k).filter(|j| in_local(*j) == in_local(k)).count();
                    for k in 0..d {
                        let mut b = vec![];
                        if rng.chance(1, 3) {
                            num(&mut b, 1);
                            num(&mut b, 2);
                            b.push(5);
                        }
                        if k + 1 < d {
                            call(&mut b, !in_local(k + 1), pos(k + 1), if in_local(k + 1) { nl } else { ng });
                        } else {
                            num(&mut b, 10);
                            num(&mut b, 20);
                            b.push(21);
                        }
                        if rng.chance(1, 2) {
                            b.push(11);
                        }
                        if in_local(k) {
                            l.push(b)
                        } else {
                            g.push(b)
                        }
                    }
                    for _ in 0..extra_g {
                        g.push(vec![11]);
                    }
                    call(&mut cs, true, 0, ng);
                    cs.push(14);
                }
                2 => {
                    // self recursion
                    let ng = 1 + extra_g;
                    let mut b = vec![];
                    if rng.chance(1, 2) {
                        num(&mut b, 7);
                    }
                    call(&mut b, true, 0, ng);
                    b.push(11);
                    g.push(b);
                    for _ in 0..extra_g {
                        g.push(vec![11]);
                    }
                    call(&mut cs, true, 0, ng);
                }
                _ => {
                    // cycle of length 2..4
                    let n = 2 + rng.below(3) as usize;
                    for k in 0..n {
                        let mut b = vec![];
                        call(&mut b, true, (k + 1) % n, n);
                        g.push(b);
                    }
                    call(&mut cs, true, rng.below(n as u64) as usize, n);
                }
            }
            let gi = index_bytes(cff2, 1 + rng.below(4) as u8, &g);
            let li = if use_local || rng.chance(1, 3) { Some(index_bytes(cff2, 1 + rng.below(4) as u8, &l)) } else { None };
            mk(cff2, blend, gi, li, cs, "chain")
        }
        // operand stack exactly full / overflowing, then an operator
        2 => {
            let n = *rng.pick(&[510usize, 511, 512, 513, 514, 515]);
            let via_subr = rng.chance(1, 3);
            let mut body = vec![];
            for _ in 0..n {
                match rng.below(8) {
                    0 => any_num(rng, &mut body),
                    _ => num(&mut body, rng.range(-20, 20) as i32),
                }
            }
            let op = if rng.chance(1, 5) { *rng.pick(&OPS1) } else { *rng.pick(&PATH_OPS) };
            let mut cs = vec![];
            let mut g: Vec<Vec<u8>> = vec![];
            if via_subr {
                g.push(body);
                call(&mut cs, true, 0, 1);
            } else {
                cs = body;
            }
            if rng.chance(1, 8) {
                cs.extend_from_slice(&[12, *rng.pick(&[34u8, 35, 36, 37])]);
            } else {
                cs.push(op);
            }
            { let nb = rng.below(3) as usize; cs.extend_from_slice(&rng.bytes(nb)); }
            mk(cff2, blend, index_bytes(cff2, 2, &g), None, cs, "stack-full")
        }
        // truncated programs
        3 => {
            let ctx = Ctx { cff2, ng: 2, nl: None, regions: blend.as_ref().map(|(i, rs)| rs[*i as usize]), n_ivd: regions_list.len() };
            let g = gen_subrs(rng, &ctx, 2, 5);
            let mut cs = vec![];
            gen_tokens(rng, &ctx, &mut cs, 6);
            let cut = rng.below(cs.len() as u64 + 1) as usize;
            cs.truncate(cut);
            if rng.chance(1, 2) {
                cs.push(*rng.pick(&[28u8, 255, 247, 251, 12, 19, 20]));
                { let nb = rng.below(3) as usize; cs.extend_from_slice(&rng.bytes(nb)); }
            }
            mk(cff2, blend, index_bytes(cff2, 1, &g), None, cs, "truncated")
        }
        // many stems, hint masks of exact / short / long length, stems added inside subroutines
        4 => {
            let mut cs = vec![];
            let mut g: Vec<Vec<u8>> = vec![];
            let groups = 1 + rng.below(4) as usize;
            let mut stems = 0usize;
            let mut have_width = false;
            for gi in 0..groups {
                let pairs = *rng.pick(&[0usize, 1, 3, 4, 8, 31, 32, 33, 100, 255, 256]);
                let odd = rng.chance(1, 4);
                let n = (pairs * 2 + odd as usize).min(513);
                let mut b = vec![];
                for _ in 0..n {
                    num(&mut b, rng.range(-50, 50) as i32);
                }
                let counted = if n % 2 == 1 && !have_width {
                    have_width = true;
                    (n - 1) / 2
                } else {
                    n / 2
                };
                let op = if gi + 1 == groups && rng.chance(1, 2) { 0 } else { *rng.pick(&STEM_OPS) };
                if op != 0 {
                    b.push(op);
                    if n % 2 == 0 || counted * 2 + 1 == n {
                        stems += counted;
                    }
                }
                if rng.chance(1, 4) {
                    b.push(11);
                    call(&mut cs, true, g.len(), 8);
                    g.push(b);
                } else {
                    cs.extend_from_slice(&b);
                }
            }
            while g.len() < 8 {
                g.push(vec![11]);
            }
            // the mask: implied vstems from what is left on the stack were accounted above when op == 0
            let need = (stems + 7) / 8;
            let give = match rng.below(5) {
                0 => need.saturating_sub(1),
                1 => need + 1,
                2 => 0,
                _ => need,
            };
            cs.push(*rng.pick(&[19u8, 20]));
            cs.extend_from_slice(&rng.bytes(give));
            if rng.chance(1, 2) {
                num(&mut cs, 5);
                num(&mut cs, 5);
                cs.push(21);
                cs.push(*rng.pick(&[19u8, 20]));
                cs.extend_from_slice(&rng.bytes(need));
            }
            cs.push(14);
            mk(cff2, blend, index_bytes(cff2, 2, &g), None, cs, "hintmask")
        }
        // random bytes everywhere
        5 => {
            let g: Vec<Vec<u8>> = (0..rng.below(4)).map(|_| { let nb = rng.below(12) as usize; rng.bytes(nb) }).collect();
            let l: Vec<Vec<u8>> = (0..rng.below(4)).map(|_| { let nb = rng.below(12) as usize; rng.bytes(nb) }).collect();
            let nb = 1 + rng.below(40) as usize;
            let cs = rng.bytes(nb);
            let li = if rng.chance(1, 2) { Some(index_bytes(cff2, 1, &l)) } else { None };
            mk(cff2, blend, index_bytes(cff2, 1, &g), li, cs, "random-bytes")
        }
        // hostile INDEX bytes
        6 => {
            let ng = 1 + rng.below(4) as usize;
            let ctx = Ctx { cff2, ng, nl: Some(2), regions: None, n_ivd: 0 };
            let g = gen_subrs(rng, &ctx, ng, 4);
            let l = gen_subrs(rng, &ctx, 2, 4);
            let mut gi = index_bytes(cff2, 1 + rng.below(4) as u8, &g);
            let mut li = index_bytes(cff2, 1 + rng.below(4) as u8, &l);
            let _ = mutate_index(rng, cff2, &mut gi);
            if rng.chance(1, 2) {
                let _ = mutate_index(rng, cff2, &mut li);
            }
            let mut cs = vec![];
            for _ in 0..1 + rng.below(4) {
                let global = rng.chance(2, 3);
                let count = if global { ng } else { 2 };
                let t = rng.range(-2, count as i64 + 1);
                num(&mut cs, t as i32 - 107);
                cs.push(if global { 29 } else { 10 });
            }
            mk(cff2, None, gi, Some(li), cs, "hostile-index")
        }
        // large counts: the three bias values and their boundaries
        7 => {
            let count = if i % 96 == 7 { *rng.pick(&[33899usize, 33900]) } else { *rng.pick(&[1239usize, 1240, 1241, 1300]) };
            let special = [0usize, 1, count - 1, count / 2];
            let items: Vec<Vec<u8>> = (0..count)
                .map(|k| {
                    if special.contains(&k) {
                        let mut b = vec![];
                        num(&mut b, (k % 50) as i32);
                        num(&mut b, 3);
                        b.push(5);
                        b
                    } else {
                        vec![]
                    }
                })
                .collect();
            let gi = index_bytes(cff2, if count > 30000 { 1 } else { 1 + rng.below(4) as u8 }, &items);
            let mut cs = vec![];
            for _ in 0..1 + rng.below(4) {
                let t: i64 = match rng.below(8) {
                    0 => -1,
                    1 => count as i64,
                    2 => count as i64 + 1,
                    3 => -(bias(count) as i64) - 5,
                    _ => *rng.pick(&special) as i64,
                };
                let v = (t - bias(count) as i64).clamp(-32768, 32767) as i32;
                num(&mut cs, v);
                cs.push(29);
            }
            // the unbiased boundary values themselves
            if rng.chance(1, 2) {
                num(&mut cs, *rng.pick(&[-32768, 32767, -107, -1131, -1132, 0]));
                cs.push(29);
            }
            mk(cff2, None, gi, None, cs, "big-index")
        }
        // blend / vsindex
        8 => {
            let rs: Vec<u16> = (0..1 + rng.below(3)).map(|_| *rng.pick(&[0u16, 1, 2, 3, 5, 16, 17, 20, 40])).collect();
            let init = rng.below(rs.len() as u64) as u16;
            let mut cur = init as usize;
            let mut cs = vec![];
            for _ in 0..1 + rng.below(4) {
                if rng.chance(1, 4) {
                    let v = rng.range(-1, rs.len() as i64 + 1);
                    num(&mut cs, v as i32);
                    cs.push(15);
                    if v >= 0 && (v as usize) < rs.len() {
                        cur = v as usize;
                    }
                }
                let r = rs[cur] as usize;
                let k = rng.below(4) as usize;
                let have = match rng.below(6) {
                    0 => (k * (r + 1)).saturating_sub(1),
                    1 => k * (r + 1) + 3,
                    _ => k * (r + 1),
                };
                for _ in 0..have.min(520) {
                    if rng.chance(1, 6) {
                        any_num(rng, &mut cs)
                    } else {
                        num(&mut cs, rng.range(-9, 9) as i32)
                    }
                }
                match rng.below(8) {
                    0 => num(&mut cs, -1),
                    1 => num(&mut cs, 600),
                    2 => {
                        cs.push(255);
                        cs.extend_from_slice(&[0, k as u8, 0, 0]);
                    }
                    _ => num(&mut cs, k as i32),
                }
                cs.push(16);
                match rng.below(6) {
                    0 => {
                        // a blended (16.16) entry used as a subroutine number
                        cs.push(29);
                    }
                    1 => cs.push(*rng.pick(&PATH_OPS)),
                    _ => {}
                }
            }
            cs.push(14);
            mk(true, Some((init, rs)), index_bytes(true, 1, &[vec![11]]), None, cs, "blend")
        }
        // every path / stem operator at chosen operand counts
        9 | 11 => {
            let n = if rng.chance(1, 5) { *rng.pick(&[505usize, 506, 507, 508, 509, 510, 511, 512, 513]) } else { rng.below(22) as usize };
            let mut cs = vec![];
            if rng.chance(1, 3) {
                // open a path first so that `close` is emitted
                num(&mut cs, 1);
                num(&mut cs, 1);
                num(&mut cs, 1);
                cs.push(21);
            }
            for _ in 0..n {
                if rng.chance(1, 10) {
                    any_num(rng, &mut cs)
                } else {
                    num(&mut cs, rng.range(-30, 30) as i32)
                }
            }
            match rng.below(8) {
                0 => cs.extend_from_slice(&[12, *rng.pick(&[34u8, 35, 36, 37])]),
                1 => cs.push(*rng.pick(&STEM_OPS)),
                2 => {
                    cs.push(*rng.pick(&[19u8, 20]));
                    cs.extend_from_slice(&rng.bytes(1 + n / 16));
                }
                _ => cs.push(*rng.pick(&PATH_OPS)),
            }
            if rng.chance(1, 2) {
                num(&mut cs, 4);
                cs.push(22);
            }
            if rng.chance(2, 3) {
                cs.push(14);
            }
            mk(cff2, blend, index_bytes(cff2, 1, &[]), None, cs, "operand-counts")
        }
        _ => unreachable!(),
    }
}

/// fan-out family: `depth` global subroutines, each calling the next one `k` times; the top level calls the first.
/// k^depth leaf activations from ~ (2k+1)*depth bytes of subroutines.
pub fn fan_case(k: usize, depth: usize) -> Case {
    let mut g: Vec<Vec<u8>> = vec![];
    for d in 0..depth {
        let mut b = vec![];
        if d + 1 < depth {
            for _ in 0..k {
                call(&mut b, true, d + 1, depth);
            }
        }
        b.push(11);
        g.push(b);
    }
    let mut cs = vec![];
    call(&mut cs, true, 0, depth);
    cs.push(14);
    Case { cff2: false, gsubrs: index_bytes(false, 2, &g), lsubrs: None, blend: None, cs, family: "fan", private_extra: vec![] }
}
