//! C02 — (a) TrueType opcode OPERAND SWEEPS with a setter x consumer matrix, (b) metadata providers on numerically
//! hostile tables.  Totality exploration, oracles on the real code only; every job runs in a child process.
//!
//! (a) `ttsweep name=<sweep> place=<g|p|f|b>`: for every instruction that pops an operand selecting a mode / index /
//! count, the operand takes every value of 0..=300 and of the extreme set, and the instruction is followed by every
//! consumer family of the state it sets (rounding instructions after round-state setters, point movers after zone /
//! reference point setters, DELTA after SDB / SDS, loop instructions after SLOOP ...).  Placements: g = setter +
//! consumer in the glyph program, p = in prep, f = in fpgm, b = setter in prep (retained graphics state), consumer in
//! the glyph program.  Every program is its own hand-assembled font, run through HintingInstance::new (Interpreter,
//! mono and smooth targets) and a hinted draw, pedantic and not.  A panic is reported with the three programs as hex.
//!
//! (b) `metamut font=<path> table=<tag>`: every u16 / u32 position of the table's first bytes is set to
//! 0 / 1 / 0x7FFF / 0x8000 / max-1 / max, one at a time, and the whole metadata battery (all argument shapes) runs on
//! each mutant; `fvarsyn case=<n>`: synthetic fvar / avar tables with inconsistent axis records.
use super::stress::{be16, be32, job, minimal_head, sfnt, Job};
use super::{all_sizes, catch, last_loc, NullPainter, NullPen};
use fv_harness::common::*;
use read_fonts::types::{F2Dot14, GlyphId, Tag};
use read_fonts::FontRef;
use skrifa::instance::{LocationRef, Size};
use skrifa::outline::{DrawSettings, Engine, HintingInstance, HintingOptions, SmoothMode, Target};
use skrifa::string::StringId;
use skrifa::MetadataProvider;

// ------------------------------------------------------------------------------------------------
// hand-assembled one-glyph TrueType font
// ------------------------------------------------------------------------------------------------

fn tt_font(fpgm: &[u8], prep: &[u8], glyph: &[u8]) -> Vec<u8> {
    let mut g: Vec<u8> = vec![];
    be16(&mut g, 1);
    for v in [0i16, 0, 600, 700] {
        g.extend_from_slice(&v.to_be_bytes());
    }
    be16(&mut g, 5);
    be16(&mut g, glyph.len().min(65535) as u16);
    g.extend_from_slice(&glyph[..glyph.len().min(65535)]);
    g.extend_from_slice(&[1u8; 6]);
    for d in [100i16, 0, 400, 0, -200, -200] {
        g.extend_from_slice(&d.to_be_bytes());
    }
    for d in [0i16, 700, 0, -300, 100, -500] {
        g.extend_from_slice(&d.to_be_bytes());
    }
    while g.len() % 4 != 0 {
        g.push(0);
    }
    let mut loca: Vec<u8> = vec![];
    be32(&mut loca, 0);
    be32(&mut loca, 0);
    be32(&mut loca, g.len() as u32);
    let mut maxp: Vec<u8> = vec![];
    be32(&mut maxp, 0x00010000);
    // numGlyphs, maxPoints, maxContours, maxCompositePoints, maxCompositeContours, maxZones, maxTwilightPoints,
    // maxStorage, maxFunctionDefs, maxInstructionDefs, maxStackElements, maxSizeOfInstructions, maxComponentElements,
    // maxComponentDepth
    for v in [2u16, 6, 1, 0, 0, 2, 8, 16, 8, 4, 64, 2000, 0, 0] {
        be16(&mut maxp, v);
    }
    let mut hhea = vec![0u8; 36];
    hhea[0..4].copy_from_slice(&0x00010000u32.to_be_bytes());
    hhea[34..36].copy_from_slice(&2u16.to_be_bytes());
    let hmtx = vec![1, 244, 0, 0, 2, 188, 0, 0];
    let mut cvt: Vec<u8> = vec![];
    for v in [0i16, 1, -1, 64, 32767, -32768, 500, -700, 10, 20, 30, 40, 50, 60, 70, 80] {
        cvt.extend_from_slice(&v.to_be_bytes());
    }
    let mut tables = vec![(*b"head", minimal_head(1000, true)), (*b"maxp", maxp), (*b"hhea", hhea), (*b"hmtx", hmtx), (*b"glyf", g), (*b"loca", loca), (*b"cvt ", cvt)];
    if !fpgm.is_empty() {
        tables.push((*b"fpgm", fpgm.to_vec()));
    }
    if !prep.is_empty() {
        tables.push((*b"prep", prep.to_vec()));
    }
    sfnt(tables)
}

/// runs one font: instances for two targets, hinted draws pedantic and not; returns the number of Ok results
fn run_tt(data: &[u8]) -> u32 {
    let Ok(font) = FontRef::new(data) else { return 0 };
    let outlines = font.outline_glyphs();
    let Some(g) = outlines.get(GlyphId::new(1)) else { return 0 };
    let mut ok = 0;
    for target in [Target::Mono, Target::Smooth { mode: SmoothMode::Normal, symmetric_rendering: true, preserve_linear_metrics: false }] {
        for ppem in [16.0f32, 11.0] {
            if let Ok(inst) = HintingInstance::new(&outlines, Size::new(ppem), LocationRef::default(), HintingOptions { engine: Engine::Interpreter, target }) {
                ok += 1;
                for pedantic in [false, true] {
                    let mut pen = NullPen(0);
                    if g.draw(DrawSettings::hinted(&inst, pedantic), &mut pen).is_ok() {
                        ok += 1;
                    }
                }
            }
        }
    }
    ok
}

// ------------------------------------------------------------------------------------------------
// code helpers
// ------------------------------------------------------------------------------------------------

/// code leaving the 32-bit value `v` on the stack
pub fn push_i32(c: &mut Vec<u8>, v: i32) {
    if (0..=255).contains(&v) {
        c.extend_from_slice(&[0xB0, v as u8]);
        return;
    }
    if (-32768..=32767).contains(&v) {
        c.push(0xB8);
        c.extend_from_slice(&(v as i16).to_be_bytes());
        return;
    }
    // hi * 65536 (two MULs by 0x4000 = 256.0 in 26.6) + lo in three positive parts
    let hi = (v >> 16) as i16;
    let lo = (v & 0xFFFF) as i32;
    c.push(0xB8);
    c.extend_from_slice(&hi.to_be_bytes());
    c.extend_from_slice(&[0xB8, 0x40, 0x00, 0x63, 0xB8, 0x40, 0x00, 0x63]);
    for part in [lo / 2, lo / 2, lo % 2] {
        if part != 0 {
            c.push(0xB8);
            c.extend_from_slice(&(part as i16).to_be_bytes());
            c.push(0x60);
        }
    }
}

fn prog(args: &[i32], op: u8) -> Vec<u8> {
    let mut c = vec![];
    for a in args {
        push_i32(&mut c, *a);
    }
    c.push(op);
    c
}

fn cat(parts: &[&[u8]]) -> Vec<u8> {
    parts.concat()
}

pub fn sweep_values() -> Vec<i32> {
    let mut v: Vec<i32> = (0..=300).collect();
    v.extend_from_slice(&[i32::MIN, i32::MIN + 1, -65537, -65536, -65535, -32769, -32768, -257, -256, -255, -64, -2, -1, 32767, 32768, 32769, 65535, 65536, 65537, 1 << 24, (1 << 24) + 1, i32::MAX - 1, i32::MAX]);
    v
}

/// reference points set + touched in both axes (glyph zone): SVTCA[y] MDAP[1] 0, SVTCA[x] MDAP[1] 0, SRP2 2
const PRELUDE_G: [u8; 11] = [0x00, 0xB0, 0, 0x2F, 0x01, 0xB0, 0, 0x2F, 0xB0, 2, 0x12];
/// twilight zone for all three zone pointers, two twilight points placed from the cvt
const PRELUDE_T: [u8; 13] = [0xB0, 0, 0x16, 0xB1, 1, 6, 0x3F, 0xB1, 2, 7, 0x3F, 0x4F, 0x4F];

/// consumers of the round state
fn rounders() -> Vec<Vec<u8>> {
    let mut v = vec![];
    for d in [0, 1, 31, 32, 33, 64, 100, -100, 1 << 20, i32::MIN, i32::MAX] {
        for k in 0..4u8 {
            v.push(cat(&[&prog(&[d], 0x68 + k), &[0x21]]));
        }
    }
    for d in [33, -33, i32::MAX] {
        v.push(cat(&[&prog(&[d], 0x56), &[0x21]])); // ODD
        v.push(cat(&[&prog(&[d], 0x57), &[0x21]])); // EVEN
    }
    v.push(prog(&[3], 0x2F)); // MDAP[1]
    v.push(prog(&[3, 4], 0x3F)); // MIAP[1]
    for f in [0x04u8, 0x0C, 0x1C, 0x1F] {
        v.push(prog(&[3], 0xC0 + f)); // MDRP with rounding
        v.push(prog(&[3, 6], 0xE0 + f)); // MIRP with rounding
    }
    v
}

/// instructions that move / read points through the zone pointers, reference points, vectors, loop counter
fn point_movers() -> Vec<Vec<u8>> {
    let mut v = vec![];
    for a in 0..2u8 {
        v.push(prog(&[3], 0x2E + a));
        v.push(prog(&[3, 4], 0x3E + a));
        v.push(prog(&[3, 64], 0x3A + a));
        v.push(prog(&[3], 0x32 + a));
        v.push(prog(&[0], 0x34 + a));
        v.push(prog(&[1], 0x36 + a));
        v.push(prog(&[0], 0x36 + a));
        v.push(vec![0x30 + a]);
        v.push(cat(&[&prog(&[3], 0x46 + a), &[0x21]]));
        v.push(cat(&[&prog(&[1, 3], 0x49 + a), &[0x21]]));
        v.push(prog(&[1, 3], 0x06 + a));
        v.push(prog(&[1, 3], 0x08 + a));
        v.push(prog(&[1, 3], 0x86 + a));
    }
    for f in [0u8, 0x04, 0x10, 0x1F] {
        v.push(prog(&[3], 0xC0 + f));
        v.push(prog(&[3, 6], 0xE0 + f));
    }
    v.push(prog(&[3, 64], 0x38));
    v.push(prog(&[3], 0x39));
    v.push(prog(&[3], 0x3C));
    v.push(prog(&[3, 64], 0x48));
    v.push(prog(&[4, 0, 2, 1, 3], 0x0F));
    v.push(prog(&[1, 3], 0x27));
    v.push(prog(&[3], 0x29));
    v.push(prog(&[3], 0x80));
    v.push(prog(&[1, 3], 0x81));
    v.push(prog(&[1, 3], 0x82));
    v.push(vec![0x4B, 0x21, 0x4C, 0x21, 0x0C, 0x21, 0x21, 0x0D, 0x21, 0x21]);
    v
}

fn deltas() -> Vec<Vec<u8>> {
    let mut v = vec![];
    for op in [0x5Du8, 0x71, 0x72, 0x73, 0x74, 0x75] {
        // 16 (arg, index) pairs covering every ppem nibble + count
        let mut args = vec![];
        for k in 0..16i32 {
            args.push((k << 4) | [0, 7, 8, 15][(k % 4) as usize]);
            args.push(k % 5);
        }
        args.push(16);
        v.push(prog(&args, op));
        v.push(prog(&[0x7F, 3, 1], op));
    }
    v
}

fn loopers() -> Vec<Vec<u8>> {
    let mut v = vec![];
    for op in [0x32u8, 0x33, 0x39, 0x3C, 0x80] {
        v.push(prog(&[1, 2, 3, 4, 5, 1, 2, 3], op));
    }
    v.push(prog(&[1, 2, 3, 4, 5, 1, 2, 3, 64], 0x38));
    v
}

fn ref_consumers() -> Vec<Vec<u8>> {
    let mut v = vec![];
    for a in 0..2u8 {
        v.push(prog(&[3, 64], 0x3A + a));
        v.push(prog(&[3], 0x32 + a));
        v.push(prog(&[0], 0x34 + a));
        v.push(prog(&[1], 0x36 + a));
    }
    for f in [0u8, 0x0C, 0x10, 0x1F] {
        v.push(prog(&[3], 0xC0 + f));
        v.push(prog(&[3, 6], 0xE0 + f));
    }
    v.push(prog(&[3], 0x39));
    v.push(prog(&[3], 0x3C));
    v
}

fn dist_consumers() -> Vec<Vec<u8>> {
    let mut v = vec![];
    for f in 0..32u8 {
        v.push(prog(&[3, 6], 0xE0 + f));
    }
    for f in [0u8, 0x04, 0x08, 0x0C, 0x1F] {
        v.push(prog(&[3], 0xC0 + f));
    }
    v
}

/// one program of a sweep: (setter part, consumer part)
type Pair = (Vec<u8>, Vec<u8>);

pub const SWEEPS: [&str; 41] = [
    "sround", "s45round", "roundmodes", "scan", "instctrl-value", "instctrl-selector", "getinfo", "sdb", "sds", "sloop", "szp0", "szp1", "szp2",
    "szps", "srp0", "srp1", "srp2", "storage", "cvt", "index", "jumps", "calls", "defs", "delta-arg", "delta-index", "delta-count",
    "push-counts", "smd", "scvtci", "sswci", "ssw", "vectors", "point-operand", "distance-operand", "anyop0", "anyop1", "anyop2", "anyop3",
    "anyop4", "anyop5", "anyop6",
];

/// programs of sweep `name` for operand `v` (fpgm content returned separately for the sweeps that need definitions)
fn sweep_programs(name: &str, v: i32) -> (Vec<u8>, Vec<Pair>) {
    let mut out: Vec<Pair> = vec![];
    let mut fpgm: Vec<u8> = vec![];
    let with = |out: &mut Vec<Pair>, setter: Vec<u8>, consumers: Vec<Vec<u8>>| {
        for c in consumers {
            out.push((setter.clone(), c));
        }
    };
    match name {
        "sround" => with(&mut out, prog(&[v], 0x76), rounders()),
        "s45round" => with(&mut out, prog(&[v], 0x77), rounders()),
        "roundmodes" => {
            for mode in [0x18u8, 0x19, 0x3D, 0x7D, 0x7C, 0x7A] {
                let mut cs = vec![];
                for k in 0..4u8 {
                    cs.push(cat(&[&prog(&[v], 0x68 + k), &[0x21]]));
                    cs.push(cat(&[&prog(&[v], 0x6C + k), &[0x21]]));
                }
                cs.push(cat(&[&prog(&[v], 0x56), &[0x21]]));
                cs.push(cat(&[&prog(&[v], 0x57), &[0x21]]));
                with(&mut out, vec![mode], cs);
            }
            // the same distances after the super rounding modes with every period / phase / threshold class
            for sel in [0x00, 0x3F, 0x40, 0x7F, 0x80, 0xBF, 0xC0, 0xFF, 0x48, 0x91] {
                for op in [0x76u8, 0x77] {
                    with(&mut out, prog(&[sel], op), vec![cat(&[&prog(&[v], 0x68), &[0x21]]), cat(&[&prog(&[v], 0x6B), &[0x21]])]);
                }
            }
        }
        "scan" => {
            for op in [0x85u8, 0x8D, 0x7E] {
                with(&mut out, prog(&[v], op), vec![vec![0x30, 0x31], cat(&[&prog(&[0xFFFF], 0x88), &[0x21]]), prog(&[3], 0x2F)]);
            }
        }
        "instctrl-value" => {
            for sel in [0, 1, 2, 3, 4] {
                let mut cs = rounders();
                cs.truncate(8);
                cs.extend(point_movers().into_iter().take(12));
                cs.extend(deltas().into_iter().take(4));
                cs.push(prog(&[3, 64], 0x44));
                with(&mut out, prog(&[v, sel], 0x8E), cs);
            }
        }
        "instctrl-selector" => {
            for val in [0, 1, 2, 4, 8, -1] {
                let mut cs = rounders();
                cs.truncate(4);
                cs.extend(point_movers().into_iter().take(8));
                with(&mut out, prog(&[val, v], 0x8E), cs);
            }
        }
        "getinfo" => {
            out.push((prog(&[v], 0x88), vec![0x21]));
            // the answer used as an operand
            for op in [0x76u8, 0x77, 0x17, 0x5E, 0x5F] {
                out.push((cat(&[&prog(&[v], 0x88), &[op]]), cat(&[&prog(&[33], 0x68), &[0x21], &prog(&[3], 0x2F)])));
            }
        }
        "sdb" => with(&mut out, prog(&[v], 0x5E), deltas()),
        "sds" => with(&mut out, prog(&[v], 0x5F), deltas()),
        "sloop" => with(&mut out, prog(&[v], 0x17), loopers()),
        "szp0" => with(&mut out, prog(&[v], 0x13), point_movers()),
        "szp1" => with(&mut out, prog(&[v], 0x14), point_movers()),
        "szp2" => with(&mut out, prog(&[v], 0x15), point_movers()),
        "szps" => with(&mut out, prog(&[v], 0x16), point_movers()),
        "srp0" => with(&mut out, prog(&[v], 0x10), ref_consumers()),
        "srp1" => with(&mut out, prog(&[v], 0x11), ref_consumers()),
        "srp2" => with(&mut out, prog(&[v], 0x12), ref_consumers()),
        "storage" => {
            out.push((prog(&[v, 5], 0x42), cat(&[&prog(&[v], 0x43), &[0x21]])));
            out.push((prog(&[3, v], 0x42), cat(&[&prog(&[3], 0x43), &[0x76], &prog(&[33], 0x68), &[0x21]])));
            out.push((vec![], cat(&[&prog(&[v], 0x43), &[0x21]])));
        }
        "cvt" => {
            for op in [0x44u8, 0x70] {
                out.push((prog(&[v, 64], op), cat(&[&prog(&[v], 0x45), &[0x21]])));
                with(&mut out, prog(&[6, v], op), vec![prog(&[3, 6], 0x3F), prog(&[3, 6], 0xFC), prog(&[3, 6], 0xE0), cat(&[&prog(&[6], 0x45), &[0x21]])]);
            }
            out.push((vec![], cat(&[&prog(&[v], 0x45), &[0x21]])));
            for op in [0x3Eu8, 0x3F, 0xE0, 0xE4, 0xFF] {
                out.push((vec![], prog(&[3, v], op)));
            }
            for op in [0x73u8, 0x74, 0x75] {
                out.push((vec![], prog(&[0x70, v, 1], op)));
            }
        }
        "index" => {
            for op in [0x25u8, 0x26] {
                out.push((prog(&[11, 12, 13, 14, 15, v], op), vec![0x21, 0x24, 0x21]));
                out.push((prog(&[v], op), vec![0x24, 0x21]));
            }
        }
        "jumps" => {
            let pad: Vec<u8> = [0xB0u8, 0, 0x21].repeat(4);
            out.push((cat(&[&pad, &prog(&[v], 0x1C), &pad]), vec![]));
            out.push((cat(&[&pad, &prog(&[v, 1], 0x78), &pad]), vec![]));
            out.push((cat(&[&pad, &prog(&[v, 0], 0x78), &pad]), vec![]));
            out.push((cat(&[&pad, &prog(&[v, 0], 0x79), &pad]), vec![]));
            out.push((cat(&[&pad, &prog(&[v, 1], 0x79), &pad]), vec![]));
        }
        "calls" => {
            for k in 0..4 {
                fpgm.extend(cat(&[&prog(&[k], 0x2C), &[0xB0, 1, 0x21, 0x2D]]));
            }
            fpgm.extend(cat(&[&prog(&[0x91], 0x89), &[0xB0, 1, 0x21, 0x2D]]));
            out.push((vec![], prog(&[v], 0x2B)));
            out.push((vec![], prog(&[2, v], 0x2A)));
            out.push((vec![], prog(&[v, 0], 0x2A)));
            out.push((vec![], prog(&[v, v], 0x2A)));
        }
        "defs" => {
            // definitions with key / opcode `v` (fpgm), then used
            fpgm.extend(cat(&[&prog(&[v], 0x2C), &[0xB0, 1, 0x21, 0x2D]]));
            fpgm.extend(cat(&[&prog(&[v], 0x89), &[0xB0, 2, 0x21, 0x2D]]));
            out.push((vec![], prog(&[v], 0x2B)));
            out.push((vec![], vec![(v & 0xFF) as u8]));
            out.push((vec![], prog(&[3, v], 0x2A)));
        }
        "delta-arg" => {
            for op in [0x5Du8, 0x71, 0x72] {
                out.push((vec![], prog(&[v, 3, 1], op)));
            }
            for op in [0x73u8, 0x74, 0x75] {
                out.push((vec![], prog(&[v, 6, 1], op)));
            }
        }
        "delta-index" => {
            for op in [0x5Du8, 0x71, 0x72, 0x73, 0x74, 0x75] {
                out.push((vec![], prog(&[0x70, v, 1], op)));
                out.push((vec![], prog(&[0x7F, 3, 0x78, v, 2], op)));
            }
        }
        "delta-count" => {
            for op in [0x5Du8, 0x71, 0x72, 0x73, 0x74, 0x75] {
                out.push((vec![], prog(&[0x70, 3, 0x7F, 4, v], op)));
                out.push((vec![], prog(&[v], op)));
            }
        }
        "push-counts" => {
            let n = (v & 0xFF) as u8;
            for (op, width) in [(0x40u8, 1usize), (0x41, 2)] {
                for have in [n as usize, (n as usize).saturating_sub(1), 0, n as usize + 1] {
                    let mut c = vec![op, n];
                    c.extend(std::iter::repeat(1u8).take(have * width));
                    out.push((c, vec![0x24, 0x21]));
                }
            }
            let k = (v & 7) as u8;
            for base in [0xB0u8, 0xB8] {
                let mut c = vec![base + k];
                c.extend(std::iter::repeat(2u8).take((v as usize) % 20));
                out.push((c, vec![]));
            }
        }
        "smd" => with(&mut out, prog(&[v], 0x1A), dist_consumers()),
        "scvtci" => with(&mut out, prog(&[v], 0x1D), dist_consumers()),
        "sswci" => with(&mut out, prog(&[v], 0x1E), dist_consumers()),
        "ssw" => with(&mut out, prog(&[v], 0x1F), dist_consumers()),
        "vectors" => {
            let mut cs = point_movers();
            cs.truncate(26);
            cs.push(vec![0x4B, 0x21, 0x4C, 0x21, 0x0C, 0x21, 0x21, 0x0D, 0x21, 0x21]);
            for op in [0x0Au8, 0x0B] {
                with(&mut out, prog(&[v, 0x4000], op), cs.clone());
                with(&mut out, prog(&[0, v], op), cs.clone());
                with(&mut out, prog(&[v, v], op), cs.clone());
            }
        }
        "point-operand" => {
            for a in 0..2u8 {
                out.push((vec![], prog(&[v], 0x2E + a)));
                out.push((vec![], prog(&[v, 4], 0x3E + a)));
                out.push((vec![], prog(&[v, 64], 0x3A + a)));
                out.push((vec![], prog(&[v], 0x32 + a)));
                out.push((vec![], prog(&[v], 0x34 + a)));
                out.push((vec![], prog(&[v], 0x36 + a)));
                out.push((vec![], cat(&[&prog(&[v], 0x46 + a), &[0x21]])));
                out.push((vec![], cat(&[&prog(&[v, 1], 0x49 + a), &[0x21]])));
                out.push((vec![], cat(&[&prog(&[1, v], 0x49 + a), &[0x21]])));
                out.push((vec![], prog(&[v, 3], 0x06 + a)));
                out.push((vec![], prog(&[1, v], 0x08 + a)));
                out.push((vec![], prog(&[v, v], 0x86 + a)));
            }
            for f in [0u8, 0x1F] {
                out.push((vec![], prog(&[v], 0xC0 + f)));
                out.push((vec![], prog(&[v, 6], 0xE0 + f)));
            }
            out.push((vec![], prog(&[v, 64], 0x38)));
            out.push((vec![], prog(&[v], 0x39)));
            out.push((vec![], prog(&[v], 0x3C)));
            out.push((vec![], prog(&[v, 64], 0x48)));
            for pos in 0..5 {
                let mut a = [4, 0, 2, 1, 3];
                a[pos] = v;
                out.push((vec![], prog(&a, 0x0F)));
            }
            out.push((vec![], prog(&[v, 3], 0x27)));
            out.push((vec![], prog(&[1, v], 0x27)));
            out.push((vec![], prog(&[v], 0x29)));
            out.push((vec![], prog(&[v], 0x80)));
            for op in [0x81u8, 0x82] {
                out.push((vec![], prog(&[v, 3], op)));
                out.push((vec![], prog(&[1, v], op)));
                out.push((vec![], prog(&[v, v], op)));
            }
        }
        "distance-operand" => {
            out.push((vec![], prog(&[3, v], 0x38)));
            out.push((vec![], prog(&[3, v], 0x48)));
            out.push((vec![], prog(&[3, v], 0x3A)));
            out.push((vec![], prog(&[3, v], 0x3B)));
            out.push((prog(&[6, v], 0x44), prog(&[3, 6], 0x3F)));
            out.push((prog(&[6, v], 0x44), prog(&[3, 6], 0xFF)));
            out.push((prog(&[6, v], 0x70), prog(&[3, 6], 0xE4)));
            for op in [0x60u8, 0x61, 0x62, 0x63, 0x64, 0x65, 0x66, 0x67, 0x8B, 0x8C] {
                out.push((vec![], cat(&[&prog(&[v, v], op), &[0x21]])));
                out.push((vec![], cat(&[&prog(&[100, v], op), &[0x21]])));
                out.push((vec![], cat(&[&prog(&[v, -1], op), &[0x21]])));
                out.push((vec![], cat(&[&prog(&[v, 64], op), &[0x21]])));
            }
        }
        _ => {
            // anyopK: every opcode of the K-th slice with `v` as all of its operands
            if let Some(k) = name.strip_prefix("anyop").and_then(|k| k.parse::<usize>().ok()) {
                let lo = k * 37;
                for op in lo..(lo + 37).min(256) {
                    let op = op as u8;
                    // definitions and inline pushes are swept separately
                    if op == 0x2C || op == 0x89 || op == 0x40 || op == 0x41 || (0xB0..=0xBF).contains(&op) {
                        continue;
                    }
                    out.push((vec![], prog(&[v, v, v, v, v], op)));
                    out.push((vec![], prog(&[3, 3, 3, 3, v], op)));
                }
            }
        }
    }
    (fpgm, out)
}

fn ttsweep_case(name: &str, place: &str, only: Option<i32>) -> String {
    let mut n = 0u64;
    let mut oks = 0u64;
    let mut panics = 0u64;
    let mut sites: Vec<(String, String)> = vec![];
    let values = match only {
        Some(v) => vec![v],
        None => sweep_values(),
    };
    for v in values {
        let (fp, pairs) = sweep_programs(name, v);
        for (vi, (setter, consumer)) in pairs.iter().enumerate() {
            let (fpgm, prep, glyph): (Vec<u8>, Vec<u8>, Vec<u8>) = match place {
                "g" => (fp.clone(), vec![], cat(&[&PRELUDE_G, setter, consumer])),
                "p" => (fp.clone(), cat(&[&PRELUDE_T, setter, consumer]), vec![]),
                "f" => (cat(&[&fp, &PRELUDE_T, setter, consumer]), vec![], vec![]),
                _ => (fp.clone(), setter.clone(), cat(&[&PRELUDE_G, consumer])),
            };
            if place == "b" && setter.is_empty() {
                continue;
            }
            n += 1;
            let data = tt_font(&fpgm, &prep, &glyph);
            match catch(|| run_tt(&data)) {
                Ok(k) => oks += k as u64,
                Err(m) => {
                    panics += 1;
                    let site = last_loc();
                    if sites.len() < 6 && !sites.iter().any(|(s, _)| *s == site) {
                        sites.push((site, format!("v={v} variant={vi} fpgm={} prep={} glyph={} msg=[{}]", hex(&fpgm), hex(&prep), hex(&glyph), m.replace('\n', " ").chars().take(120).collect::<String>())));
                    }
                }
            }
        }
    }
    if sites.is_empty() {
        format!("ok programs={n} ok_results={oks}")
    } else {
        let parts: Vec<String> = sites.iter().map(|(s, d)| format!("at=[{s}] {d}")).collect();
        format!("panic count={panics} of {n} ;; {}", parts.join(" ;; "))
    }
}

pub fn ttsweep_jobs(_thorough: bool) -> Vec<Job> {
    let name = "truetype-operand-sweep-returns-value";
    let mut v = vec![];
    for s in SWEEPS {
        for place in ["g", "p", "f", "b"] {
            // setter-less sweeps have no prep-setter / glyph-consumer split
            if place == "b" && (s.starts_with("anyop") || ["point-operand", "delta-arg", "delta-index", "delta-count", "calls", "defs"].contains(&s)) {
                continue;
            }
            v.push(job(name, format!("ttsweep name={s} place={place}")));
        }
    }
    v
}

// ------------------------------------------------------------------------------------------------
// metadata battery with all argument shapes
// ------------------------------------------------------------------------------------------------

fn hostile_f32s() -> Vec<f32> {
    vec![0.0, -0.0, 1.0, -1.0, 100.0, 400.0, 900.0, 1000.0, f32::NAN, f32::INFINITY, f32::NEG_INFINITY, f32::MAX, f32::MIN, f32::MIN_POSITIVE, 1e-40, 32767.99, -32768.0, 65536.0]
}

/// every metadata entry point of the property, light iteration bounds (it runs on thousands of mutants)
pub fn meta_battery(font: &FontRef, deep: bool) -> u64 {
    let mut n = 0u64;
    let cap = if deep { 5000 } else { 120 };
    // ---- axes
    let axes = font.axes();
    let axis_count = axes.len();
    let mut tags: Vec<Tag> = vec![Tag::new(b"wght"), Tag::new(b"zzzz"), Tag::new(b"wdth")];
    let mut axis_values: Vec<f32> = hostile_f32s();
    for a in axes.iter().take(cap) {
        let _ = (a.index(), a.name_id(), a.is_hidden());
        tags.push(a.tag());
        for x in [a.min_value(), a.default_value(), a.max_value()] {
            axis_values.push(x);
            axis_values.push(x + 1.0);
            axis_values.push(x - 1.0);
        }
        for x in hostile_f32s() {
            n += a.normalize(x).to_bits() as u64 & 1;
        }
        for x in [a.min_value(), a.default_value(), a.max_value()] {
            n += a.normalize(x).to_bits() as u64 & 1;
        }
    }
    let _ = (axes.get(0), axes.get(axis_count), axes.get(usize::MAX), axes.get_by_tag(Tag::new(b"wght")), axes.is_empty());
    tags.truncate(12);
    axis_values.truncate(60);
    // settings: one tag x every value; duplicate tags; missing tags; everything at once
    for tag in &tags {
        for x in &axis_values {
            let s = [(*tag, *x)];
            n += axes.filter(s).count() as u64;
            let loc = axes.location(s);
            n += loc.coords().len() as u64;
        }
    }
    for x in &axis_values {
        let all: Vec<(Tag, f32)> = tags.iter().map(|t| (*t, *x)).chain(tags.iter().map(|t| (*t, -*x))).collect();
        n += axes.filter(all.iter().copied()).count() as u64;
        let loc = axes.location(all.iter().copied());
        for len in [0usize, 1, axis_count, axis_count + 1, 70] {
            let mut buf = vec![F2Dot14::default(); len];
            axes.location_to_slice(all.iter().copied(), &mut buf);
        }
        n += loc.coords().len() as u64;
    }
    n += axes.filter(std::iter::empty::<(Tag, f32)>()).count() as u64;
    // ---- named instances
    let ni = font.named_instances();
    n += ni.len() as u64;
    let _ = (ni.get(0), ni.get(ni.len()), ni.get(usize::MAX), ni.is_empty());
    for inst in ni.iter().take(cap) {
        let _ = (inst.subfamily_name_id(), inst.postscript_name_id());
        n += inst.user_coords().take(cap).count() as u64;
        n += inst.location().coords().len() as u64;
        for len in [0usize, 1, axis_count, axis_count + 2] {
            let mut buf = vec![F2Dot14::default(); len];
            inst.location_to_slice(&mut buf);
        }
    }
    // ---- locations for the metric queries
    let mut locs: Vec<Vec<F2Dot14>> = vec![vec![]];
    for bits in [0i16, 16384, -16384, i16::MAX, i16::MIN, 8192] {
        locs.push(vec![F2Dot14::from_bits(bits); axis_count.max(1)]);
        locs.push(vec![F2Dot14::from_bits(bits); axis_count + 3]);
    }
    locs.push(vec![F2Dot14::from_bits(-5000); 1]);
    let num_glyphs = { use read_fonts::TableProvider; font.maxp().map(|m| m.num_glyphs() as u32).unwrap_or(0) };
    let gids = [0u32, 1, 2, num_glyphs.wrapping_sub(1), num_glyphs, num_glyphs.wrapping_add(1), 65535, 65536, u32::MAX];
    for (si, (_, size)) in all_sizes().iter().enumerate() {
        for (li, loc) in locs.iter().enumerate() {
            if !deep && (si + li) % 3 != 0 {
                continue;
            }
            let m = font.metrics(*size, LocationRef::new(loc));
            n += m.units_per_em as u64 & 1;
            let gm = font.glyph_metrics(*size, LocationRef::new(loc));
            n += gm.glyph_count() as u64 & 1;
            for g in gids {
                let g = GlyphId::new(g);
                let _ = (gm.advance_width(g), gm.left_side_bearing(g), gm.bounds(g));
            }
        }
    }
    let _ = font.attributes();
    // ---- strings
    for id in [0u16, 1, 2, 3, 4, 5, 6, 16, 17, 25, 255, 256, 257, 300, 32767, 32768, 65535] {
        let ls = font.localized_strings(StringId::new(id));
        for s in ls.clone().take(cap) {
            n += s.chars().take(2000).count() as u64;
            n += s.language().map(|l| l.len()).unwrap_or(0) as u64;
        }
        n += ls.english_or_first().map(|s| s.chars().take(2000).count()).unwrap_or(0) as u64;
    }
    // ---- glyph names
    let gn = font.glyph_names();
    let _ = (gn.source(), gn.num_glyphs());
    for (_, name) in gn.iter().take(cap) {
        n += name.as_str().len() as u64;
    }
    for g in gids {
        n += gn.get(GlyphId::new(g)).map(|x| x.as_str().len()).unwrap_or(0) as u64;
    }
    // ---- charmap incl. variants
    let cm = font.charmap();
    let _ = (cm.has_map(), cm.is_symbol(), cm.has_variant_map());
    for c in [0u32, 0x20, 0x41, 0x7F, 0xFF, 0x3042, 0x4E00, 0xF020, 0xFFFF, 0x10000, 0x1F600, 0x10FFFF, 0x110000, u32::MAX] {
        n += cm.map(c).map(|g| g.to_u32() as u64 & 1).unwrap_or(0);
        for sel in [0xFE00u32, 0xFE0E, 0xFE0F, 0xE0100, 0xE01EF, 0, u32::MAX] {
            let _ = cm.map_variant(c, sel);
        }
    }
    n += cm.mappings().take(cap).count() as u64;
    n += cm.variant_mappings().take(cap).count() as u64;
    // ---- colour glyphs
    let cg = font.color_glyphs();
    for g in gids.iter().take(if deep { 9 } else { 4 }) {
        for fmt in [skrifa::color::ColorGlyphFormat::ColrV0, skrifa::color::ColorGlyphFormat::ColrV1] {
            if let Some(c) = cg.get_with_format(GlyphId::new(*g), fmt) {
                let mut p = NullPainter(0);
                let _ = c.paint(LocationRef::new(&locs[1]), &mut p);
                let _ = c.bounding_box(LocationRef::new(&locs[3]), Size::new(16.0));
                let _ = c.bounding_box(LocationRef::default(), Size::new(f32::NAN));
            }
        }
    }
    n
}

fn table_range(data: &[u8], tag: &[u8]) -> Option<(usize, usize)> {
    let n = u16::from_be_bytes([*data.get(4)?, *data.get(5)?]) as usize;
    for i in 0..n {
        let p = 12 + 16 * i;
        if data.get(p..p + 4)? == tag {
            let off = u32::from_be_bytes(data.get(p + 8..p + 12)?.try_into().ok()?) as usize;
            let len = u32::from_be_bytes(data.get(p + 12..p + 16)?.try_into().ok()?) as usize;
            if off <= data.len() {
                return Some((off, len.min(data.len() - off)));
            }
        }
    }
    None
}

const U16_VALUES: [u16; 8] = [0, 1, 2, 0x7FFF, 0x8000, 0x8001, 0xFFFE, 0xFFFF];
const U32_VALUES: [u32; 7] = [0, 1, 0x7FFF_FFFF, 0x8000_0000, 0x8000_0001, 0xFFFF_FFFE, 0xFFFF_FFFF];

/// field extremes by position: every u16 (even offsets) and u32 (4-aligned offsets) of the first `window` bytes of the
/// table plus a spread of later positions, one at a time
fn metamut_case(path: &str, tag: &str, window: usize, only: Option<(usize, usize, u32)>) -> String {
    let Ok(base) = std::fs::read(path) else { return "read-failed".into() };
    let mut tagb = [b' '; 4];
    for (i, b) in tag.bytes().take(4).enumerate() {
        tagb[i] = if b == b'_' { b' ' } else { b };
    }
    let Some((off, len)) = table_range(&base, &tagb) else { return "ok no-table".into() };
    let mut positions: Vec<usize> = (0..len.min(window)).step_by(2).collect();
    if len > window {
        let step = ((len - window) / 48).max(2) & !1;
        positions.extend((window..len).step_by(step.max(2)));
    }
    let mut muts: Vec<(usize, usize, u32)> = vec![];
    match only {
        Some(m) => muts.push(m),
        None => {
            for p in positions {
                if p + 2 <= len {
                    for v in U16_VALUES {
                        muts.push((p, 2, v as u32));
                    }
                }
                if p % 4 == 0 && p + 4 <= len {
                    for v in U32_VALUES {
                        muts.push((p, 4, v));
                    }
                }
            }
        }
    }
    let mut n = 0u64;
    let mut panics = 0u64;
    let mut sites: Vec<(String, String)> = vec![];
    let mut data = base.clone();
    for (p, w, v) in muts {
        let old: Vec<u8> = data[off + p..off + p + w].to_vec();
        if w == 2 {
            data[off + p..off + p + 2].copy_from_slice(&(v as u16).to_be_bytes());
        } else {
            data[off + p..off + p + 4].copy_from_slice(&v.to_be_bytes());
        }
        if data[off + p..off + p + w] != old[..] {
            n += 1;
            let r = catch(|| match FontRef::from_index(&data, 0) {
                Ok(font) => meta_battery(&font, false),
                Err(_) => 0,
            });
            if let Err(m) = r {
                panics += 1;
                let site = last_loc();
                if sites.len() < 6 && !sites.iter().any(|(s, _)| *s == site) {
                    sites.push((site, format!("mutation={tag}+{p}:u{}={v} replay=[metamut font={path} table={tag} one={p}:{w}:{v}] msg=[{}]", w * 8, m.replace('\n', " ").chars().take(120).collect::<String>())));
                }
            }
        }
        data[off + p..off + p + w].copy_from_slice(&old);
    }
    if sites.is_empty() {
        format!("ok mutants={n}")
    } else {
        let parts: Vec<String> = sites.iter().map(|(s, d)| format!("at=[{s}] {d}")).collect();
        format!("panic count={panics} of {n} ;; {}", parts.join(" ;; "))
    }
}

pub const META_TABLES: [&str; 16] = ["fvar", "avar", "STAT", "MVAR", "HVAR", "OS/2", "hhea", "head", "post", "name", "cmap", "maxp", "hmtx", "VVAR", "vhea", "COLR"];

pub fn metamut_jobs(thorough: bool) -> Vec<Job> {
    let name = "metadata-providers-total-on-field-extremes";
    let fonts = [
        "vazirmatn_var_trimmed.ttf",
        "cantarell_vf_trimmed.ttf",
        "amstelvar-a.ttf",
        "cmap14_font1.otf",
        "colrv0v1_variable.ttf",
        "notoserifhebrew_autohint_metrics.ttf",
        "cmap12_font1.otf",
        "noto_serif_display_trimmed.ttf",
    ];
    let mut v = vec![];
    for f in fonts {
        let path = format!("/repo/font-test-data/test_data/ttf/{f}");
        let Ok(data) = std::fs::read(&path) else { continue };
        for t in META_TABLES {
            let mut tagb = [b' '; 4];
            for (i, b) in t.bytes().take(4).enumerate() {
                tagb[i] = b;
            }
            if table_range(&data, &tagb).is_none() {
                continue;
            }
            v.push(job(name, format!("metamut font={path} table={} window={}", t.replace(' ', "_"), if thorough { 4096 } else { 320 })));
        }
    }
    v
}

// ------------------------------------------------------------------------------------------------
// synthetic fvar / avar / metric tables with inconsistent values
// ------------------------------------------------------------------------------------------------

const FX: [u32; 12] = [0, 0x0001_0000, 0x0064_0000, 0x0190_0000, 0x0384_0000, 0x03E8_0000, 0x7FFF_FFFF, 0x8000_0000, 0xFFFF_0000, 0xFFFF_FFFF, 0x7FFF_0000, 0x8000_0001];

/// fvar with `axes` = (tag, min, default, max) raw 16.16 and `instances` coordinate rows; header fields overridable
fn fvar_bytes(axes: &[([u8; 4], u32, u32, u32)], instances: &[Vec<u32>], axis_count_field: Option<u16>, instance_size_field: Option<u16>, with_ps_name: bool) -> Vec<u8> {
    let mut t: Vec<u8> = vec![];
    be32(&mut t, 0x00010000);
    be16(&mut t, 16);
    be16(&mut t, 2);
    be16(&mut t, axis_count_field.unwrap_or(axes.len() as u16));
    be16(&mut t, 20);
    be16(&mut t, instances.len() as u16);
    let isz = 4 + 4 * axes.len() + if with_ps_name { 2 } else { 0 };
    be16(&mut t, instance_size_field.unwrap_or(isz as u16));
    for (i, (tag, mn, df, mx)) in axes.iter().enumerate() {
        t.extend_from_slice(tag);
        be32(&mut t, *mn);
        be32(&mut t, *df);
        be32(&mut t, *mx);
        be16(&mut t, (i % 2) as u16);
        be16(&mut t, 256 + i as u16);
    }
    for (i, row) in instances.iter().enumerate() {
        be16(&mut t, 300 + i as u16);
        be16(&mut t, 0);
        for c in row {
            be32(&mut t, *c);
        }
        if with_ps_name {
            be16(&mut t, 6);
        }
    }
    t
}

/// avar v1 with one segment map per axis: (from, to) F2Dot14 pairs
fn avar_bytes(maps: &[Vec<(i16, i16)>], axis_count_field: Option<u16>) -> Vec<u8> {
    let mut t: Vec<u8> = vec![];
    be16(&mut t, 1);
    be16(&mut t, 0);
    be16(&mut t, 0);
    be16(&mut t, axis_count_field.unwrap_or(maps.len() as u16));
    for m in maps {
        be16(&mut t, m.len() as u16);
        for (a, b) in m {
            t.extend_from_slice(&a.to_be_bytes());
            t.extend_from_slice(&b.to_be_bytes());
        }
    }
    t
}

pub const FVARSYN_CASES: usize = 40;

fn fvarsyn_font(case: usize) -> Vec<u8> {
    let w = *b"wght";
    let d = *b"wdth";
    let (mn, df, mx) = (0x0064_0000u32, 0x0190_0000u32, 0x0384_0000u32);
    let mut avar: Option<Vec<u8>> = None;
    let normal_map = vec![(-0x4000i16, -0x4000i16), (0, 0), (0x4000, 0x4000)];
    let fvar = match case {
        // min > max, default inside / outside
        0 => fvar_bytes(&[(w, mx, df, mn)], &[vec![df]], None, None, false),
        1 => fvar_bytes(&[(w, 0x03E8_0000, df, mx)], &[vec![df]], None, None, false),
        2 => fvar_bytes(&[(w, mn, 0x03E8_0000, mx)], &[vec![df]], None, None, false),
        3 => fvar_bytes(&[(w, mn, 0, mx)], &[vec![df]], None, None, false),
        4 => fvar_bytes(&[(w, df, df, df)], &[vec![df]], None, None, false),
        5 => fvar_bytes(&[(w, mx, mn, df)], &[vec![mx], vec![mn]], None, None, true),
        // extreme 16.16 values
        6 => fvar_bytes(&[(w, 0x8000_0000, 0, 0x7FFF_FFFF)], &[vec![0x8000_0000], vec![0x7FFF_FFFF]], None, None, false),
        7 => fvar_bytes(&[(w, 0x7FFF_FFFF, 0, 0x8000_0000)], &[vec![0]], None, None, false),
        8 => fvar_bytes(&[(w, 0x7FFF_FFFF, 0x7FFF_FFFF, 0x7FFF_FFFF)], &[vec![0x7FFF_FFFF]], None, None, false),
        9 => fvar_bytes(&[(w, 0x8000_0000, 0x8000_0000, 0x8000_0000)], &[vec![0x8000_0000]], None, None, true),
        10 => fvar_bytes(&[(w, 0xFFFF_FFFF, 0, 1)], &[vec![1]], None, None, false),
        // duplicate tags with different ranges
        11 => fvar_bytes(&[(w, mn, df, mx), (w, mx, df, mn), (w, 0, 0, 0)], &[vec![df, df, df]], None, None, false),
        12 => fvar_bytes(&[(w, mn, df, mx), (d, mx, df, mn), (w, 0x8000_0000, 0, 0x7FFF_FFFF), (d, 0, 0, 0)], &[vec![df, df, 0, 0]], None, None, true),
        // zero axes with instances, axis count field larger / smaller than the array, instance size off
        13 => fvar_bytes(&[], &[vec![], vec![]], None, None, false),
        14 => fvar_bytes(&[], &[vec![df, df]], None, Some(12), false),
        15 => fvar_bytes(&[(w, mn, df, mx)], &[vec![df]], Some(3), None, false),
        16 => fvar_bytes(&[(w, mn, df, mx), (d, mn, df, mx)], &[vec![df, df]], Some(1), None, false),
        17 => fvar_bytes(&[(w, mn, df, mx), (d, mn, df, mx)], &[vec![df, df], vec![mn, mx]], None, Some(4), false),
        18 => fvar_bytes(&[(w, mn, df, mx), (d, mn, df, mx)], &[vec![df, df], vec![mn, mx]], None, Some(8), true),
        19 => fvar_bytes(&[(w, mn, df, mx), (d, mn, df, mx)], &[vec![df, df], vec![mn, mx]], None, Some(65535), false),
        20 => fvar_bytes(&[(w, mn, df, mx)], &[vec![df]], Some(65535), Some(0), false),
        // avar: non-monotone, duplicate from values, single point, empty, out of range, count mismatch
        21..=30 => {
            let m: Vec<(i16, i16)> = match case {
                21 => vec![(-0x4000, -0x4000), (0x2000, 0x3000), (0x1000, -0x2000), (0, 0), (0x4000, 0x4000)],
                22 => vec![(0, 0), (0, 0x4000), (0, -0x4000), (0, 0)],
                23 => vec![(0x4000, -0x4000), (-0x4000, 0x4000)],
                24 => vec![(0, 0)],
                25 => vec![],
                26 => vec![(i16::MIN, i16::MAX), (0, i16::MIN), (i16::MAX, i16::MIN)],
                27 => vec![(-0x4000, -0x4000), (-1, 0x4000), (0, 0), (1, -0x4000), (0x4000, 0x4000)],
                28 => (0..200).map(|i| ((i * 37 % 400 - 200) as i16 * 80, (i * 91 % 400 - 200) as i16 * 80)).collect(),
                29 => vec![(0x4000, 0x4000), (0, 0), (-0x4000, -0x4000)],
                _ => vec![(-0x4000, 0), (0, 0), (0x4000, 0)],
            };
            avar = Some(match case {
                29 => avar_bytes(&[m, normal_map.clone()], Some(5)),
                30 => avar_bytes(&[m], Some(0)),
                _ => avar_bytes(&[m, normal_map.clone()], None),
            });
            fvar_bytes(&[(w, mn, df, mx), (d, mx, df, mn)], &[vec![df, df], vec![mn, mn], vec![mx, mx]], None, None, false)
        }
        // every pair of extreme min / max with a default from the same set
        _ => {
            let k = case - 31;
            let a = FX[(k * 5) % FX.len()];
            let b = FX[(k * 7 + 3) % FX.len()];
            let c = FX[(k * 11 + 6) % FX.len()];
            avar = Some(avar_bytes(&[vec![(-0x4000, -0x4000), (0, 0), (0x4000, 0x4000)], vec![(0, 0x4000), (0, -0x4000)]], None));
            fvar_bytes(&[(w, a, b, c), (d, c, a, b)], &[vec![a, b], vec![c, c]], None, None, k % 2 == 0)
        }
    };
    // OS/2, hhea, post, head with extreme metrics; unitsPerEm from the case
    let upem = [1000u16, 0, 1, 16, 16383, 16384, 32767, 65535][case % 8];
    let mut hhea = vec![0u8; 36];
    hhea[0..4].copy_from_slice(&0x00010000u32.to_be_bytes());
    let ext = [0i16, 1, -1, i16::MAX, i16::MIN, 1000, -1000, 0x4000];
    for k in 0..15 {
        hhea[4 + 2 * k..6 + 2 * k].copy_from_slice(&ext[(case + k) % 8].to_be_bytes());
    }
    hhea[34..36].copy_from_slice(&[1u16, 0, 2, 65535][case % 4].to_be_bytes());
    let mut os2 = vec![0u8; 100];
    os2[0..2].copy_from_slice(&[0u16, 1, 2, 4, 5, 65535][case % 6].to_be_bytes());
    for k in 1..50 {
        os2[2 * k..2 * k + 2].copy_from_slice(&ext[(case * 3 + k) % 8].to_be_bytes());
    }
    let mut post = vec![0u8; 32];
    post[0..4].copy_from_slice(&[0x00010000u32, 0x00020000, 0x00030000, 0x00025000, 0xFFFF0000][case % 5].to_be_bytes());
    post[4..8].copy_from_slice(&FX[case % 12].to_be_bytes());
    post[8..10].copy_from_slice(&ext[case % 8].to_be_bytes());
    post[10..12].copy_from_slice(&ext[(case + 3) % 8].to_be_bytes());
    post.extend_from_slice(&[0xFF, 0xFF, 0, 1, 0xFF, 0xFF]);
    let mut maxp = vec![0u8; 6];
    maxp[0..4].copy_from_slice(&0x00005000u32.to_be_bytes());
    maxp[4..6].copy_from_slice(&[2u16, 0, 1, 65535][case % 4].to_be_bytes());
    // name: records whose string ranges are out of bounds
    let mut name: Vec<u8> = vec![];
    be16(&mut name, 0);
    be16(&mut name, 6);
    be16(&mut name, [6 + 12 * 6, 0, 65535, 10][case % 4] as u16);
    for k in 0..6u16 {
        for v in [3u16, 1, 0x409, [1u16, 2, 4, 6, 256, 300][k as usize], [4u16, 65535, 0, 3, 32768, 8][(k as usize + case) % 6], [0u16, 65535, 2, 1, 32767, 60000][(k as usize + case / 2) % 6]] {
            be16(&mut name, v);
        }
    }
    name.extend_from_slice(&[0, 0x41, 0xD8, 0x00, 0xDC, 0x00, 0, 0x42]);
    let mut tables = vec![
        (*b"head", minimal_head(upem, false)),
        (*b"maxp", maxp),
        (*b"hhea", hhea),
        (*b"hmtx", vec![1, 244, 0, 0, 0x7F, 0xFF, 0x80, 0x00]),
        (*b"OS/2", os2),
        (*b"post", post),
        (*b"name", name),
        (*b"fvar", fvar),
    ];
    if let Some(a) = avar {
        tables.push((*b"avar", a));
    }
    sfnt(tables)
}

fn fvarsyn_case(case: usize) -> String {
    let data = fvarsyn_font(case);
    let Ok(font) = FontRef::new(&data) else { return "font-failed".into() };
    match catch(|| meta_battery(&font, true)) {
        Ok(n) => format!("ok n={n}"),
        Err(m) => format!("panic at=[{}] {}", last_loc(), m.replace('\n', " ").chars().take(200).collect::<String>()),
    }
}

pub fn fvarsyn_jobs() -> Vec<Job> {
    (0..FVARSYN_CASES).map(|c| job("metadata-providers-total-on-inconsistent-variation-tables", format!("fvarsyn case={c}"))).collect()
}

// ------------------------------------------------------------------------------------------------
// child dispatch
// ------------------------------------------------------------------------------------------------

pub fn child(cmd: &str, t: &[&str]) -> String {
    let get = |k: &str| -> Option<&str> { t.iter().find_map(|kv| kv.strip_prefix(k).and_then(|r| r.strip_prefix('='))) };
    match cmd {
        "ttsweep" => ttsweep_case(get("name").unwrap_or(""), get("place").unwrap_or("g"), get("only").and_then(|v| v.parse().ok())),
        "metamut" => {
            let only = get("one").and_then(|s| {
                let p: Vec<&str> = s.split(':').collect();
                if p.len() == 3 {
                    Some((p[0].parse().ok()?, p[1].parse().ok()?, p[2].parse().ok()?))
                } else {
                    None
                }
            });
            metamut_case(get("font").unwrap_or(""), get("table").unwrap_or(""), get("window").and_then(|w| w.parse().ok()).unwrap_or(320), only)
        }
        "fvarsyn" => fvarsyn_case(get("case").and_then(|c| c.parse().ok()).unwrap_or(0)),
        _ => "bad-request".into(),
    }
}
