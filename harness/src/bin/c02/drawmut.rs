//! C02 — (a) the FULL battery (metadata, outlines unhinted and through every hinting engine x target, caller memory,
//! colour) on field-extreme mutants of the tables that PARAMETERISE DRAWING, on corpus fonts with real Latin / CJK /
//! Hebrew / Arabic shapes so that the autohinter's blue zones and segment linking run under every unitsPerEm;
//! (b) IFT structural extremes: table-keyed and glyph-keyed patches derived from a well-formed patch by changing
//! one field group at a time, applied through PatchGroup::apply_next_patches (real and pass-through decoder) and the
//! IncrementalFontPatchBase entry points.
//!
//! Requests: `drawmut font=<path> table=<tag> [mode=upem|fields|len] [vals=full] [one=<off>:<w>:<val>]`,
//!           `iftstruct kind=<tk|gk> group=<name> [one=<index>]`.
use super::stress::{be16, be24, be32, job, minimal_head, sfnt, Job};
use super::sweep::meta_battery;
use super::{all_engines, all_targets, catch, last_loc, NullPainter, NullPen};
use fv_harness::common::*;
use read_fonts::types::{F2Dot14, GlyphId};
use read_fonts::{FontRef, TableProvider};
use skrifa::instance::{LocationRef, Size};
use skrifa::outline::pen::PathStyle;
use skrifa::outline::{DrawSettings, Hinting, HintingInstance, HintingOptions};
use skrifa::MetadataProvider;
use std::collections::HashMap;

// ------------------------------------------------------------------------------------------------
// (a) drawing battery
// ------------------------------------------------------------------------------------------------

/// every drawing path on (a sample of) all glyphs: unhinted with both path styles and caller memory of the
/// advertised size / one byte less / none, every engine x a rotation of all targets x 4 sizes hinted pedantic and
/// not (again with caller memory), colour paint; then the metadata battery
pub fn draw_battery(font: &FontRef, salt: usize) -> u64 {
    let mut n = 0u64;
    let num_glyphs = font.maxp().map(|m| m.num_glyphs() as u32).unwrap_or(0);
    let outlines = font.outline_glyphs();
    // glyph sample: the first 40, then a spread, then the boundary ids
    let mut gids: Vec<u32> = (0..num_glyphs.min(40)).collect();
    if num_glyphs > 40 {
        let step = ((num_glyphs - 40) / 40).max(1);
        gids.extend((40..num_glyphs).step_by(step as usize).take(44));
    }
    gids.extend_from_slice(&[num_glyphs.wrapping_sub(1), num_glyphs, 65535]);
    let axis_count = font.axes().len();
    let locs: Vec<Vec<F2Dot14>> = vec![vec![], vec![F2Dot14::from_f32(0.5); axis_count.max(1)], vec![F2Dot14::from_f32(-1.0); axis_count + 1]];
    let sizes = [Size::new(16.0), Size::new(8.0), Size::new(48.0), Size::unscaled(), Size::new(1e9)];
    // unhinted
    for g in &gids {
        let Some(glyph) = outlines.get(GlyphId::new(*g)) else { continue };
        let adv = glyph.draw_memory_size(Hinting::None);
        let adv_h = glyph.draw_memory_size(Hinting::Embedded);
        n += (adv + adv_h) as u64 & 1;
        for (k, size) in sizes.iter().enumerate() {
            let loc = &locs[(k + *g as usize) % locs.len()];
            let style = if (k + salt) % 2 == 0 { PathStyle::FreeType } else { PathStyle::HarfBuzz };
            let mut pen = NullPen(0);
            let _ = glyph.draw(DrawSettings::unhinted(*size, LocationRef::new(loc)).with_path_style(style), &mut pen);
            if k < 2 {
                for len in [adv, adv.saturating_sub(1)] {
                    let mut backing = vec![0u8; len + 8];
                    let m = (k + salt) % 8;
                    let _ = glyph.draw(DrawSettings::unhinted(*size, LocationRef::new(loc)).with_path_style(style).with_memory(Some(&mut backing[m..m + len])), &mut pen);
                }
            }
            n += pen.0 & 1;
        }
    }
    // hinted: every engine, targets rotating over all 17
    let targets = all_targets();
    for (ei, engine) in all_engines().into_iter().enumerate() {
        for (si, size) in sizes.iter().take(4).enumerate() {
            for k in 0..2 {
                let target = targets[(salt + ei * 5 + si * 3 + k * 7) % targets.len()];
                let loc = &locs[(si + k) % locs.len()];
                let Ok(inst) = HintingInstance::new(&outlines, *size, LocationRef::new(loc), HintingOptions { engine: engine.clone(), target }) else { continue };
                for g in &gids {
                    let Some(glyph) = outlines.get(GlyphId::new(*g)) else { continue };
                    let pedantic = (*g as usize + k) % 2 == 0;
                    let mut pen = NullPen(0);
                    let _ = glyph.draw(DrawSettings::hinted(&inst, pedantic), &mut pen);
                    if si == 0 && k == 0 {
                        let adv = glyph.draw_memory_size(Hinting::Embedded);
                        for len in [adv, adv.saturating_sub(1)] {
                            let mut backing = vec![0u8; len + 8];
                            let _ = glyph.draw(DrawSettings::hinted(&inst, !pedantic).with_memory(Some(&mut backing[1..1 + len])), &mut pen);
                        }
                    }
                    n += pen.0 & 1;
                }
            }
        }
    }
    // colour
    let cg = font.color_glyphs();
    for g in gids.iter().take(24) {
        if let Some(c) = cg.get(GlyphId::new(*g)) {
            let mut p = NullPainter(0);
            let _ = c.paint(LocationRef::new(&locs[1]), &mut p);
            let _ = c.bounding_box(LocationRef::default(), Size::new(16.0));
            n += p.0 & 1;
        }
    }
    n + meta_battery(font, false)
}

fn table_dir_entry(data: &[u8], tag: &[u8; 4]) -> Option<(usize, usize, usize)> {
    let n = u16::from_be_bytes([*data.get(4)?, *data.get(5)?]) as usize;
    for i in 0..n {
        let p = 12 + 16 * i;
        if data.get(p..p + 4)? == tag {
            let off = u32::from_be_bytes(data.get(p + 8..p + 12)?.try_into().ok()?) as usize;
            let len = u32::from_be_bytes(data.get(p + 12..p + 16)?.try_into().ok()?) as usize;
            if off <= data.len() {
                return Some((p, off, len.min(data.len() - off)));
            }
        }
    }
    None
}

fn tag_of(name: &str) -> [u8; 4] {
    let mut t = [b' '; 4];
    for (i, b) in name.bytes().take(4).enumerate() {
        t[i] = if b == b'_' { b' ' } else { b };
    }
    t
}

pub const UPEMS: [u16; 22] = [0, 1, 2, 15, 16, 17, 31, 32, 63, 64, 100, 127, 128, 255, 256, 257, 1000, 2048, 16384, 32767, 32768, 65535];
const U16_QUICK: [u16; 5] = [0, 1, 0x7FFF, 0x8000, 0xFFFF];
const U16_FULL: [u16; 9] = [0, 1, 2, 0x7FFF, 0x8000, 0x8001, 0xFFFE, 0xFFFF, 0x0100];

/// mutation = (offset in table, width, value); width 0 = the LENGTH field of the table directory entry
fn drawmut_list(mode: &str, len: usize, full: bool) -> Vec<(usize, usize, u32)> {
    let mut v = vec![];
    match mode {
        // head.unitsPerEm at offset 18
        "upem" => {
            for u in UPEMS {
                v.push((18, 2, u as u32));
            }
        }
        // table length in the directory: empty, truncated, odd
        "len" => {
            for l in [0usize, 1, 2, 3, 4, len / 2, len.saturating_sub(1), len.saturating_sub(2)] {
                v.push((0, 0, l as u32));
            }
        }
        _ => {
            let window = if full { 256 } else { 128 };
            let vals: &[u16] = if full { &U16_FULL } else { &U16_QUICK };
            let mut positions: Vec<usize> = (0..len.min(window)).step_by(2).collect();
            if len > window {
                let step = ((len - window) / if full { 24 } else { 8 }).max(2) & !1;
                positions.extend((window..len.saturating_sub(1)).step_by(step.max(2)));
            }
            for p in positions {
                if p + 2 <= len {
                    for x in vals {
                        v.push((p, 2, *x as u32));
                    }
                }
            }
        }
    }
    v
}

fn drawmut_case(path: &str, table: &str, mode: &str, full: bool, only: Option<(usize, usize, u32)>) -> String {
    let Ok(base) = std::fs::read(path) else { return "read-failed".into() };
    let tag = tag_of(table);
    let Some((rec, off, len)) = table_dir_entry(&base, &tag) else { return "ok no-table".into() };
    let muts = match only {
        Some(m) => vec![m],
        None => drawmut_list(mode, len, full),
    };
    let mut n = 0u64;
    let mut panics = 0u64;
    let mut sites: Vec<(String, String)> = vec![];
    let mut data = base.clone();
    for (i, (p, w, v)) in muts.iter().copied().enumerate() {
        let (pos, width) = if w == 0 { (rec + 12, 4) } else { (off + p, w) };
        if pos + width > data.len() {
            continue;
        }
        let old: Vec<u8> = data[pos..pos + width].to_vec();
        if width == 2 {
            data[pos..pos + 2].copy_from_slice(&(v as u16).to_be_bytes());
        } else {
            data[pos..pos + 4].copy_from_slice(&v.to_be_bytes());
        }
        if data[pos..pos + width] != old[..] {
            n += 1;
            let r = catch(|| match FontRef::from_index(&data, 0) {
                Ok(font) => draw_battery(&font, i),
                Err(_) => 0,
            });
            if let Err(m) = r {
                panics += 1;
                let site = last_loc();
                if sites.len() < 6 && !sites.iter().any(|(s, _)| *s == site) {
                    let what = if w == 0 { format!("dir[{table}].length={v}") } else { format!("{table}+{p}:u{}={v}", w * 8) };
                    sites.push((site, format!("mutation={what} replay=[drawmut font={path} table={table} one={p}:{w}:{v}] msg=[{}]", m.replace('\n', " ").chars().take(140).collect::<String>())));
                }
            }
        }
        data[pos..pos + width].copy_from_slice(&old);
    }
    if sites.is_empty() {
        format!("ok mutants={n}")
    } else {
        let parts: Vec<String> = sites.iter().map(|(s, d)| format!("at=[{s}] {d}")).collect();
        format!("panic count={panics} of {n} ;; {}", parts.join(" ;; "))
    }
}

pub fn drawmut_jobs(thorough: bool) -> Vec<Job> {
    let name = "full-battery-total-on-drawing-parameter-extremes";
    let fonts = [
        "notoserif_autohint_shaping.ttf",
        "notoserifhebrew_autohint_metrics.ttf",
        "notoseriftc_autohint_metrics.ttf",
        "autohint_cmap.ttf",
        "vazirmatn_var_trimmed.ttf",
        "tthint_subset.ttf",
        "tinos_subset.ttf",
        "noto_serif_display_trimmed.ttf",
        "cantarell_vf_trimmed.ttf",
        "test_glyphs-glyf_colr_1_variable.ttf",
    ];
    let mut v = vec![];
    let vals = if thorough { " vals=full" } else { "" };
    for (fi, f) in fonts.iter().enumerate() {
        let path = format!("/repo/font-test-data/test_data/ttf/{f}");
        let Ok(data) = std::fs::read(&path) else { continue };
        let has = |t: &str| table_dir_entry(&data, &tag_of(t)).is_some();
        v.push(job(name, format!("drawmut font={path} table=head mode=upem")));
        for t in ["head", "maxp", "hhea", "vhea", "OS/2", "post", "hmtx", "vmtx", "gasp", "cvt_", "fpgm", "prep", "loca", "hdmx", "VDMX"] {
            if !has(t) {
                continue;
            }
            // quick tier: the field sweeps of the big fonts only for the tables every draw reads
            if !thorough && fi >= 4 && !["head", "maxp", "hhea"].contains(&t) {
                continue;
            }
            if !["fpgm", "prep", "loca"].contains(&t) {
                v.push(job(name, format!("drawmut font={path} table={} mode=fields{vals}", t.replace('/', "/"))));
            }
            if ["cvt_", "fpgm", "prep", "hmtx", "vmtx", "loca", "gasp", "maxp", "hhea", "OS/2"].contains(&t) {
                v.push(job(name, format!("drawmut font={path} table={t} mode=len")));
            }
        }
    }
    v
}

// ------------------------------------------------------------------------------------------------
// (b) IFT structural extremes
// ------------------------------------------------------------------------------------------------

/// format 2 'IFT ' mapping table with `n` plain entries (ids 1..n) of the given default patch format
fn ift_map(n: usize, patch_format: u8) -> Vec<u8> {
    let template = b"//foo.bar/{id}";
    let mut t: Vec<u8> = vec![2, 0, 0, 0, 0];
    for w in [1u32, 2, 3, 4] {
        be32(&mut t, w);
    }
    t.push(patch_format);
    be24(&mut t, n as u32);
    let eo_pos = t.len();
    be32(&mut t, 0);
    be32(&mut t, 0);
    be16(&mut t, template.len() as u16);
    t.extend_from_slice(template);
    let eo = t.len() as u32;
    t[eo_pos..eo_pos + 4].copy_from_slice(&eo.to_be_bytes());
    for _ in 0..n {
        t.push(0b0010_0000);
        be16(&mut t, 5);
        t.extend_from_slice(&[0b0000_1101, 0b0000_0011, 0b0011_0001]);
    }
    t
}

#[derive(Clone)]
struct TkEntry {
    tag: [u8; 4],
    flags: u8,
    max_len: u32,
    stream: Vec<u8>,
}

#[derive(Clone)]
struct TkPatch {
    format: [u8; 4],
    reserved: u32,
    compat: [u32; 4],
    count_field: Option<u16>,
    entries: Vec<TkEntry>,
    /// overrides of the offsets array (index, value)
    offset_overrides: Vec<(usize, u32)>,
    /// number of offsets written (default entries + 1)
    n_offsets: Option<usize>,
    truncate: Option<usize>,
}

impl TkPatch {
    fn base(raw: bool) -> TkPatch {
        let s = |d: &[u8]| if raw { d.to_vec() } else { super::brotli_stored(&[d.to_vec()]) };
        TkPatch {
            format: *b"iftk",
            reserved: 0,
            compat: [1, 2, 3, 4],
            count_field: None,
            entries: vec![
                TkEntry { tag: *b"tab1", flags: 0, max_len: 64, stream: s(b"hijkabcdeflmnohijkabcdeflmno\n") },
                TkEntry { tag: *b"tab2", flags: 1, max_len: 64, stream: s(b"foobarbaz foobarbaz\n") },
                TkEntry { tag: *b"tab3", flags: 2, max_len: 0, stream: vec![] },
                TkEntry { tag: *b"tab5", flags: 1, max_len: 16, stream: s(b"new table") },
            ],
            offset_overrides: vec![],
            n_offsets: None,
            truncate: None,
        }
    }
    fn bytes(&self) -> Vec<u8> {
        let mut t: Vec<u8> = self.format.to_vec();
        be32(&mut t, self.reserved);
        for w in self.compat {
            be32(&mut t, w);
        }
        be16(&mut t, self.count_field.unwrap_or(self.entries.len() as u16));
        let n_off = self.n_offsets.unwrap_or(self.entries.len() + 1);
        let first = t.len() + 4 * n_off;
        let mut offs: Vec<u32> = vec![];
        let mut body: Vec<u8> = vec![];
        for e in &self.entries {
            offs.push((first + body.len()) as u32);
            body.extend_from_slice(&e.tag);
            body.push(e.flags);
            be32(&mut body, e.max_len);
            body.extend_from_slice(&e.stream);
        }
        offs.push((first + body.len()) as u32);
        while offs.len() < n_off {
            offs.push((first + body.len()) as u32);
        }
        offs.truncate(n_off);
        for (i, v) in &self.offset_overrides {
            if let Some(o) = offs.get_mut(*i) {
                *o = *v;
            }
        }
        for o in offs {
            be32(&mut t, o);
        }
        t.extend_from_slice(&body);
        if let Some(l) = self.truncate {
            t.truncate(l);
        }
        t
    }
    fn offsets(&self) -> Vec<u32> {
        let n_off = self.entries.len() + 1;
        let first = 4 + 4 + 16 + 2 + 4 * n_off;
        let mut offs = vec![];
        let mut pos = first;
        for e in &self.entries {
            offs.push(pos as u32);
            pos += 9 + e.stream.len();
        }
        offs.push(pos as u32);
        offs
    }
}

/// variants of the table-keyed patch, one field group at a time
fn tk_variants(group: &str, raw: bool) -> Vec<(String, Vec<u8>)> {
    let base = TkPatch::base(raw);
    let offs = base.offsets();
    let total = *offs.last().unwrap();
    let mut v: Vec<(String, Vec<u8>)> = vec![];
    match group {
        "offsets" => {
            // every adjacent pair: offsets[i+1] = offsets[i] + gap, descending, zero, at / after the end
            for i in 0..offs.len() - 1 {
                for gap in [0i64, 1, 2, 7, 8, 9, 10, 11, -1, -9, -(offs[i] as i64)] {
                    let mut p = base.clone();
                    p.offset_overrides.push((i + 1, (offs[i] as i64 + gap) as u32));
                    v.push((format!("off[{}]=off[{i}]{gap:+}", i + 1), p.bytes()));
                }
                // both of the pair moved: equal offsets inside a stream, at the end, past the end
                for at in [offs[i] + 3, total, total + 1, total - 1, u32::MAX, 0x8000_0000, 0] {
                    for gap in [0u32, 8, 9] {
                        let mut p = base.clone();
                        p.offset_overrides.push((i, at));
                        p.offset_overrides.push((i + 1, at.wrapping_add(gap)));
                        v.push((format!("off[{i}]={at},off[{}]=+{gap}", i + 1), p.bytes()));
                    }
                }
            }
            for (i, o) in offs.iter().enumerate() {
                for val in [0u32, 1, o - 1, o + 1, total, total + 1, total + 9, u32::MAX] {
                    let mut p = base.clone();
                    p.offset_overrides.push((i, val));
                    v.push((format!("off[{i}]={val}"), p.bytes()));
                }
            }
        }
        "count" => {
            for c in [0u16, 1, 2, 3, 5, 6, 255, 65535] {
                let mut p = base.clone();
                p.count_field = Some(c);
                v.push((format!("count={c}"), p.bytes()));
                let mut p = base.clone();
                p.count_field = Some(c);
                p.n_offsets = Some(c as usize + 1);
                if c < 1000 {
                    v.push((format!("count={c},offsets={}", c as usize + 1), p.bytes()));
                }
            }
            for n in [0usize, 1, 2, 4] {
                let mut p = base.clone();
                p.n_offsets = Some(n);
                v.push((format!("offsets-array={n}"), p.bytes()));
            }
            let mut p = base.clone();
            p.entries.clear();
            v.push(("no-entries".into(), p.bytes()));
            let mut p = base.clone();
            p.entries.truncate(1);
            v.push(("one-entry".into(), p.bytes()));
            let mut p = base.clone();
            for k in 0..300u32 {
                p.entries.push(TkEntry { tag: [b'x', b'0' + (k / 100) as u8, b'0' + (k / 10 % 10) as u8, b'0' + (k % 10) as u8], flags: (k % 3) as u8, max_len: 8, stream: if raw { vec![b'y'] } else { super::brotli_stored(&[vec![b'y']]) } });
            }
            v.push(("304-entries".into(), p.bytes()));
        }
        "flags" => {
            for i in 0..base.entries.len() {
                for f in [0u8, 1, 2, 3, 4, 5, 6, 7, 0x80, 0xFF] {
                    let mut p = base.clone();
                    p.entries[i].flags = f;
                    v.push((format!("flags[{i}]={f}"), p.bytes()));
                }
            }
        }
        "tags" => {
            let tags: [[u8; 4]; 10] = [*b"tab1", *b"tab2", *b"tab9", *b"IFT ", *b"IFTX", *b"head", [0; 4], [0xFF; 4], *b"glyf", *b"tab4"];
            for i in 0..base.entries.len() {
                for t in tags {
                    for f in [0u8, 1, 2] {
                        let mut p = base.clone();
                        p.entries[i].tag = t;
                        p.entries[i].flags = f;
                        v.push((format!("tag[{i}]={}:flags={f}", hex(&t)), p.bytes()));
                    }
                }
            }
        }
        "maxlen" => {
            for i in 0..base.entries.len() {
                let l = base.entries[i].stream.len() as u32;
                for m in [0u32, 1, 8, 19, 20, 28, 29, 30, l.saturating_sub(1), l, 0x7FFF_FFFF, 0xFFFF_FFFF] {
                    let mut p = base.clone();
                    p.entries[i].max_len = m;
                    v.push((format!("maxlen[{i}]={m}"), p.bytes()));
                }
                for cut in [0usize, 1, l as usize / 2] {
                    let mut p = base.clone();
                    p.entries[i].stream.truncate(cut);
                    v.push((format!("stream[{i}].len={cut}"), p.bytes()));
                }
                let mut p = base.clone();
                p.entries[i].stream.extend_from_slice(&[0xFF; 7]);
                v.push((format!("stream[{i}]+junk"), p.bytes()));
            }
        }
        "header" => {
            for f in [*b"iftk", *b"ifgk", *b"IFTK", [0; 4]] {
                let mut p = base.clone();
                p.format = f;
                v.push((format!("format={}", hex(&f)), p.bytes()));
            }
            for c in [[1u32, 2, 3, 5], [0, 0, 0, 0], [u32::MAX; 4], [6, 7, 8, 9]] {
                let mut p = base.clone();
                p.compat = c;
                v.push((format!("compat={c:?}").replace(' ', ""), p.bytes()));
            }
            let mut p = base.clone();
            p.reserved = u32::MAX;
            v.push(("reserved=max".into(), p.bytes()));
        }
        _ => {
            // truncation at every length
            let full = base.bytes();
            for l in 0..full.len() {
                let mut p = base.clone();
                p.truncate = Some(l);
                v.push((format!("truncate={l}"), p.bytes()));
            }
        }
    }
    v
}

fn tk_font() -> Vec<u8> {
    sfnt(vec![
        (*b"IFT ", ift_map(1, 1)),
        (*b"tab1", b"abcdef\n".to_vec()),
        (*b"tab2", b"foobar\n".to_vec()),
        (*b"tab3", b"foobaz\n".to_vec()),
        (*b"tab4", b"unchanged\n".to_vec()),
        (*b"head", minimal_head(1000, true)),
    ])
}

const GK_GLYPHS: usize = 12;

fn gk_font() -> Vec<u8> {
    let mut maxp = vec![0u8; 6];
    maxp[0..4].copy_from_slice(&0x00005000u32.to_be_bytes());
    maxp[4..6].copy_from_slice(&(GK_GLYPHS as u16).to_be_bytes());
    // glyph k has k bytes of data
    let mut loca: Vec<u8> = vec![];
    let mut glyf: Vec<u8> = vec![];
    for k in 0..GK_GLYPHS {
        be32(&mut loca, glyf.len() as u32);
        glyf.extend(std::iter::repeat(b'a' + k as u8).take(2 * (k % 4)));
    }
    be32(&mut loca, glyf.len() as u32);
    sfnt(vec![(*b"IFT ", ift_map(2, 3)), (*b"head", minimal_head(1000, true)), (*b"maxp", maxp), (*b"loca", loca), (*b"glyf", glyf), (*b"tab4", b"unchanged\n".to_vec())])
}

#[derive(Clone)]
struct GkPatch {
    format: [u8; 4],
    flags: u8,
    compat: [u32; 4],
    max_len: Option<u32>,
    glyph_count: Option<u32>,
    table_count: Option<u8>,
    ids: Vec<u32>,
    tables: Vec<[u8; 4]>,
    /// per (table, glyph) data lengths
    lens: Vec<usize>,
    offset_overrides: Vec<(usize, u32)>,
    n_offsets: Option<usize>,
    payload_truncate: Option<usize>,
}

impl GkPatch {
    fn base(ids: &[u32]) -> GkPatch {
        GkPatch {
            format: *b"ifgk",
            flags: 0,
            compat: [1, 2, 3, 4],
            max_len: None,
            glyph_count: None,
            table_count: None,
            ids: ids.to_vec(),
            tables: vec![*b"glyf"],
            lens: ids.iter().map(|i| 2 + (*i as usize % 3) * 2).collect(),
            offset_overrides: vec![],
            n_offsets: None,
            payload_truncate: None,
        }
    }
    fn payload(&self) -> Vec<u8> {
        let mut pl: Vec<u8> = vec![];
        be32(&mut pl, self.glyph_count.unwrap_or(self.ids.len() as u32));
        pl.push(self.table_count.unwrap_or(self.tables.len() as u8));
        for i in &self.ids {
            if self.flags & 1 != 0 {
                be24(&mut pl, *i);
            } else {
                be16(&mut pl, *i as u16);
            }
        }
        for t in &self.tables {
            pl.extend_from_slice(t);
        }
        let n_off = self.n_offsets.unwrap_or(self.ids.len() * self.tables.len() + 1);
        let first = pl.len() + 4 * n_off;
        let mut offs: Vec<u32> = vec![first as u32];
        let mut pos = first;
        for k in 0..self.ids.len() * self.tables.len() {
            pos += self.lens.get(k % self.lens.len().max(1)).copied().unwrap_or(2);
            offs.push(pos as u32);
        }
        while offs.len() < n_off {
            offs.push(pos as u32);
        }
        offs.truncate(n_off);
        for (i, v) in &self.offset_overrides {
            if let Some(o) = offs.get_mut(*i) {
                *o = *v;
            }
        }
        for o in &offs {
            be32(&mut pl, *o);
        }
        pl.extend((0..pos - first).map(|k| b'A' + (k % 26) as u8));
        if let Some(l) = self.payload_truncate {
            pl.truncate(l);
        }
        pl
    }
    fn bytes(&self, raw: bool) -> Vec<u8> {
        let pl = self.payload();
        let mut t: Vec<u8> = self.format.to_vec();
        be32(&mut t, 0);
        t.push(self.flags);
        for w in self.compat {
            be32(&mut t, w);
        }
        be32(&mut t, self.max_len.unwrap_or(pl.len() as u32));
        if raw {
            t.extend_from_slice(&pl);
        } else {
            t.extend_from_slice(&super::brotli_stored(&[pl]));
        }
        t
    }
}

/// variants of a pair of glyph-keyed patches (the second one stays well formed unless the group says otherwise)
fn gk_variants(group: &str, raw: bool) -> Vec<(String, Vec<u8>, Vec<u8>)> {
    let ids1: Vec<u32> = vec![1, 3, 4, 7];
    let second = GkPatch::base(&[2, 7, 9]).bytes(raw);
    let base = GkPatch::base(&ids1);
    let mut v: Vec<(String, Vec<u8>, Vec<u8>)> = vec![];
    let mut add = |name: String, p: &GkPatch| v.push((name, p.bytes(raw), second.clone()));
    let ng = GK_GLYPHS as u32;
    match group {
        "ids" => {
            let lists: Vec<Vec<u32>> = vec![
                vec![],
                vec![0],
                vec![3, 1, 4, 7],
                vec![7, 4, 3, 1],
                vec![1, 1, 3, 3],
                vec![3, 3, 3, 3],
                vec![1, 3, ng - 1, ng],
                vec![ng, ng + 1, 65534, 65535],
                vec![0, 1, 2, 3, 4, 5, 6, 7, 8, 9, 10, 11],
                vec![0, 1, 2, 3, 4, 5, 6, 7, 8, 9, 10, 11, 12],
                vec![65535],
                vec![1, 65536 + 3, 70000, 0xFF_FFFF],
            ];
            for l in lists {
                for wide in [0u8, 1, 0xFE, 0xFF] {
                    let mut p = GkPatch::base(&l);
                    p.flags = wide;
                    add(format!("ids={l:?}:flags={wide}").replace(' ', ""), &p);
                }
            }
            for gc in [0u32, 1, 3, 5, 6, 1000, 0x0100_0000, u32::MAX] {
                let mut p = base.clone();
                p.glyph_count = Some(gc);
                add(format!("glyph_count={gc}"), &p);
            }
        }
        "offsets" => {
            let n = ids1.len() + 1;
            let pl = base.payload();
            let first = (pl.len() - base.lens.iter().take(ids1.len()).sum::<usize>()) as u32;
            let total = pl.len() as u32;
            for i in 0..n {
                for val in [0u32, 1, first - 1, first, first + 1, total - 1, total, total + 1, u32::MAX, 0x8000_0000] {
                    let mut p = base.clone();
                    p.offset_overrides.push((i, val));
                    add(format!("off[{i}]={val}"), &p);
                }
            }
            for i in 0..n - 1 {
                // gap 0 and descending pairs
                for (a, b) in [(first + 2, first + 2), (first + 4, first + 2), (total, total), (total, first), (total + 4, total + 8)] {
                    let mut p = base.clone();
                    p.offset_overrides.push((i, a));
                    p.offset_overrides.push((i + 1, b));
                    add(format!("off[{i}]={a},off[{}]={b}", i + 1), &p);
                }
            }
            for k in [0usize, 1, n - 1, n + 1, 2 * n] {
                let mut p = base.clone();
                p.n_offsets = Some(k);
                add(format!("offsets-array={k}"), &p);
            }
        }
        "tables" => {
            let lists: Vec<Vec<[u8; 4]>> = vec![
                vec![],
                vec![*b"glyf", *b"glyf"],
                vec![*b"gvar"],
                vec![*b"glyf", *b"gvar"],
                vec![*b"gvar", *b"glyf"],
                vec![*b"CFF ", *b"CFF2"],
                vec![*b"tab4"],
                vec![*b"IFT "],
                vec![*b"loca"],
                vec![[0; 4]],
                (0..255).map(|k| if k % 2 == 0 { *b"glyf" } else { [b'q', b'0' + (k / 100) as u8, b'0' + (k / 10 % 10) as u8, b'0' + (k % 10) as u8] }).collect(),
                (0..255).map(|_| *b"glyf").collect(),
            ];
            for l in lists {
                let mut p = base.clone();
                p.tables = l.clone();
                add(format!("tables={}x{}", l.len(), l.first().map(|t| hex(t)).unwrap_or_default()), &p);
            }
            for tc in [0u8, 1, 2, 3, 254, 255] {
                let mut p = base.clone();
                p.table_count = Some(tc);
                add(format!("table_count={tc}"), &p);
            }
        }
        "header" => {
            let l = base.payload().len() as u32;
            for m in [0u32, 1, l - 1, l, l + 1, 0x7FFF_FFFF, u32::MAX] {
                let mut p = base.clone();
                p.max_len = Some(m);
                add(format!("max_len={m}"), &p);
            }
            for f in [*b"ifgk", *b"iftk", [0; 4]] {
                let mut p = base.clone();
                p.format = f;
                add(format!("format={}", hex(&f)), &p);
            }
            for c in [[1u32, 2, 3, 5], [6, 7, 8, 9], [0; 4]] {
                let mut p = base.clone();
                p.compat = c;
                add(format!("compat={c:?}").replace(' ', ""), &p);
            }
            // the second patch repeats / conflicts with the first
            v.push(("same-patch-twice".into(), base.bytes(raw), base.bytes(raw)));
            v.push(("second=table-keyed".into(), base.bytes(raw), TkPatch::base(raw).bytes()));
        }
        _ => {
            let l = base.payload().len();
            for cut in 0..l {
                let mut p = base.clone();
                p.payload_truncate = Some(cut);
                add(format!("payload-truncate={cut}"), &p);
            }
        }
    }
    v
}

pub const TK_GROUPS: [&str; 7] = ["offsets", "count", "flags", "tags", "maxlen", "header", "truncate"];
pub const GK_GROUPS: [&str; 5] = ["ids", "offsets", "tables", "header", "truncate"];

fn apply_all(font_bytes: &[u8], patches: &[&[u8]], builtin: bool) -> u32 {
    use incremental_font_transfer::font_patch::IncrementalFontPatchBase;
    use incremental_font_transfer::patch_group::{PatchGroup, PatchInfo, UriStatus};
    use incremental_font_transfer::patchmap::{intersecting_patches, PatchFormat, SubsetDefinition};
    use shared_brotli_patch_decoder::{BuiltInBrotliDecoder, NoopBrotliDecoder};
    let Ok(font) = FontRef::new(font_bytes) else { return 0 };
    let def = SubsetDefinition::all();
    let mut oks = 0;
    // high level
    if let Ok(group) = PatchGroup::select_next_patches(font.clone(), &def) {
        let uris: Vec<String> = group.uris().map(|s| s.to_string()).collect();
        let mut status: HashMap<String, UriStatus> = HashMap::new();
        for (i, u) in uris.iter().enumerate() {
            status.insert(u.clone(), UriStatus::Pending(patches[i % patches.len()].to_vec()));
        }
        let r = if builtin { group.apply_next_patches(&mut status) } else { group.apply_next_patches_with_decoder(&mut status, &NoopBrotliDecoder) };
        if let Ok(bytes) = r {
            oks += 1;
            // the result is a font again: look at it and select once more
            if let Ok(f2) = FontRef::new(&bytes) {
                let _ = intersecting_patches(&f2, &def).map(|v| v.len());
                let _ = f2.table_directory.num_tables();
            }
        }
    }
    // the lower-level entry points
    if let Ok(uris) = intersecting_patches(&font, &def) {
        let infos: Vec<(PatchInfo, bool)> = uris.into_iter().filter_map(|u| {
            let glyph_keyed = matches!(u.encoding(), PatchFormat::GlyphKeyed);
            PatchInfo::try_from(u).ok().map(|i| (i, glyph_keyed))
        }).collect();
        if let Some((info, _)) = infos.first() {
            let r = if builtin { font.apply_table_keyed_patch(info, patches[0], &BuiltInBrotliDecoder) } else { font.apply_table_keyed_patch(info, patches[0], &NoopBrotliDecoder) };
            oks += r.is_ok() as u32;
            let r = font_bytes.apply_table_keyed_patch(info, patches[0], &NoopBrotliDecoder);
            oks += r.is_ok() as u32;
        }
        let pairs: Vec<(&PatchInfo, &[u8])> = infos.iter().enumerate().map(|(i, (info, _))| (info, patches[i % patches.len()])).collect();
        let r = if builtin { font.apply_glyph_keyed_patches(pairs.iter().copied(), &BuiltInBrotliDecoder) } else { font.apply_glyph_keyed_patches(pairs.iter().copied(), &NoopBrotliDecoder) };
        oks += r.is_ok() as u32;
        let r = font.apply_glyph_keyed_patches(pairs.iter().copied().rev(), &NoopBrotliDecoder);
        oks += r.is_ok() as u32;
    }
    oks
}

fn iftstruct_case(kind: &str, group: &str, only: Option<usize>) -> String {
    let mut n = 0u64;
    let mut oks = 0u64;
    let mut panics = 0u64;
    let mut sites: Vec<(String, String)> = vec![];
    for builtin in [true, false] {
        let raw = !builtin;
        let (font, variants): (Vec<u8>, Vec<(String, Vec<u8>, Vec<u8>)>) = if kind == "tk" {
            (tk_font(), tk_variants(group, raw).into_iter().map(|(n, b)| (n, b.clone(), b)).collect())
        } else {
            (gk_font(), gk_variants(group, raw))
        };
        for (i, (name, p1, p2)) in variants.iter().enumerate() {
            if only.is_some_and(|o| o != i) {
                continue;
            }
            n += 1;
            match catch(|| apply_all(&font, &[p1, p2], builtin)) {
                Ok(k) => oks += k as u64,
                Err(m) => {
                    panics += 1;
                    let site = last_loc();
                    if sites.len() < 6 && !sites.iter().any(|(s, _)| *s == site) {
                        sites.push((site, format!("variant={name} decoder={} replay=[iftstruct kind={kind} group={group} one={i}] patch={} msg=[{}]", if builtin { "builtin" } else { "noop" }, hex(&p1[..p1.len().min(300)]), m.replace('\n', " ").chars().take(140).collect::<String>())));
                    }
                }
            }
        }
    }
    if sites.is_empty() {
        format!("ok variants={n} ok_results={oks}")
    } else {
        let parts: Vec<String> = sites.iter().map(|(s, d)| format!("at=[{s}] {d}")).collect();
        format!("panic count={panics} of {n} ;; {}", parts.join(" ;; "))
    }
}

pub fn iftstruct_jobs() -> Vec<Job> {
    let name = "ift-patch-structural-extremes-return-value";
    let mut v = vec![];
    for g in TK_GROUPS {
        v.push(job(name, format!("iftstruct kind=tk group={g}")));
    }
    for g in GK_GROUPS {
        v.push(job(name, format!("iftstruct kind=gk group={g}")));
    }
    v
}

pub fn child(cmd: &str, t: &[&str]) -> String {
    let get = |k: &str| -> Option<&str> { t.iter().find_map(|kv| kv.strip_prefix(k).and_then(|r| r.strip_prefix('='))) };
    match cmd {
        "drawmut" => {
            let only = get("one").and_then(|s| {
                let p: Vec<&str> = s.split(':').collect();
                if p.len() == 3 {
                    Some((p[0].parse().ok()?, p[1].parse().ok()?, p[2].parse().ok()?))
                } else {
                    None
                }
            });
            drawmut_case(get("font").unwrap_or(""), get("table").unwrap_or(""), get("mode").unwrap_or("fields"), get("vals") == Some("full"), only)
        }
        "iftstruct" => iftstruct_case(get("kind").unwrap_or("tk"), get("group").unwrap_or(""), get("one").and_then(|o| o.parse().ok())),
        _ => "bad-request".into(),
    }
}
