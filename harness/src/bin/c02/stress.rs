//! C02 — depth / size stress and capacity-boundary families (totality exploration, oracles on the real code only).
//!
//! Every construct in scope that recurses over font / patch data or stores font-controlled items in a fixed-capacity
//! array gets SYNTHETIC inputs (built here from a few parameters, never taken from corpus fonts) that sit at
//! limit-1 / limit / limit+1 and far beyond (10^3 .. 10^5).  One request = one child-process job; the operation runs
//! on an explicit SMALL thread stack (1 MiB) so that recursion linear in the input size overflows with modest inputs.
//! Oracle: the operation returns a value (Ok / Err / None) within the time cap: no panic, abort, signal, timeout.
//!
//! Request line: `stress <family> key=value ...` (replayable: `printf 'stress ...\n' | c02 --child`).
use super::{all_engines, all_targets, catch, last_loc, NullPainter, NullPen};
use fv_harness::common::*;
use read_fonts::types::{F2Dot14, GlyphId, Tag};
use read_fonts::FontRef;
use skrifa::instance::{LocationRef, Size};
use skrifa::outline::{DrawSettings, HintingInstance, HintingOptions, Target};
use skrifa::MetadataProvider;
use std::collections::HashMap;

const STRESS_STACK: usize = 1024 * 1024;

pub struct Job {
    pub oracle: &'static str,
    pub req: String,
}

pub fn job(oracle: &'static str, req: String) -> Job {
    Job { oracle, req }
}

struct Params<'a>(HashMap<&'a str, &'a str>);

impl<'a> Params<'a> {
    fn new(t: &[&'a str]) -> Self {
        Params(t.iter().filter_map(|kv| kv.split_once('=')).collect())
    }
    fn s(&self, k: &str) -> &'a str {
        self.0.get(k).copied().unwrap_or("")
    }
    fn n(&self, k: &str) -> usize {
        self.0.get(k).and_then(|v| v.parse().ok()).unwrap_or(0)
    }
    fn f(&self, k: &str, d: f32) -> f32 {
        self.0.get(k).and_then(|v| v.parse().ok()).unwrap_or(d)
    }
    fn hex(&self, k: &str) -> Vec<u8> {
        unhex(self.0.get(k).copied().unwrap_or("-"))
    }
}

/// child side: `t` = tokens after `stress`
pub fn child(t: &[&str]) -> String {
    if t.is_empty() {
        return "bad-request".into();
    }
    let fam = t[0].to_string();
    let rest: Vec<String> = t[1..].iter().map(|s| s.to_string()).collect();
    let stack = rest.iter().find_map(|kv| kv.strip_prefix("stack=").and_then(|v| v.parse::<usize>().ok())).map(|k| k * 1024).unwrap_or(STRESS_STACK);
    let h = std::thread::Builder::new()
        .stack_size(stack)
        .spawn(move || {
            let toks: Vec<&str> = rest.iter().map(|s| s.as_str()).collect();
            let p = Params::new(&toks);
            match catch(|| dispatch(&fam, &p)) {
                Ok(r) => r,
                Err(m) => format!("panic at=[{}] {}", last_loc(), m.replace('\n', " ")),
            }
        })
        .unwrap();
    h.join().unwrap_or_else(|_| "panic thread".into())
}

fn dispatch(fam: &str, p: &Params) -> String {
    match fam {
        "colr" => colr_case(p),
        "ift2" => ift2_case(p),
        "cffhint" => cffhint_case(p),
        "glyfnest" => glyfnest_case(p),
        "cffsubr" => cffsubr_case(p),
        "shape" => shape_case(p),
        "gvar" => gvar_case(p),
        "strings" => strings_case(p),
        "ifturi" => ifturi_case(p),
        "iftapply" => iftapply_case(p),
        "gsubnest" => gsubnest_case(p),
        "cfffd" => cfffd_case(p),
        "cffpoints" => cffpoints_case(p),
        "hbcontour" => hbcontour_case(p),
        _ => "bad-request".into(),
    }
}

pub fn sfnt(tables: Vec<([u8; 4], Vec<u8>)>) -> Vec<u8> {
    let mut fb = write_fonts::FontBuilder::new();
    for (tag, data) in tables {
        fb.add_raw(Tag::new(&tag), data);
    }
    fb.build()
}

pub fn be16(out: &mut Vec<u8>, v: u16) {
    out.extend_from_slice(&v.to_be_bytes());
}
pub fn be24(out: &mut Vec<u8>, v: u32) {
    out.extend_from_slice(&v.to_be_bytes()[1..]);
}
pub fn be32(out: &mut Vec<u8>, v: u32) {
    out.extend_from_slice(&v.to_be_bytes());
}

pub fn minimal_head(upem: u16, loca_long: bool) -> Vec<u8> {
    let mut h = vec![0u8; 54];
    h[0..4].copy_from_slice(&0x00010000u32.to_be_bytes());
    h[12..16].copy_from_slice(&0x5F0F3CF5u32.to_be_bytes());
    h[18..20].copy_from_slice(&upem.to_be_bytes());
    h[50..52].copy_from_slice(&(loca_long as u16).to_be_bytes());
    h
}

// ------------------------------------------------------------------------------------------------
// COLR v1 paint graphs
// ------------------------------------------------------------------------------------------------

/// (format, total table size) of the single-child transform-like paints; the child offset is the Offset24 at byte 1
const TRANSFORM_KINDS: [(&str, u8, usize); 20] = [
    ("transform", 12, 7 + 24),
    ("vartransform", 13, 7 + 28),
    ("translate", 14, 8),
    ("vartranslate", 15, 12),
    ("scale", 16, 8),
    ("varscale", 17, 12),
    ("scalecenter", 18, 12),
    ("varscalecenter", 19, 16),
    ("scaleuniform", 20, 6),
    ("varscaleuniform", 21, 10),
    ("scaleuniformcenter", 22, 10),
    ("varscaleuniformcenter", 23, 14),
    ("rotate", 24, 6),
    ("varrotate", 25, 10),
    ("rotatecenter", 26, 10),
    ("varrotatecenter", 27, 14),
    ("skew", 28, 8),
    ("varskew", 29, 12),
    ("skewcenter", 30, 12),
    ("varskewcenter", 31, 16),
];

pub const COLR_KINDS: [&str; 28] = [
    "transform", "vartransform", "translate", "vartranslate", "scale", "varscale", "scalecenter", "varscalecenter", "scaleuniform",
    "varscaleuniform", "scaleuniformcenter", "varscaleuniformcenter", "rotate", "varrotate", "rotatecenter", "varrotatecenter", "skew",
    "varskew", "skewcenter", "varskewcenter", "glyph", "compsrc", "compback", "compboth", "layers", "colrglyph", "mixed", "mixedglyph",
];

struct ColrBuilder {
    paints: Vec<u8>,
    /// (glyph id, position of the root paint in `paints`)
    base: Vec<(u16, usize)>,
    /// positions of the layer paints in `paints`
    layers: Vec<usize>,
}

impl ColrBuilder {
    fn solid(&mut self) -> usize {
        let pos = self.paints.len();
        self.paints.push(2);
        be16(&mut self.paints, 0);
        be16(&mut self.paints, 0x4000);
        pos
    }
    /// a node of `kind` whose (main) child is the paint that will be appended directly after it
    fn node(&mut self, kind: &str, i: usize) {
        let p = &mut self.paints;
        if let Some((_, fmt, size)) = TRANSFORM_KINDS.iter().find(|(k, _, _)| *k == kind) {
            let start = p.len();
            p.push(*fmt);
            be24(p, *size as u32);
            if *fmt == 12 || *fmt == 13 {
                be24(p, 7); // transformOffset: the Affine2x3 follows the header
                for v in [0x10000u32, 0, 0, 0x10000, 0x10000, 0] {
                    be32(p, v);
                }
                if *fmt == 13 {
                    be32(p, if i % 2 == 0 { 0xFFFF_FFFF } else { 0 });
                }
            } else {
                let is_var = fmt % 2 == 1;
                let fixed = size - 4 - if is_var { 4 } else { 0 };
                for k in 0..fixed {
                    p.push(if k % 2 == 0 { 0x10 } else { 0 });
                }
                if is_var {
                    be32(p, if i % 2 == 0 { 0xFFFF_FFFF } else { (i % 7) as u32 });
                }
            }
            debug_assert_eq!(p.len() - start, *size);
            return;
        }
        match kind {
            "glyph" => {
                p.push(10);
                be24(p, 6);
                be16(p, 1);
            }
            // PaintComposite: the chain continues through one side, the other side is a local PaintSolid
            "compsrc" | "compback" => {
                p.push(32);
                let (chain, leaf) = (13u32, 8u32);
                be24(p, if kind == "compsrc" { chain } else { leaf });
                p.push((i % 28) as u8);
                be24(p, if kind == "compsrc" { leaf } else { chain });
                p.push(2);
                be16(p, 0);
                be16(p, 0x4000);
            }
            // both sides are the next node: a DAG whose traversal visits 2^depth paths
            "compboth" => {
                p.push(32);
                be24(p, 8);
                p.push(3);
                be24(p, 8);
            }
            "layers" => {
                // PaintColrLayers with one layer: the layer paint is the next node
                let li = self.layers.len() as u32;
                p.push(1);
                p.push(1);
                be32(p, li);
                let next = p.len();
                self.layers.push(next);
            }
            "colrglyph" => {
                // PaintColrGlyph -> a new base glyph whose paint is the next node
                let gid = (self.base.len() as u32).min(65535) as u16;
                p.push(11);
                be16(p, gid);
                let next = p.len();
                self.base.push((gid, next));
            }
            _ => {}
        }
    }

    fn table(&self) -> Vec<u8> {
        let bgl_start = 34usize;
        let bgl_len = 4 + 6 * self.base.len();
        let ll_start = bgl_start + bgl_len;
        let ll_len = if self.layers.is_empty() { 0 } else { 4 + 4 * self.layers.len() };
        let p_start = ll_start + ll_len;
        let mut t: Vec<u8> = vec![];
        be16(&mut t, 1);
        be16(&mut t, 0);
        be32(&mut t, 0);
        be32(&mut t, 0);
        be16(&mut t, 0);
        be32(&mut t, bgl_start as u32);
        be32(&mut t, if ll_len > 0 { ll_start as u32 } else { 0 });
        be32(&mut t, 0);
        be32(&mut t, 0);
        be32(&mut t, 0);
        be32(&mut t, self.base.len() as u32);
        for (gid, pos) in &self.base {
            be16(&mut t, *gid);
            be32(&mut t, (p_start + pos - bgl_start) as u32);
        }
        if ll_len > 0 {
            be32(&mut t, self.layers.len() as u32);
            for pos in &self.layers {
                be32(&mut t, (p_start + pos - ll_start) as u32);
            }
        }
        t.extend_from_slice(&self.paints);
        t
    }
}

const MIXED: [&str; 10] = ["translate", "layers", "varrotate", "compsrc", "colrglyph", "skewcenter", "compback", "transform", "layers", "varscaleuniform"];

/// chain of `depth` nesting paints of `kind` below base glyph 0, ending in a PaintSolid (acyclic) or in a reference
/// back to the root (cyclic: PaintColrGlyph 0, or layer 0 for the `layers` kind)
fn colr_chain(kind: &str, depth: usize, cyc: bool) -> Vec<u8> {
    let mut b = ColrBuilder { paints: vec![], base: vec![(0, 0)], layers: vec![] };
    for i in 0..depth {
        let k = match kind {
            "mixed" => MIXED[i % MIXED.len()],
            // PaintGlyph only near the root: every nested PaintGlyph doubles the work (C13's recorded finding)
            "mixedglyph" => {
                if i < 6 && i % 2 == 1 {
                    "glyph"
                } else {
                    MIXED[i % MIXED.len()]
                }
            }
            k => k,
        };
        if k == "colrglyph" && b.base.len() >= 65535 {
            b.node("translate", i);
        } else {
            b.node(k, i);
        }
    }
    if cyc {
        if kind == "layers" && !b.layers.is_empty() {
            b.paints.push(1);
            b.paints.push(1);
            be32(&mut b.paints, 0);
        } else {
            b.paints.push(11);
            be16(&mut b.paints, 0);
        }
    } else {
        b.solid();
    }
    b.table()
}

/// wide graphs: `n` layers below one base glyph, reached through PaintColrLayers nodes of 255 layers each
/// (`levels` = 1: the root paints a window of 255 layers; 2: 255 x 255; ...), every leaf a PaintSolid
fn colr_wide(n: usize, levels: usize) -> Vec<u8> {
    let mut b = ColrBuilder { paints: vec![], base: vec![(0, 0)], layers: vec![] };
    // layer list: n solids first
    let solid = {
        // root placeholder (6 bytes) first so that the root paint is at position 0
        b.paints.extend_from_slice(&[1, 255.min(n) as u8, 0, 0, 0, 0]);
        b.solid()
    };
    for _ in 0..n {
        b.layers.push(solid);
    }
    let mut first = 0u32;
    for _ in 1..levels {
        // 255 PaintColrLayers nodes, each over the previous level's window
        let start = b.layers.len() as u32;
        for _ in 0..255 {
            let pos = b.paints.len();
            b.paints.push(1);
            b.paints.push(255.min(n) as u8);
            be32(&mut b.paints, first);
            b.layers.push(pos);
        }
        first = start;
    }
    b.paints[2..6].copy_from_slice(&first.to_be_bytes());
    b.table()
}

/// COLR v0: one base glyph with `n` layer records
fn colr_v0(n: usize) -> Vec<u8> {
    let mut t: Vec<u8> = vec![];
    be16(&mut t, 0);
    be16(&mut t, 1);
    be32(&mut t, 14);
    be32(&mut t, 20);
    be16(&mut t, n.min(65535) as u16);
    be16(&mut t, 0);
    be16(&mut t, 0);
    be16(&mut t, n.min(65535) as u16);
    for i in 0..n.min(65535) {
        be16(&mut t, (i % 3) as u16);
        be16(&mut t, (i % 5) as u16);
    }
    t
}

/// one gradient paint (format 4 .. 9) with a colour line of `stops` stops (MAX_INLINE_COLOR_STOPS = 32)
fn colr_gradient(fmt: u8, stops: usize, extend: u8, same_offset: bool) -> Vec<u8> {
    let mut b = ColrBuilder { paints: vec![], base: vec![(0, 0)], layers: vec![] };
    let p = &mut b.paints;
    let var = fmt % 2 == 1;
    let body = match fmt {
        4 | 5 | 6 | 7 => 12,
        _ => 8,
    };
    let size = 4 + body + if var { 4 } else { 0 };
    p.push(fmt);
    be24(p, size as u32);
    for k in 0..body / 2 {
        be16(p, [0u16, 10, 500, 0x0100, 20, 700][k % 6]);
    }
    if var {
        be32(p, 0);
    }
    p.push(extend);
    be16(p, stops.min(65535) as u16);
    for i in 0..stops.min(65535) {
        let off = if same_offset { 0x2000 } else { ((i * 0x4000) / stops.max(1)) as u16 };
        be16(p, off);
        be16(p, (i % 3) as u16);
        be16(p, 0x4000);
        if var {
            be32(p, if i % 2 == 0 { 0xFFFF_FFFF } else { i as u32 });
        }
    }
    b.table()
}

fn colr_case(p: &Params) -> String {
    let kind = p.s("kind");
    let depth = p.n("depth");
    let colr = match kind {
        "gradient" => colr_gradient(p.n("fmt") as u8, depth, p.n("extend") as u8, p.n("same") == 1),
        "wide" => colr_wide(depth, p.n("levels").max(1)),
        "v0" => colr_v0(depth),
        _ => colr_chain(kind, depth, p.n("cyc") == 1),
    };
    let bytes = colr.len();
    let data = sfnt(vec![(*b"COLR", colr), (*b"head", minimal_head(1000, false))]);
    let Ok(font) = FontRef::new(&data) else { return "font-failed".into() };
    let cg = font.color_glyphs();
    let mut out = format!("ok bytes={bytes}");
    for (fmt, fname) in [(skrifa::color::ColorGlyphFormat::ColrV1, "v1"), (skrifa::color::ColorGlyphFormat::ColrV0, "v0")] {
        let Some(g) = cg.get_with_format(GlyphId::new(0), fmt) else { continue };
        let mut painter = NullPainter(0);
        let r = g.paint(LocationRef::default(), &mut painter);
        let class = match &r {
            Ok(()) => "Ok".to_string(),
            Err(e) => format!("{e:?}").split(|c| c == '(' || c == ' ').next().unwrap_or("?").to_string(),
        };
        let coords = [F2Dot14::from_f32(0.5), F2Dot14::from_f32(-1.0)];
        let mut painter2 = NullPainter(0);
        let r2 = g.paint(LocationRef::new(&coords), &mut painter2);
        let _ = g.bounding_box(LocationRef::default(), Size::new(16.0));
        out.push_str(&format!(" {fname}={class},{} calls={}", if r2.is_ok() { "Ok" } else { "Err" }, painter.0));
    }
    out
}

pub fn colr_jobs(thorough: bool) -> Vec<Job> {
    const LIMIT: usize = 64;
    let mut v = vec![];
    let name = "stress-colr-paint-returns-value";
    for (ki, kind) in COLR_KINDS.iter().enumerate() {
        let mut depths: Vec<usize> = vec![LIMIT - 2, LIMIT - 1, LIMIT, LIMIT + 1, 1000, 100_000];
        match *kind {
            // 2^depth paths below the limit (C13-nested-paintglyph-exponential and the DAG analogue): only shallow
            // and over-the-limit instances here
            "glyph" | "compboth" => depths = vec![3, 12, LIMIT, LIMIT + 1, 1000, 100_000],
            _ => {}
        }
        if thorough {
            depths.extend_from_slice(&[1, 2, 32, 10_000, 200_000, 1_000_000]);
        }
        if *kind == "glyph" || *kind == "compboth" {
            // below the limit only shallow instances here; the 2^depth cost is timed by `colr_exp_jobs`
            depths.retain(|d| *d <= 20 || *d >= LIMIT);
        }
        for d in depths {
            // quick tier: the largest size for every kind, the boundary sizes for every kind
            for cyc in [0, 1] {
                if cyc == 1 && (*kind == "glyph" || *kind == "compboth") && d < LIMIT {
                    continue;
                }
                if !thorough && cyc == 1 && d > 1000 && ki % 4 != 0 {
                    continue;
                }
                v.push(job(name, format!("stress colr kind={kind} depth={d} cyc={cyc}")));
            }
        }
    }
    // the same chains at 10^3 on a 256 KiB stack: recursion linear in the input shows with modest inputs
    for kind in COLR_KINDS.iter() {
        for d in [LIMIT - 1, 1000, 3000] {
            if (*kind == "glyph" || *kind == "compboth") && d < LIMIT {
                continue;
            }
            v.push(job(name, format!("stress colr kind={kind} depth={d} cyc=0 stack=256")));
        }
    }
    for (n, levels) in [(1, 1), (254, 1), (255, 1), (256, 1), (100_000, 1), (255, 2)] {
        v.push(job(name, format!("stress colr kind=wide depth={n} levels={levels}")));
    }
    if thorough {
        v.push(job(name, "stress colr kind=wide depth=255 levels=3".into()));
    }
    for n in [0, 1, 65534, 65535] {
        v.push(job(name, format!("stress colr kind=v0 depth={n}")));
    }
    for fmt in 4..=9 {
        for stops in [0usize, 1, 2, 31, 32, 33, 34, 1000, 65535] {
            for extend in [0, 1, 2, 3] {
                for same in [0, 1] {
                    if !thorough && (extend + same + stops) % 2 == 1 && stops != 32 {
                        continue;
                    }
                    v.push(job(name, format!("stress colr kind=gradient fmt={fmt} depth={stops} extend={extend} same={same}")));
                }
            }
        }
    }
    v
}

/// 2^depth paint visits from a few hundred bytes: nested PaintGlyph (every level defeats the enclosing fill
/// optimisation and traverses its subtree twice) and PaintComposite whose source and backdrop are the same subtree.
/// depth 20 must return; depth 40 is the recorded finding (no work budget in the traversal).
pub fn colr_exp_jobs() -> Vec<(String, usize, String)> {
    let mut v = vec![];
    for kind in ["glyph", "compboth"] {
        for d in [20usize, 40] {
            v.push((kind.to_string(), d, format!("stress colr kind={kind} depth={d} cyc=0")));
        }
    }
    v
}

// ------------------------------------------------------------------------------------------------
// IFT format 2 mapping tables with child entry graphs
// ------------------------------------------------------------------------------------------------

/// Format 2 'IFT ' table with n + 1 entries.  Entry 0 (the root of every graph below) carries codepoints {5..=22};
/// entry k >= 1 has no subset definition of its own and child references to prior entries only:
///   chain    child k-1
///   fanin2   children k-1, k-2                       (Fibonacci many paths: needs the memo)
///   fanin127 children k-1 .. k-127                   (maximal child count)
///   star     child 0 for every entry, the last entry has 127 children spread over the table
/// `ign`: 0 = no entry ignored, 1 = all but the last ignored, 2 = every other entry ignored.
fn ift2_table(shape: &str, n: usize, conj: bool, ign: usize, patch_format: u8, template: &[u8]) -> Vec<u8> {
    let mut t: Vec<u8> = vec![2, 0, 0, 0, 0];
    for w in [1u32, 2, 3, 4] {
        be32(&mut t, w);
    }
    t.push(patch_format);
    be24(&mut t, n as u32 + 1);
    let entries_offset_pos = t.len();
    be32(&mut t, 0);
    be32(&mut t, 0);
    be16(&mut t, template.len() as u16);
    t.extend_from_slice(template);
    let eo = t.len() as u32;
    t[entries_offset_pos..entries_offset_pos + 4].copy_from_slice(&eo.to_be_bytes());
    const IGNORED: u8 = 0b0100_0000;
    let ignored = |k: usize| -> u8 {
        match ign {
            1 if k != n => IGNORED,
            2 if k % 2 == 0 => IGNORED,
            _ => 0,
        }
    };
    t.push(ignored(0) | 0b0010_0000);
    be16(&mut t, 5);
    t.extend_from_slice(&[0b0000_1101, 0b0000_0011, 0b0011_0001]);
    for k in 1..=n {
        let children: Vec<usize> = match shape {
            "fanin2" => {
                if k >= 2 {
                    vec![k - 1, k - 2]
                } else {
                    vec![0]
                }
            }
            "fanin127" => (k.saturating_sub(127)..k).rev().collect(),
            "star" => {
                if k == n {
                    (0..127.min(n)).map(|j| j * n / 127.min(n)).collect()
                } else {
                    vec![0]
                }
            }
            _ => vec![k - 1],
        };
        t.push(ignored(k) | 0b0000_0010);
        t.push(children.len() as u8 | if conj { 0x80 } else { 0 });
        for c in children {
            be24(&mut t, c as u32);
        }
    }
    t
}

fn ift2_case(p: &Params) -> String {
    use incremental_font_transfer::patch_group::PatchGroup;
    use incremental_font_transfer::patchmap::{intersecting_patches, SubsetDefinition};
    use read_fonts::collections::IntSet;
    let n = p.n("n");
    let table = ift2_table(p.s("shape"), n, p.n("conj") == 1, p.n("ign"), p.n("fmt").max(1) as u8, b"//foo.bar/{id}");
    let bytes = table.len();
    let data = sfnt(vec![(*b"IFT ", table)]);
    let Ok(font) = FontRef::new(&data) else { return "font-failed".into() };
    let def = match p.s("root") {
        "hit" => {
            let mut s = IntSet::<u32>::empty();
            s.insert(6);
            SubsetDefinition::codepoints(s)
        }
        "all" => SubsetDefinition::all(),
        _ => {
            let mut s = IntSet::<u32>::empty();
            s.insert(0x41);
            SubsetDefinition::codepoints(s)
        }
    };
    let a = match intersecting_patches(&font, &def) {
        Ok(v) => {
            let mut l = 0usize;
            for u in v.iter().take(100) {
                l += u.uri_string().map(|s| s.len()).unwrap_or(0);
            }
            format!("{}:{l}", v.len())
        }
        Err(e) => format!("err:{e:?}").replace(' ', "_"),
    };
    let b = match PatchGroup::select_next_patches(font.clone(), &def) {
        Ok(g) => format!("{}:{}", g.has_uris(), g.uris().count()),
        Err(e) => format!("err:{e:?}").replace(' ', "_"),
    };
    format!("ok bytes={bytes} intersecting={a} selected={b}")
}

pub fn ift2_jobs(thorough: bool) -> Vec<Job> {
    let name = "stress-ift-format2-child-graph-returns-value";
    let mut v = vec![];
    let sizes: &[usize] = if thorough { &[1, 2, 100, 1000, 10_000, 100_000, 1_000_000] } else { &[100, 1000, 10_000, 100_000] };
    for shape in ["chain", "fanin2", "fanin127", "star"] {
        for &n in sizes {
            for conj in [0, 1] {
                for ign in [0, 1, 2] {
                    for root in ["hit", "miss", "all"] {
                        // quick: the full cross product at 10^2 and 10^5 for chains, a diagonal elsewhere
                        let full = thorough || (shape == "chain" && (n == 100 || n == 100_000));
                        let diag = (conj + ign + (root == "miss") as usize + n / 1000) % 3 == 0;
                        if !(full || diag) {
                            continue;
                        }
                        if shape == "fanin127" && n > 100_000 {
                            continue;
                        }
                        let fmt = if ign == 2 { 1 } else { 3 };
                        v.push(job(name, format!("stress ift2 shape={shape} n={n} conj={conj} ign={ign} root={root} fmt={fmt}")));
                    }
                }
            }
        }
    }
    for shape in ["chain", "fanin2"] {
        for n in [1000usize, 10_000] {
            for (conj, ign, root) in [(0, 1, "miss"), (0, 1, "hit"), (1, 0, "miss"), (1, 2, "hit"), (0, 0, "all")] {
                v.push(job(name, format!("stress ift2 shape={shape} n={n} conj={conj} ign={ign} root={root} fmt=3 stack=256")));
            }
        }
    }
    v
}

// ------------------------------------------------------------------------------------------------
// CFF / CFF2 hinter capacities: hint map (96 edges), stem hints (96), hint masks (12 bytes), blue zones
// ------------------------------------------------------------------------------------------------

fn cs_num(out: &mut Vec<u8>, v: i32) {
    super::charstring::num(out, v)
}

/// DICT operand (shortest integer form) — Private DICT
fn dict_num(out: &mut Vec<u8>, v: i32) {
    if (-107..=107).contains(&v) || (108..=1131).contains(&v) || (-1131..=-108).contains(&v) || (-32768..=32767).contains(&v) {
        super::charstring::num(out, v);
    } else {
        out.push(29);
        out.extend_from_slice(&v.to_be_bytes());
    }
}

fn draw_all_engines(font: &FontRef, gid: u32, ppems: &[f32], tag: &mut String) {
    let outlines = font.outline_glyphs();
    let Some(g) = outlines.get(GlyphId::new(gid)) else {
        tag.push_str(" no-glyph");
        return;
    };
    let coords = [F2Dot14::from_f32(0.5)];
    let targets = all_targets();
    let mut n_ok = 0usize;
    let mut n_err = 0usize;
    let mut pen = NullPen(0);
    for (pi, ppem) in ppems.iter().enumerate() {
        for loc in [LocationRef::default(), LocationRef::new(&coords)] {
            match g.draw(DrawSettings::unhinted(Size::new(*ppem), loc), &mut pen) {
                Ok(_) => n_ok += 1,
                Err(_) => n_err += 1,
            }
            for (ei, engine) in all_engines().into_iter().enumerate() {
                // every engine with two targets per size (rotating through all 17 targets over the sizes)
                for k in 0..2 {
                    let target: Target = targets[(pi * 5 + ei * 3 + k * 7) % targets.len()];
                    let inst = HintingInstance::new(&outlines, Size::new(*ppem), loc, HintingOptions { engine: engine.clone(), target });
                    match inst {
                        Ok(inst) => {
                            for pedantic in [false, true] {
                                match g.draw(DrawSettings::hinted(&inst, pedantic), &mut pen) {
                                    Ok(_) => n_ok += 1,
                                    Err(_) => n_err += 1,
                                }
                            }
                        }
                        Err(_) => n_err += 1,
                    }
                }
            }
        }
    }
    let _ = g.draw(DrawSettings::unhinted(Size::unscaled(), LocationRef::default()), &mut pen);
    tag.push_str(&format!(" draws_ok={n_ok} draws_err={n_err} pen={}", pen.0));
}

fn cffhint_case(p: &Params) -> String {
    let c = super::charstring::Case {
        cff2: p.n("cff2") == 1,
        gsubrs: super::charstring::index_bytes(p.n("cff2") == 1, 1, &[vec![11]]),
        lsubrs: None,
        blend: None,
        cs: p.hex("cs"),
        family: "stress",
        private_extra: p.hex("priv"),
    };
    let data = match super::charstring::build_cff_font(&c) {
        Ok(d) => d,
        Err(e) => return format!("build-failed {e}"),
    };
    let Ok(font) = FontRef::new(&data) else { return "font-failed".into() };
    let ppem = p.f("ppem", 16.0);
    let mut out = "ok".to_string();
    draw_all_engines(&font, 1, &[ppem, 8.0, 100.0, 2000.0], &mut out);
    out
}

#[derive(Clone, Copy, PartialEq, Debug)]
enum Stem {
    /// ordinary pair of the given width
    Pair(i32),
    /// single bottom edge (width -21)
    GhostBottom,
    /// single top edge (width -20)
    GhostTop,
    /// inverted pair (negative width other than the ghost widths): two edges, swapped
    Inverted(i32),
}

/// `hstem`-family declarations of `stems` starting at y0 with `gap` units between consecutive stems (ascending when
/// gap > 0; a negative gap declares them top-down so that every later stem is inserted BELOW the existing edges).
/// At most 40 stems per operator (operand stack), the first operator is `op` (1 hstem / 18 hstemhm).
fn stems_charstring(stems: &[Stem], y0: i32, gap: i32, op: u8) -> Vec<u8> {
    let mut cs = vec![];
    // absolute (bottom, top) of every stem
    let mut abs: Vec<(i32, i32)> = vec![];
    let mut y = y0;
    for s in stems {
        let w = match s {
            Stem::Pair(w) => *w,
            Stem::GhostBottom => -21,
            Stem::GhostTop => -20,
            Stem::Inverted(w) => -*w,
        };
        // the edge(s) of a stem occupy [y, y + |w|] (ghosts: one edge)
        let span = w.abs();
        if gap >= 0 {
            let start = if w < 0 { y + span } else { y };
            abs.push((start, start + w));
            y += span + gap;
        } else {
            let start = if w < 0 { y } else { y - span };
            abs.push((start, start + w));
            y -= span - gap;
        }
    }
    for chunk in abs.chunks(40) {
        // every stem operator starts again at 0
        let mut prev = 0;
        for (a, b) in chunk {
            cs_num(&mut cs, a - prev);
            cs_num(&mut cs, b - a);
            prev = *b;
        }
        cs.push(op);
    }
    cs
}

fn tail_path(cs: &mut Vec<u8>) {
    // a little path through several y so that the hint map is built and used
    for (x, y, op) in [(0, 0, 21u8), (50, 0, 5), (0, 300, 5), (-50, 400, 5)] {
        cs_num(cs, x);
        cs_num(cs, y);
        cs.push(op);
    }
    cs.push(14);
}

fn blues_dict(op: &[u8], values: &[i32]) -> Vec<u8> {
    // delta encoded
    let mut out = vec![];
    let mut prev = 0;
    for v in values {
        dict_num(&mut out, v - prev);
        prev = *v;
    }
    out.extend_from_slice(op);
    out
}

pub fn cffhint_jobs(rng: &mut Rng, thorough: bool) -> Vec<Job> {
    let name = "stress-cff-hinter-capacity-returns-value";
    let mut v: Vec<Job> = vec![];
    let push = |v: &mut Vec<Job>, desc: String, cff2: bool, private: &[u8], cs: &[u8], ppem: f32| {
        v.push(job(name, format!("stress cffhint desc={desc} cff2={} ppem={ppem} priv={} cs={}", cff2 as u8, hex(private), hex(cs))));
    };
    // private dicts: none / em-box hints (LanguageGroup 1: two synthetic edges) / one huge bottom zone that captures
    // every stem (all stems go into the INITIAL map too) / ordinary zones
    let lang1: Vec<u8> = {
        let mut d = vec![];
        dict_num(&mut d, 1);
        d.extend_from_slice(&[12, 17]);
        d
    };
    let huge_zone = blues_dict(&[6], &[-2000, 3000]);
    let mut ordinary = blues_dict(&[6], &[-15, 0, 536, 547, 571, 582, 714, 726, 760, 772]);
    ordinary.extend_from_slice(&blues_dict(&[7], &[-255, -240]));
    let privates: [(&str, &[u8]); 4] = [("noblues", &[]), ("embox", &lang1), ("hugezone", &huge_zone), ("zones", &ordinary)];
    // --- edges at 93 .. 99 and far beyond, reached with every mix of single-edge ghosts and pairs
    for (pname, private) in privates.iter() {
        for ghosts in 0..=4usize {
            for target_edges in [93usize, 94, 95, 96, 97, 98, 99, 130, 192] {
                if target_edges < ghosts || (target_edges - ghosts) % 2 != 0 {
                    continue;
                }
                let pairs = (target_edges - ghosts) / 2;
                if ghosts + pairs > 256 {
                    continue;
                }
                for (oname, order) in [("ghosts-first", 0), ("ghosts-last", 1), ("ghosts-spread", 2)] {
                    for (dname, gap) in [("up", 3), ("down", -3)] {
                        // quick tier: all orders only at the 95 / 96 / 97 boundary
                        if !thorough && !(95..=97).contains(&target_edges) && !(order == 0 && gap > 0) && !(order == 2 && gap < 0) {
                            continue;
                        }
                        let total = ghosts + pairs;
                        let mut stems: Vec<Stem> = vec![];
                        let mut g_left = ghosts;
                        for i in 0..total {
                            let ghost_here = match order {
                                0 => i < ghosts,
                                1 => i >= pairs,
                                _ => g_left > 0 && (i * ghosts.max(1)) % total.max(1) < ghosts,
                            };
                            if ghost_here && g_left > 0 {
                                g_left -= 1;
                                stems.push(if (i + ghosts) % 2 == 0 { Stem::GhostBottom } else { Stem::GhostTop });
                            } else if stems.iter().filter(|s| matches!(s, Stem::Pair(_))).count() < pairs {
                                stems.push(Stem::Pair(4));
                            } else {
                                stems.push(if i % 2 == 0 { Stem::GhostBottom } else { Stem::GhostTop });
                            }
                        }
                        // one more pair after the map is (nearly) full
                        stems.push(Stem::Pair(4));
                        let y0 = if gap > 0 { 79 } else { 79 + 8 * total as i32 };
                        let mut cs = stems_charstring(&stems, y0, gap, 1);
                        tail_path(&mut cs);
                        for cff2 in [false, true] {
                            if cff2 && !(thorough || (95..=97).contains(&target_edges)) {
                                continue;
                            }
                            // CFF2 has no endchar / width
                            let mut cs2 = cs.clone();
                            if cff2 {
                                cs2.pop();
                            }
                            push(&mut v, format!("edges{target_edges}+pair:g{ghosts}:p{pairs}:{oname}:{dname}:{pname}"), cff2, private, &cs2, 16.0);
                        }
                    }
                }
            }
        }
    }
    // --- hintmask / cntrmask toggling around the capacity: 96 declared stems (1 ghost + 95 pairs ... only 96 stem
    // slots exist), masks that activate 47 pairs + ghost, then one more pair, then everything, then nothing
    for (pname, private) in privates.iter() {
        for n_stems in [48usize, 49, 95, 96, 97, 120] {
            for ghost_at in [None, Some(0usize), Some(47), Some(n_stems - 1)] {
                let stems: Vec<Stem> = (0..n_stems).map(|i| if Some(i) == ghost_at { Stem::GhostBottom } else { Stem::Pair(4) }).collect();
                let mut cs = stems_charstring(&stems, 60, 3, 18);
                let nbytes = (n_stems.min(96) + 7) / 8;
                let nbytes_decl = (n_stems + 7) / 8;
                let mask_with = |pred: &dyn Fn(usize) -> bool| -> Vec<u8> {
                    let mut m = vec![0u8; nbytes_decl];
                    for i in 0..n_stems {
                        if pred(i) {
                            m[i / 8] |= 0x80 >> (i % 8);
                        }
                    }
                    m
                };
                let _ = nbytes;
                let masks: Vec<(u8, Vec<u8>)> = vec![
                    (19, mask_with(&|i| i < 48)),
                    (20, mask_with(&|i| i % 2 == 0)),
                    (19, mask_with(&|i| i < 49)),
                    (19, mask_with(&|_| true)),
                    (20, mask_with(&|_| true)),
                    (19, mask_with(&|i| i >= 40)),
                    (19, mask_with(&|_| false)),
                    (19, mask_with(&|i| i % 3 != 0)),
                ];
                let mut first = true;
                for (op, m) in masks {
                    cs.push(op);
                    cs.extend_from_slice(&m);
                    let (x, y) = if first { (10, 100) } else { (7, 37) };
                    first = false;
                    cs_num(&mut cs, x);
                    cs_num(&mut cs, y);
                    cs.push(21);
                    cs_num(&mut cs, 20);
                    cs_num(&mut cs, 90);
                    cs.push(5);
                }
                cs.push(14);
                push(&mut v, format!("masks:stems{n_stems}:ghost{ghost_at:?}:{pname}").replace(['(', ')'], ""), false, private, &cs, 24.0);
            }
        }
    }
    // --- blue zone counts: BlueValues / OtherBlues / FamilyBlues / FamilyOtherBlues / StemSnapH / StemSnapV with
    // 0 .. 513 (+1) operands (7 / 5 / 7 / 5 / 12 / 12 are the capacities; 513 the DICT operand stack)
    let counts: Vec<usize> = if thorough { (0..=30).chain([47, 48, 49, 96, 511, 512, 513, 514, 600]).collect() } else { vec![0, 1, 2, 9, 10, 11, 12, 13, 14, 15, 16, 23, 24, 25, 26, 27, 48, 512, 513, 514] };
    let few = [Stem::Pair(20), Stem::GhostBottom, Stem::Pair(30), Stem::GhostTop, Stem::Pair(10)];
    let mut cs_few = stems_charstring(&few, -20, 150, 1);
    tail_path(&mut cs_few);
    for op in [&[6u8][..], &[7], &[8], &[9], &[12, 12], &[12, 13]] {
        for &k in &counts {
            let vals: Vec<i32> = (0..k as i32).map(|i| -300 + 17 * i + (i % 2) * 5).collect();
            let mut d = blues_dict(op, &vals);
            if op != [6] {
                // keep BlueValues so that the zones are actually built: two zones, or (odd k) all seven, so that
                // BlueValues + OtherBlues reach the 12 zone slots
                if k % 2 == 0 {
                    d.extend_from_slice(&blues_dict(&[6], &[-15, 0, 700, 715]));
                } else {
                    d.extend_from_slice(&blues_dict(&[6], &[-15, 0, 400, 410, 450, 460, 500, 510, 550, 560, 600, 610, 700, 715]));
                }
            }
            for lang in [0, 1] {
                if lang == 1 && !(thorough || k <= 4 || op == [6]) {
                    continue;
                }
                let mut d2 = d.clone();
                if lang == 1 {
                    d2.extend_from_slice(&lang1);
                }
                push(&mut v, format!("blues:op{}:n{k}:lang{lang}", op.iter().map(|b| b.to_string()).collect::<Vec<_>>().join(".")), false, &d2, &cs_few, 11.0);
            }
        }
    }
    // real numbers (BCD) of 30 .. 100 characters (the parse buffer holds 32) in BlueScale / BlueShift / BlueFuzz /
    // ExpansionFactor, and as operands of BlueValues
    for digits in [1usize, 29, 30, 31, 32, 33, 34, 100] {
        for (oi, op) in [&[12u8, 9][..], &[12, 10], &[12, 11], &[12, 18], &[6]].iter().enumerate() {
            if !thorough && (digits + oi) % 2 == 1 && !(31..=33).contains(&digits) {
                continue;
            }
            let mut d = blues_dict(&[6], &[-15, 0, 700, 715]);
            let push_real = |d: &mut Vec<u8>| {
                d.push(30);
                // "0." then digits nibbles, then the end nibble(s)
                let mut nib: Vec<u8> = vec![0, 0xA];
                for k in 0..digits {
                    nib.push((k % 10) as u8);
                }
                nib.push(0xF);
                if nib.len() % 2 == 1 {
                    nib.push(0xF);
                }
                for pair in nib.chunks(2) {
                    d.push(pair[0] << 4 | pair[1]);
                }
            };
            push_real(&mut d);
            if *op == [6] {
                push_real(&mut d);
            }
            d.extend_from_slice(op);
            push(&mut v, format!("bcd:op{}:digits{digits}", op.iter().map(|b| b.to_string()).collect::<Vec<_>>().join(".")), false, &d, &cs_few, 12.0);
        }
    }
    // all four blue arrays at / over capacity at once + many stems
    {
        let stems: Vec<Stem> = (0..96).map(|i| if i % 7 == 0 { Stem::GhostTop } else { Stem::Pair(5) }).collect();
        let mut cs = stems_charstring(&stems, -380, 4, 1);
        tail_path(&mut cs);
        for (nb, no) in [(14usize, 10usize), (14, 12), (14, 14), (16, 12), (16, 40), (12, 12), (14, 11), (100, 100)] {
            for cff2 in [false, true] {
                let mut d = vec![];
                for (op, k) in [(&[6u8][..], nb), (&[7], no), (&[8], nb), (&[9], no), (&[12, 12], 14), (&[12, 13], 14)] {
                    let vals: Vec<i32> = (0..k as i32).map(|i| -400 + 30 * i + (i % 2) * 9).collect();
                    d.extend_from_slice(&blues_dict(op, &vals));
                }
                let mut cs2 = cs.clone();
                if cff2 {
                    cs2.pop();
                }
                push(&mut v, format!("blues:all-arrays:b{nb}:o{no}"), cff2, &d, &cs2, 13.0);
            }
        }
    }
    // --- random stem soups (overlapping, unordered, inverted, duplicated) with random masks
    let n_rand = if thorough { 3000 } else { 500 };
    for i in 0..n_rand {
        let n = *rng.pick(&[30usize, 47, 48, 49, 60, 95, 96, 97, 110]);
        let stems: Vec<Stem> = (0..n)
            .map(|_| match rng.below(10) {
                0 => Stem::GhostBottom,
                1 => Stem::GhostTop,
                2 => Stem::Inverted(1 + rng.below(30) as i32),
                3 => Stem::Pair(0),
                _ => Stem::Pair(1 + rng.below(12) as i32),
            })
            .collect();
        let gap = *rng.pick(&[3i32, 1, 0, -3, 7, -1, 2]);
        let y0 = if gap >= 0 { rng.range(-200, 100) as i32 } else { 900 };
        let masked = rng.chance(1, 2);
        let mut cs = stems_charstring(&stems, y0, gap, if masked { 18 } else { 1 });
        if masked {
            for _ in 0..1 + rng.below(4) {
                cs.push(*rng.pick(&[19u8, 20]));
                let nb = (n + 7) / 8;
                cs.extend_from_slice(&rng.bytes(nb));
                cs_num(&mut cs, rng.range(-50, 50) as i32);
                cs_num(&mut cs, rng.range(-50, 400) as i32);
                cs.push(21);
                cs_num(&mut cs, 30);
                cs_num(&mut cs, rng.range(-90, 90) as i32);
                cs.push(5);
            }
            cs.push(14);
        } else {
            tail_path(&mut cs);
        }
        let (pname, private) = privates[i % 4];
        let ppem = *rng.pick(&[6.0f32, 9.0, 12.0, 16.0, 24.0, 48.0, 300.0]);
        push(&mut v, format!("random:{i}:n{n}:gap{gap}:{pname}"), false, private, &cs, ppem);
    }
    v
}

// ------------------------------------------------------------------------------------------------
// composite glyf nesting and fan-out
// ------------------------------------------------------------------------------------------------

fn glyfnest_case(p: &Params) -> String {
    use super::GSpec;
    let n = p.n("n");
    let fan = p.n("fan").max(1);
    let gs: Vec<GSpec> = match p.s("shape") {
        // 0 -> 1 -> ... -> n (simple)
        "chain" => {
            let mut gs: Vec<GSpec> = (0..n).map(|k| GSpec::Composite(vec![(k + 1) as u16])).collect();
            gs.push(GSpec::Simple(3, n % 2 == 0));
            gs
        }
        // cycle of length n (n = 1: self reference), each glyph also references a simple glyph first
        "cycle" => {
            let mut gs: Vec<GSpec> = (0..n).map(|k| GSpec::Composite(vec![n as u16, ((k + 1) % n) as u16])).collect();
            gs.push(GSpec::Simple(4, false));
            gs
        }
        // one composite with n components
        "flat" => vec![GSpec::Composite(vec![1; n]), GSpec::Simple(3, false)],
        // `n` levels, every level references the next one `fan` times (fan^n leaves)
        "tree" => {
            let mut gs: Vec<GSpec> = (0..n).map(|k| GSpec::Composite(vec![(k + 1) as u16; fan])).collect();
            gs.push(GSpec::Simple(3, true));
            gs
        }
        _ => return "bad-request".into(),
    };
    let data = match super::build_composite_font(&gs) {
        Ok(d) => d,
        Err(e) => return format!("ok build-rejected {}", e.replace(' ', "_")),
    };
    let Ok(font) = FontRef::new(&data) else { return "font-failed".into() };
    let mut out = format!("ok bytes={}", data.len());
    let outlines = font.outline_glyphs();
    for gid in [0u32, 1, gs.len() as u32 / 2, gs.len() as u32 - 1] {
        out.push_str(if outlines.get(GlyphId::new(gid)).is_some() { " some" } else { " none" });
    }
    draw_all_engines(&font, 0, &[16.0], &mut out);
    out
}

pub fn glyfnest_jobs(thorough: bool) -> Vec<Job> {
    let name = "stress-glyf-composite-nesting-returns-value";
    let mut v = vec![];
    let mut depths = vec![31usize, 32, 33, 34, 1000, 60_000];
    if thorough {
        depths.extend_from_slice(&[1, 2, 100, 10_000, 65_534]);
    }
    for d in &depths {
        v.push(job(name, format!("stress glyfnest shape=chain n={d}")));
    }
    for n in [1usize, 2, 32, 33, 34, 1000, 60_000] {
        v.push(job(name, format!("stress glyfnest shape=cycle n={n}")));
    }
    for n in [32usize, 1000, 5000] {
        v.push(job(name, format!("stress glyfnest shape=chain n={n} stack=256")));
        v.push(job(name, format!("stress glyfnest shape=cycle n={n} stack=256")));
    }
    // component counts: 21845 x 3 points = 65535 points (MAX_POINTS)
    for n in [1usize, 2, 255, 256, 257, 4096, 21_843, 21_844, 21_845, 21_846, 65_535] {
        v.push(job(name, format!("stress glyfnest shape=flat n={n}")));
    }
    for (n, fan) in [(2usize, 255usize), (3, 40), (4, 16), (5, 9), (16, 2)] {
        v.push(job(name, format!("stress glyfnest shape=tree n={n} fan={fan}")));
    }
    v
}

// ------------------------------------------------------------------------------------------------
// CFF / CFF2 subroutine nesting
// ------------------------------------------------------------------------------------------------

fn cffsubr_case(p: &Params) -> String {
    use super::charstring::{bias, call, index_bytes, num, Case};
    let depth = p.n("depth");
    let cff2 = p.n("cff2") == 1;
    let kind = p.s("kind");
    let cyc = p.n("cyc") == 1;
    let in_local = |k: usize| match kind {
        "local" => true,
        "alt" => k % 2 == 1,
        _ => false,
    };
    let ng = (0..depth).filter(|k| !in_local(*k)).count();
    let nl = depth - ng;
    let mut pos_g = 0usize;
    let mut pos_l = 0usize;
    let mut pos: Vec<usize> = vec![];
    for k in 0..depth {
        if in_local(k) {
            pos.push(pos_l);
            pos_l += 1;
        } else {
            pos.push(pos_g);
            pos_g += 1;
        }
    }
    let _ = bias(0);
    let mut g: Vec<Vec<u8>> = vec![];
    let mut l: Vec<Vec<u8>> = vec![];
    for k in 0..depth {
        let mut b = vec![];
        let next = if k + 1 < depth {
            Some(k + 1)
        } else if cyc {
            Some(0)
        } else {
            None
        };
        match next {
            Some(t) => call(&mut b, !in_local(t), pos[t], if in_local(t) { nl } else { ng }),
            None => {
                num(&mut b, 10);
                num(&mut b, 20);
                b.push(21);
            }
        }
        b.push(11);
        if in_local(k) {
            l.push(b)
        } else {
            g.push(b)
        }
    }
    let mut cs = vec![];
    if depth > 0 {
        call(&mut cs, !in_local(0), 0, if in_local(0) { nl } else { ng });
    }
    if !cff2 {
        cs.push(14);
    }
    let c = Case {
        cff2,
        gsubrs: index_bytes(cff2, 4, &g),
        lsubrs: if nl > 0 || kind == "local" { Some(index_bytes(cff2, 4, &l)) } else { None },
        blend: None,
        cs,
        family: "stress",
        private_extra: vec![],
    };
    let direct = super::charstring::cs_case(&c);
    let data = match super::charstring::build_cff_font(&c) {
        Ok(d) => d,
        Err(e) => return format!("build-failed {e}"),
    };
    let Ok(font) = FontRef::new(&data) else { return "font-failed".into() };
    let mut out = format!("ok evaluate={}", direct.split_whitespace().next().unwrap_or("?"));
    draw_all_engines(&font, 1, &[16.0], &mut out);
    out
}

pub fn cffsubr_jobs(thorough: bool) -> Vec<Job> {
    let name = "stress-cff-subroutine-nesting-returns-value";
    let mut v = vec![];
    let mut depths = vec![9usize, 10, 11, 12, 1000, 65_000];
    if thorough {
        depths.extend_from_slice(&[1, 2, 100, 1239, 1240, 33_899, 33_900, 65_535]);
    }
    for d in depths {
        for kind in ["global", "local", "alt"] {
            for cff2 in [0, 1] {
                for cyc in [0, 1] {
                    if !thorough && d >= 1000 && (cff2 + cyc + (kind == "alt") as usize) % 2 == 1 {
                        continue;
                    }
                    v.push(job(name, format!("stress cffsubr depth={d} kind={kind} cff2={cff2} cyc={cyc}")));
                }
            }
        }
    }
    for kind in ["global", "local", "alt"] {
        for cff2 in [0, 1] {
            for (d, cyc) in [(10usize, 0), (1000, 0), (1000, 1), (5000, 0)] {
                v.push(job(name, format!("stress cffsubr depth={d} kind={kind} cff2={cff2} cyc={cyc} stack=256")));
            }
        }
    }
    if thorough {
        // CFF2 INDEX counts are 32 bit
        v.push(job(name, "stress cffsubr depth=200000 kind=global cff2=1 cyc=0".into()));
        v.push(job(name, "stress cffsubr depth=200000 kind=alt cff2=1 cyc=1".into()));
    }
    v
}

// ------------------------------------------------------------------------------------------------
// TrueType: maxp-sized arrays (storage, cvt, twilight zone, function / instruction definitions, value stack)
// ------------------------------------------------------------------------------------------------

/// pushes an arbitrary i32 in -70000..70000 (PUSHW is 16 bit: larger values by doubling)
fn push_any(out: &mut Vec<u8>, v: i32) {
    if (-32768..=32767).contains(&v) {
        super::push_val(out, v);
    } else if v > 0 {
        // 32767 * 2 + (v - 65534)
        super::push_big(out, 1, v - 65534);
    } else {
        super::push_val(out, -32768);
        out.push(0x20); // DUP
        out.push(0x60); // ADD -> -65536
        super::push_val(out, v + 65536);
        out.push(0x60);
    }
}

pub fn ttlimit_jobs(rng: &mut Rng, thorough: bool) -> Vec<Job> {
    use super::Synth;
    let name = "stress-truetype-maxp-capacity-returns-value";
    let mut v = vec![];
    let sizes: Vec<u16> = if thorough { vec![0, 1, 2, 3, 31, 32, 33, 255, 256, 257, 32767, 32768, 65534, 65535] } else { vec![0, 1, 2, 255, 256, 65535] };
    for dim in ["storage", "cvt", "twilight", "fdefs", "idefs", "stack"] {
        for &m in &sizes {
            let mut sp = Synth { max_stack: 64, n_funcs: 4, n_idefs: 2, n_cvt: 8, n_pts: 6, max_storage: 8, max_twilight: 4, fpgm: vec![], prep: vec![], glyph: None };
            let mi = m as i32;
            let around: Vec<i32> = vec![mi - 1, mi, mi + 1, 0, -1, 32767, 65535, 65536, mi + 3, mi + 4, mi + 5];
            let mut body: Vec<u8> = vec![];
            let mut fpgm: Vec<u8> = vec![];
            match dim {
                "storage" => {
                    sp.max_storage = m;
                    for &i in &around {
                        push_any(&mut body, i);
                        super::push_val(&mut body, 77);
                        body.push(0x42); // WS
                        push_any(&mut body, i);
                        body.push(0x43); // RS
                        body.push(0x21);
                    }
                }
                "cvt" => {
                    sp.n_cvt = m;
                    for &i in &around {
                        push_any(&mut body, i);
                        super::push_val(&mut body, 64);
                        body.push(0x44); // WCVTP
                        push_any(&mut body, i);
                        super::push_val(&mut body, 64);
                        body.push(0x70); // WCVTF
                        push_any(&mut body, i);
                        body.push(0x45); // RCVT
                        body.push(0x21);
                        super::push_val(&mut body, 0);
                        push_any(&mut body, i);
                        body.push(0x3F); // MIAP[1]
                    }
                }
                "twilight" => {
                    sp.max_twilight = m;
                    super::push_val(&mut body, 0);
                    body.push(0x16); // SZPS 0
                    for &i in &around {
                        push_any(&mut body, i);
                        body.push(0x2F); // MDAP[1]
                        push_any(&mut body, i);
                        body.push(0x46); // GC[0]
                        body.push(0x21);
                        push_any(&mut body, i);
                        super::push_val(&mut body, 64);
                        body.push(0x48); // SCFS
                        push_any(&mut body, i);
                        super::push_val(&mut body, 0);
                        body.push(0x49); // MD[0]
                        body.push(0x21);
                        push_any(&mut body, i);
                        super::push_val(&mut body, 0);
                        body.push(0x3E); // MIAP[0]
                        push_any(&mut body, i);
                        body.push(0x10); // SRP0
                        push_any(&mut body, i);
                        body.push(0xC0); // MDRP
                    }
                }
                "fdefs" | "idefs" => {
                    if dim == "fdefs" {
                        sp.n_funcs = m
                    } else {
                        sp.n_idefs = m
                    }
                    let ndef = (m as usize + 2).min(300);
                    for k in 0..ndef {
                        let key = if dim == "fdefs" {
                            // the last definitions use the boundary keys
                            match ndef - 1 - k {
                                0 => mi + 1,
                                1 => mi,
                                2 => mi - 1,
                                _ => k as i32,
                            }
                        } else {
                            // undefined opcodes, repeated when there are more definitions than opcodes
                            [0x28, 0x7B, 0x83, 0x84, 0x8F, 0x90, 0x91, 0x92, 0x93, 0xA2, 0xA3, 0xAF][k % 12]
                        };
                        push_any(&mut fpgm, key);
                        fpgm.push(if dim == "fdefs" { 0x2C } else { 0x89 });
                        fpgm.extend_from_slice(&[0xB0, 1, 0x21, 0x2D]);
                    }
                    for &i in &around {
                        if dim == "fdefs" {
                            push_any(&mut body, i);
                            body.push(0x2B); // CALL
                            super::push_val(&mut body, 2);
                            push_any(&mut body, i);
                            body.push(0x2A); // LOOPCALL
                        } else {
                            body.push([0x28u8, 0x7B, 0x83, 0xAF][(i.unsigned_abs() % 4) as usize]);
                        }
                    }
                }
                _ => {
                    sp.max_stack = m;
                    // cap = max_stack + 32: fill to cap - 1, cap, cap + 1
                    let cap = m as usize + 32;
                    let n = cap + rng.below(3) as usize - 1;
                    let mut left = n;
                    while left > 0 {
                        let k = left.min(255);
                        body.extend_from_slice(&[0x40, k as u8]);
                        body.extend(std::iter::repeat(1u8).take(k));
                        left -= k;
                    }
                    body.extend_from_slice(&[0x24, 0x20, 0x20, 0x22]); // DEPTH DUP DUP CLEAR
                }
            }
            for place in ["prep", "glyph", "fpgm"] {
                let mut s2 = sp.clone();
                s2.fpgm = fpgm.clone();
                match place {
                    "prep" => s2.prep = body.clone(),
                    "glyph" => {
                        if body.len() > 60_000 {
                            continue;
                        }
                        s2.prep = vec![0xB0, 0, 0x21];
                        s2.glyph = Some(body.clone());
                    }
                    _ => {
                        if dim == "twilight" || dim == "cvt" {
                            continue;
                        }
                        s2.fpgm.extend_from_slice(&body);
                        s2.glyph = Some(vec![0xB0, 1, 0x21]);
                    }
                }
                v.push(job(name, format!("{} {}", super::synth_line("hostile", &s2), 1 + rng.below(1_000_000))));
            }
        }
    }
    // function / instruction definitions whose body is around MAX_DEFINITION_SIZE = 65535 bytes
    for body_len in [65_533usize, 65_534, 65_535, 65_536, 70_000] {
        for idef in [false, true] {
            let mut sp = Synth { max_stack: 16, n_funcs: 2, n_idefs: 2, n_cvt: 0, n_pts: 4, max_storage: 0, max_twilight: 0, fpgm: vec![], prep: vec![], glyph: None };
            let mut f = vec![];
            super::push_val(&mut f, if idef { 0x91 } else { 0 });
            f.push(if idef { 0x89 } else { 0x2C });
            f.extend(std::iter::repeat(0x4Fu8).take(body_len)); // DEBUG: a no-op
            f.push(0x2D);
            sp.fpgm = f;
            sp.prep = if idef { vec![0x91] } else { vec![0xB0, 0, 0x2B] };
            sp.glyph = Some(if idef { vec![0x91, 0x91] } else { vec![0xB0, 0, 0x2B, 0xB0, 0, 0x2B] });
            v.push(job(name, format!("{} {}", super::synth_line("hostile", &sp), 11)));
        }
    }
    // all maxp fields at 0 and at 65535 at once, benign programs
    for m in [0u16, 65535] {
        let sp = Synth { max_stack: m, n_funcs: m, n_idefs: m, n_cvt: m, n_pts: 6, max_storage: m, max_twilight: m, fpgm: vec![], prep: vec![0xB0, 0, 0x21], glyph: Some(vec![0xB0, 1, 0x21, 0x7F]) };
        v.push(job(name, format!("{} {}", super::synth_line("hostile", &sp), 7)));
    }
    v
}

// ------------------------------------------------------------------------------------------------
// glyph shapes for the autohinter (inline capacities: 96 points, 8 contours, 18 segments, 12 edges, 256 blue points)
// and for the glyf loader (65535 points)
// ------------------------------------------------------------------------------------------------

fn shape_font(kind: &str, contours: usize, pts: usize) -> Result<Vec<u8>, String> {
    use read_fonts::tables::glyf::CurvePoint;
    use write_fonts::tables::glyf::{Bbox, Contour, GlyfLocaBuilder, Glyph, SimpleGlyph};
    use write_fonts::tables::{cmap::Cmap, head::Head, hhea::Hhea, hmtx::Hmtx, hmtx::LongMetric, maxp::Maxp};
    let mut cs: Vec<Contour> = vec![];
    let clamp = |v: i64| v.clamp(-16000, 16000) as i16;
    match kind {
        // `contours` rectangles stacked vertically (stem height 40, gap 30)
        "rects" => {
            for c in 0..contours as i64 {
                let y = -200 + 70 * c;
                let p: Vec<CurvePoint> = vec![
                    CurvePoint::on_curve(100, clamp(y)),
                    CurvePoint::on_curve(100, clamp(y + 40)),
                    CurvePoint::on_curve(600, clamp(y + 40)),
                    CurvePoint::on_curve(600, clamp(y)),
                ];
                cs.push(p.into());
            }
        }
        // rectangles on a diagonal: distinct edges in both dimensions
        "grid" => {
            for c in 0..contours as i64 {
                let (x, y) = (50 + 45 * c, -100 + 45 * c);
                let p: Vec<CurvePoint> = vec![
                    CurvePoint::on_curve(clamp(x), clamp(y)),
                    CurvePoint::on_curve(clamp(x), clamp(y + 30)),
                    CurvePoint::on_curve(clamp(x + 30), clamp(y + 30)),
                    CurvePoint::on_curve(clamp(x + 30), clamp(y)),
                ];
                cs.push(p.into());
            }
        }
        // one contour: a comb whose teeth give pts / 4 vertical stems (pts points)
        "comb" => {
            let mut p: Vec<CurvePoint> = vec![];
            let teeth = (pts / 4).max(1) as i64;
            for t in 0..teeth {
                let x = 20 * t;
                p.push(CurvePoint::on_curve(clamp(x), 0));
                p.push(CurvePoint::on_curve(clamp(x), 700));
                // tooth widths 4 .. 17: more distinct stem widths than MAX_WIDTHS = 16
                let w = 4 + (t * 5) % 14;
                p.push(CurvePoint::on_curve(clamp(x + w), 700));
                p.push(CurvePoint::on_curve(clamp(x + w), 0));
            }
            while p.len() < pts {
                p.push(CurvePoint::on_curve(clamp(20 * teeth + p.len() as i64 % 7), -50));
            }
            p.truncate(pts.max(3));
            cs.push(p.into());
        }
        // `contours` contours of `pts` points each on a zigzag with off-curve points in between
        _ => {
            for c in 0..contours as i64 {
                let p: Vec<CurvePoint> = (0..pts.max(3) as i64)
                    .map(|i| {
                        let x = clamp((i * 13) % 1900 + 3 * c);
                        let y = clamp(if i % 2 == 0 { (i * 7) % 900 } else { 900 - (i * 5) % 700 } + 11 * c);
                        if i % 3 == 1 {
                            CurvePoint::off_curve(x, y)
                        } else {
                            CurvePoint::on_curve(x, y)
                        }
                    })
                    .collect();
                cs.push(p.into());
            }
        }
    }
    let total: usize = match kind {
        "rects" | "grid" => 4 * contours,
        "comb" => pts.max(3),
        _ => contours * pts.max(3),
    };
    let glyph = SimpleGlyph { bbox: Bbox { x_min: 0, y_min: -200, x_max: 2000, y_max: 1000 }, contours: cs, instructions: vec![] };
    let mut b = GlyfLocaBuilder::new();
    b.add_glyph(&Glyph::Empty).map_err(|e| e.to_string())?;
    b.add_glyph(&glyph).map_err(|e| e.to_string())?;
    let (glyf, loca, fmt) = b.build();
    let head = Head { units_per_em: 1000, index_to_loc_format: fmt as i16, ..Default::default() };
    let maxp = Maxp {
        num_glyphs: 2,
        max_points: Some(total.min(65535) as u16),
        max_contours: Some(contours.min(65535) as u16),
        max_composite_points: Some(0),
        max_composite_contours: Some(0),
        max_zones: Some(2),
        max_twilight_points: Some(0),
        max_storage: Some(0),
        max_function_defs: Some(0),
        max_instruction_defs: Some(0),
        max_stack_elements: Some(16),
        max_size_of_instructions: Some(0),
        max_component_elements: Some(0),
        max_component_depth: Some(0),
    };
    let hhea = Hhea { number_of_h_metrics: 2, ascender: 800.into(), descender: (-200).into(), ..Default::default() };
    let hmtx = Hmtx::new(vec![LongMetric::new(500, 0), LongMetric::new(700, 0)], vec![]);
    // every Latin letter / digit maps to the stress glyph: the autohinter derives its blue zones and standard widths
    // from it too
    let cmap = Cmap::from_mappings(('0'..='9').chain('A'..='Z').chain('a'..='z').map(|c| (c, GlyphId::new(1)))).map_err(|e| format!("{e:?}"))?;
    let mut fb = write_fonts::FontBuilder::new();
    fb.add_table(&head).map_err(|e| e.to_string())?;
    fb.add_table(&maxp).map_err(|e| e.to_string())?;
    fb.add_table(&hhea).map_err(|e| e.to_string())?;
    fb.add_table(&hmtx).map_err(|e| e.to_string())?;
    fb.add_table(&cmap).map_err(|e| e.to_string())?;
    fb.add_table(&glyf).map_err(|e| e.to_string())?;
    fb.add_table(&loca).map_err(|e| e.to_string())?;
    Ok(fb.build())
}

fn shape_case(p: &Params) -> String {
    let data = match shape_font(p.s("kind"), p.n("contours").max(1), p.n("pts")) {
        Ok(d) => d,
        Err(e) => return format!("ok build-rejected {}", e.replace(' ', "_")),
    };
    let Ok(font) = FontRef::new(&data) else { return "font-failed".into() };
    let mut out = format!("ok bytes={}", data.len());
    let big = p.n("contours") * p.n("pts").max(4) > 20_000;
    draw_all_engines(&font, 1, if big { &[16.0] } else { &[16.0, 9.0, 64.0] }, &mut out);
    out
}

pub fn shape_jobs(thorough: bool) -> Vec<Job> {
    let name = "stress-glyph-shape-capacity-returns-value";
    let mut v = vec![];
    let mut counts: Vec<usize> = (1..=26).collect();
    counts.extend_from_slice(&[63, 64, 65, 100, 500, 2000]);
    if thorough {
        counts.extend_from_slice(&[27, 28, 31, 32, 33, 127, 128, 129, 255, 256, 257, 1000, 4000, 16_000]);
    }
    for c in &counts {
        v.push(job(name, format!("stress shape kind=rects contours={c} pts=4")));
        if *c <= 300 {
            v.push(job(name, format!("stress shape kind=grid contours={c} pts=4")));
        }
    }
    for pts in [3usize, 4, 8, 36, 68, 72, 76, 92, 96, 100, 252, 256, 260, 1000, 8000, 65_531, 65_535] {
        v.push(job(name, format!("stress shape kind=comb contours=1 pts={pts}")));
    }
    for (c, pts) in [(1usize, 95usize), (1, 96), (1, 97), (1, 255), (1, 256), (1, 257), (1, 65_531), (1, 65_535), (7, 13), (8, 12), (9, 11), (2000, 3), (2000, 32), (21_845, 3)] {
        v.push(job(name, format!("stress shape kind=zigzag contours={c} pts={pts}")));
    }
    v
}

// ------------------------------------------------------------------------------------------------
// gvar: tuple variation counts
// ------------------------------------------------------------------------------------------------

fn gvar_case(p: &Params) -> String {
    use super::Synth;
    let n = p.n("tuples");
    let shared = p.n("shared");
    let mode = p.s("mode");
    let sp = Synth { max_stack: 16, n_funcs: 0, n_idefs: 0, n_cvt: 0, n_pts: 3, max_storage: 0, max_twilight: 0, fpgm: vec![], prep: vec![], glyph: Some(vec![]) };
    let base = match super::build_synth(&sp) {
        Ok(d) => d,
        Err(e) => return format!("build-failed {e}"),
    };
    let Ok(basef) = FontRef::new(&base) else { return "font-failed".into() };
    // glyph 1: 3 points + 4 phantom points
    let npts = 7u8;
    let mut headers: Vec<u8> = vec![];
    let mut data: Vec<u8> = vec![];
    for i in 0..n {
        let one: Vec<u8> = match mode {
            // zero deltas as runs
            "zero" => vec![0x80 | (npts - 1), 0x80 | (npts - 1)],
            // private point numbers (2 points) + byte deltas
            "private" => vec![2, 1, 0, 3, 1, 5, 6, 1, 5, 6],
            // word deltas for all points
            _ => {
                let mut d = vec![];
                for _ in 0..2 {
                    d.push(0x40 | (npts - 1));
                    for k in 0..npts {
                        d.extend_from_slice(&(((i + k as usize) % 600) as i16 - 300).to_be_bytes());
                    }
                }
                d
            }
        };
        be16(&mut headers, one.len() as u16);
        let private = if mode == "private" { 0x2000 } else { 0 };
        if shared > 0 && i % 2 == 0 {
            // shared tuple index around the count
            be16(&mut headers, private | ((i % (shared + 2)) as u16 & 0x0FFF));
        } else {
            be16(&mut headers, 0x8000 | private);
            be16(&mut headers, 0x4000 - ((i * 37) % 0x4000) as u16);
        }
        data.extend_from_slice(&one);
    }
    let mut gvd: Vec<u8> = vec![];
    be16(&mut gvd, (n as u16 & 0x0FFF) | (p.n("flags") as u16 & 0xF000));
    be16(&mut gvd, (4 + headers.len()).min(65535) as u16);
    gvd.extend_from_slice(&headers);
    gvd.extend_from_slice(&data);
    let mut gvar: Vec<u8> = vec![];
    be16(&mut gvar, 1);
    be16(&mut gvar, 0);
    be16(&mut gvar, 1);
    be16(&mut gvar, shared as u16);
    be32(&mut gvar, 32);
    be16(&mut gvar, 2);
    be16(&mut gvar, 1);
    be32(&mut gvar, 32 + 2 * shared as u32);
    be32(&mut gvar, 0);
    be32(&mut gvar, 0);
    be32(&mut gvar, gvd.len() as u32);
    for k in 0..shared {
        be16(&mut gvar, if k % 2 == 0 { 0x4000 } else { 0xC000 });
    }
    gvar.extend_from_slice(&gvd);
    let mut fvar: Vec<u8> = vec![];
    be32(&mut fvar, 0x00010000);
    be16(&mut fvar, 16);
    be16(&mut fvar, 2);
    be16(&mut fvar, 1);
    be16(&mut fvar, 20);
    be16(&mut fvar, 0);
    be16(&mut fvar, 8);
    fvar.extend_from_slice(b"wght");
    be32(&mut fvar, 100 << 16);
    be32(&mut fvar, 400 << 16);
    be32(&mut fvar, 900 << 16);
    be16(&mut fvar, 0);
    be16(&mut fvar, 256);
    let mut fb = write_fonts::FontBuilder::new();
    for rec in basef.table_directory.table_records() {
        if let Some(d) = basef.table_data(rec.tag()) {
            fb.add_raw(rec.tag(), d.as_bytes().to_vec());
        }
    }
    fb.add_raw(Tag::new(b"gvar"), gvar);
    fb.add_raw(Tag::new(b"fvar"), fvar);
    let bytes = fb.build();
    let Ok(font) = FontRef::new(&bytes) else { return "font-failed".into() };
    let mut out = format!("ok gvd={}", gvd.len());
    draw_all_engines(&font, 1, &[16.0], &mut out);
    let half = [F2Dot14::from_f32(0.5)];
    let gm = font.glyph_metrics(Size::new(16.0), LocationRef::new(&half));
    let _ = (gm.advance_width(GlyphId::new(1)), gm.bounds(GlyphId::new(1)));
    out
}

pub fn gvar_jobs(thorough: bool) -> Vec<Job> {
    let name = "stress-gvar-tuple-count-returns-value";
    let mut v = vec![];
    let mut counts = vec![0usize, 1, 2, 4094, 4095];
    if thorough {
        counts.extend_from_slice(&[3, 100, 1000, 4000]);
    }
    for n in counts {
        for mode in ["zero", "private", "words"] {
            for shared in [0usize, 1, 4095] {
                if !thorough && shared == 1 && n > 2 && n < 4095 {
                    continue;
                }
                for flags in [0usize, 0x8000] {
                    if flags != 0 && !(thorough || mode == "zero") {
                        continue;
                    }
                    v.push(job(name, format!("stress gvar tuples={n} mode={mode} shared={shared} flags={flags}")));
                }
            }
        }
    }
    v
}

// ------------------------------------------------------------------------------------------------
// metadata providers with huge counts: name records, language tags, glyph names, fvar instances / axes
// ------------------------------------------------------------------------------------------------

fn strings_case(p: &Params) -> String {
    use skrifa::string::StringId;
    let n = p.n("n").min(65535);
    let what = p.s("what");
    let mut tables: Vec<([u8; 4], Vec<u8>)> = vec![(*b"head", minimal_head(1000, false))];
    let mut maxp = vec![0u8; 6];
    maxp[0..4].copy_from_slice(&0x00005000u32.to_be_bytes());
    maxp[4..6].copy_from_slice(&(n as u16).to_be_bytes());
    tables.push((*b"maxp", maxp));
    match what {
        "name" | "name1" => {
            let fmt1 = what == "name1";
            let mut t: Vec<u8> = vec![];
            be16(&mut t, fmt1 as u16);
            be16(&mut t, n as u16);
            let storage = 6 + 12 * n + if fmt1 { 2 + 4 * n } else { 0 };
            be16(&mut t, storage.min(65535) as u16);
            for i in 0..n {
                let (plat, enc, lang) = match i % 4 {
                    0 => (3u16, 1u16, 0x409u16),
                    1 => (1, 0, 0),
                    2 => (0, 3, if fmt1 { 0x8000u16.wrapping_add((i % 70000) as u16) | 0x8000 } else { 0 }),
                    _ => (3, 10, 0x411),
                };
                be16(&mut t, plat);
                be16(&mut t, enc);
                be16(&mut t, lang);
                be16(&mut t, [0u16, 1, 2, 3, 4, 5, 6, 16, 17, 25, 256, 257, 300, 65535][i % 14]);
                be16(&mut t, 8);
                be16(&mut t, (i % 5) as u16 * 2);
            }
            if fmt1 {
                be16(&mut t, n as u16);
                for i in 0..n {
                    // language tags (UTF-16BE) of 0 .. 128 characters: MAX_INLINE_LANGUAGE_LEN = 30
                    be16(&mut t, [6u16, 0, 58, 60, 62, 64, 2, 256, 20, 20, 20][i % 11]);
                    be16(&mut t, (i % 11) as u16 * 2);
                }
            }
            t.extend_from_slice(&[0, 0x41, 0xD8, 0x3D, 0xDE, 0x00, 0, 0x42, 0xDC, 0x00, 0, 0x43, 0xFF, 0xFF, 0, 0x44, 0, 0x45, 0, 0x46]);
            for i in 0..160u8 {
                t.extend_from_slice(&[0, if i % 9 == 8 { b'-' } else { b'a' + i % 26 }]);
            }
            tables.push((*b"name", t));
        }
        "post" => {
            // number of distinct custom names (a name lookup walks the string data from its start)
            let spread = if p.n("spread") > 0 { p.n("spread").min(40000) } else { 40000 };
            let mut t: Vec<u8> = vec![0u8; 32];
            t[0..4].copy_from_slice(&0x00020000u32.to_be_bytes());
            be16(&mut t, n as u16);
            for i in 0..n {
                // standard names, custom names, out-of-range indices
                be16(&mut t, match i % 5 {
                    0 => (i % 258) as u16,
                    1 => 65535,
                    _ => 258 + (i % spread) as u16,
                });
            }
            for i in 0..n.min(spread) {
                let l = [0usize, 1, 5, 63, 64, 255][i % 6];
                t.push(l as u8);
                t.extend(std::iter::repeat(b'a' + (i % 26) as u8).take(l));
            }
            tables.push((*b"post", t));
        }
        _ => {
            // fvar: `axes` axes, n instances
            let axes = p.n("axes").max(1).min(65535);
            let mut t: Vec<u8> = vec![];
            be32(&mut t, 0x00010000);
            be16(&mut t, 16);
            be16(&mut t, 2);
            be16(&mut t, axes as u16);
            be16(&mut t, 20);
            be16(&mut t, n as u16);
            be16(&mut t, (4 + 4 * axes + 2).min(65535) as u16);
            for a in 0..axes {
                t.extend_from_slice(&[b'a' + (a % 26) as u8, b'x', b'0' + (a / 26 % 10) as u8, b'0' + (a / 260 % 10) as u8]);
                be32(&mut t, 100 << 16);
                be32(&mut t, 400 << 16);
                be32(&mut t, 900 << 16);
                be16(&mut t, (a % 2) as u16);
                be16(&mut t, 256 + a as u16 % 100);
            }
            for i in 0..n {
                if t.len() > 64 << 20 {
                    break;
                }
                be16(&mut t, 300 + (i % 50) as u16);
                be16(&mut t, 0);
                for a in 0..axes {
                    be32(&mut t, ((100 + (i + a) % 900) as u32) << 16);
                }
                be16(&mut t, 6);
            }
            tables.push((*b"fvar", t));
        }
    }
    let data = sfnt(tables);
    let Ok(font) = FontRef::new(&data) else { return "font-failed".into() };
    let mut n_out = 0usize;
    for id in [0u16, 1, 2, 4, 6, 16, 25, 256, 300, 65535] {
        let ls = font.localized_strings(StringId::new(id));
        for s in ls.clone() {
            n_out += s.chars().count();
            n_out += s.language().map(|l| l.len()).unwrap_or(0);
        }
        n_out += ls.english_or_first().map(|s| s.to_string().len()).unwrap_or(0);
    }
    let gn = font.glyph_names();
    for (_, name) in gn.iter() {
        n_out += name.as_str().len();
    }
    for g in [0u32, 1, 257, 258, 65534, 65535, 65536] {
        n_out += gn.get(GlyphId::new(g)).map(|x| x.as_str().len()).unwrap_or(0);
    }
    let axes = font.axes();
    n_out += axes.len();
    for a in axes.iter() {
        n_out += a.normalize(500.0).to_bits() as usize & 1;
    }
    let loc = axes.location([("ax00", 700.0f32), ("bx00", 1e9), ("zzzz", 1.0)]);
    n_out += loc.coords().len();
    let ni = font.named_instances();
    n_out += ni.len();
    for inst in ni.iter() {
        n_out += inst.user_coords().count();
        n_out += inst.location().coords().len() & 1;
        let _ = (inst.subfamily_name_id(), inst.postscript_name_id());
    }
    let _ = font.attributes();
    let _ = font.metrics(Size::new(16.0), LocationRef::default());
    format!("ok bytes={} n={n_out}", data.len())
}

pub fn strings_jobs(thorough: bool) -> Vec<Job> {
    let name = "stress-metadata-provider-huge-count-returns-value";
    let mut v = vec![];
    let sizes: &[usize] = if thorough { &[0, 1, 2, 255, 256, 1000, 5461, 5462, 32767, 32768, 65534, 65535] } else { &[0, 1, 1000, 5461, 5462, 65535] };
    for &n in sizes {
        for what in ["name", "name1", "post"] {
            if what == "post" && n > 10_000 && !thorough {
                v.push(job(name, format!("stress strings what={what} n={n} spread=3000")));
            } else {
                v.push(job(name, format!("stress strings what={what} n={n}")));
            }
        }
        for axes in [1usize, 8, 64] {
            if n > 10_000 && axes == 64 && !thorough {
                continue;
            }
            v.push(job(name, format!("stress strings what=fvar n={n} axes={axes}")));
        }
    }
    v.push(job(name, "stress strings what=fvar n=1 axes=65535".into()));
    v.push(job(name, "stress strings what=fvar n=3 axes=16383".into()));
    v
}

// ------------------------------------------------------------------------------------------------
// IFT: URI templates with long expansions; table-keyed / glyph-keyed patches with 10^5 tables / glyphs
// ------------------------------------------------------------------------------------------------

fn ifturi_case(p: &Params) -> String {
    use incremental_font_transfer::patch_group::PatchGroup;
    use incremental_font_transfer::patchmap::{intersecting_patches, SubsetDefinition};
    let tlen = p.n("tlen").min(65535);
    let idlen = p.n("idlen").min(65535);
    let unit: &[u8] = match p.s("unit") {
        "id" => b"{id}",
        "id64" => b"{id64}",
        "d" => b"{d1}{d2}{d3}{d4}",
        "pct" => b"%41",
        "utf8" => &[0xc9, 0xa4],
        "mixed" => b"a{id}/{d1}{d2}%2F{id64}\xc9\xa4",
        "badvar" => b"{idx}",
        "open" => b"{id",
        _ => b"a",
    };
    let mut template: Vec<u8> = vec![];
    while template.len() + unit.len() <= tlen {
        template.extend_from_slice(unit);
    }
    // format 2 table with string ids: 3 entries with ids of idlen / 0 / 1 bytes
    let mut t: Vec<u8> = vec![2, 0, 0, 0, 0];
    for w in [1u32, 2, 3, 4] {
        be32(&mut t, w);
    }
    t.push(3);
    be24(&mut t, 3);
    let eo_pos = t.len();
    be32(&mut t, 0);
    let so_pos = t.len();
    be32(&mut t, 0);
    be16(&mut t, template.len() as u16);
    t.extend_from_slice(&template);
    let eo = t.len() as u32;
    t[eo_pos..eo_pos + 4].copy_from_slice(&eo.to_be_bytes());
    let numeric = p.n("numeric") == 1;
    for (k, l) in [idlen, 0, 1].iter().enumerate() {
        t.push(0b0000_0100);
        if numeric {
            // numeric id delta (int24): huge ids
            be24(&mut t, [0x7F_FFFEu32, 2, 0x7F_FFFE][k]);
        } else {
            be16(&mut t, *l as u16);
        }
    }
    if !numeric {
        let so = t.len() as u32;
        t[so_pos..so_pos + 4].copy_from_slice(&so.to_be_bytes());
        for i in 0..idlen + 1 {
            t.push(if p.n("idbyte") > 0 { p.n("idbyte") as u8 } else { (i % 251) as u8 });
        }
    }
    let data = sfnt(vec![(*b"IFT ", t)]);
    let Ok(font) = FontRef::new(&data) else { return "font-failed".into() };
    let def = SubsetDefinition::all();
    let mut total = 0usize;
    let a = match intersecting_patches(&font, &def) {
        Ok(v) => {
            let mut errs = 0;
            for u in &v {
                match u.uri_string() {
                    Ok(s) => total += s.len(),
                    Err(_) => errs += 1,
                }
            }
            format!("{}:errs{errs}", v.len())
        }
        Err(e) => format!("err:{e:?}").replace(' ', "_"),
    };
    let b = match PatchGroup::select_next_patches(font.clone(), &def) {
        Ok(g) => format!("{}", g.uris().map(|u| u.len()).sum::<usize>()),
        Err(e) => format!("err:{e:?}").replace(' ', "_"),
    };
    format!("ok template={} expanded={total} intersecting={a} selected={b}", template.len())
}

pub fn ifturi_jobs(thorough: bool) -> Vec<Job> {
    let name = "stress-ift-uri-template-expansion-returns-value";
    let mut v = vec![];
    for unit in ["id", "id64", "d", "pct", "utf8", "mixed", "lit", "badvar", "open"] {
        for (tlen, idlen) in [(65535usize, 0usize), (65535, 1), (65535, 100), (4, 65535), (16, 65535), (400, 65535), (65535, 1000)] {
            // the expansion is about (tlen / |unit|) * 1.6 * idlen bytes: keep it below ~ 60 MB
            if !thorough && tlen == 65535 && idlen == 1000 && !(unit == "id" || unit == "mixed") {
                continue;
            }
            v.push(job(name, format!("stress ifturi unit={unit} tlen={tlen} idlen={idlen}")));
        }
        v.push(job(name, format!("stress ifturi unit={unit} tlen=65535 idlen=0 numeric=1")));
    }
    // ids made of one repeated byte (leading zero trimming, all-0xFF)
    for b in [0usize, 255] {
        v.push(job(name, format!("stress ifturi unit=mixed tlen=300 idlen=65535 idbyte={}", if b == 0 { 256 } else { b })));
    }
    v
}

fn iftapply_case(p: &Params) -> String {
    use incremental_font_transfer::patch_group::{PatchGroup, UriStatus};
    use incremental_font_transfer::patchmap::SubsetDefinition;
    let n = p.n("n");
    let kind = p.s("kind");
    let builtin = p.s("dec") == "builtin";
    let wrap = |raw: Vec<u8>| -> Vec<u8> {
        if builtin {
            super::brotli_stored(&raw.chunks(1 << 20).map(|c| c.to_vec()).collect::<Vec<_>>())
        } else {
            raw
        }
    };
    let map_fmt = if kind == "tk" { 1 } else { 3 };
    let ift = ift2_table("chain", 0, false, 0, map_fmt, b"//foo.bar/{id}");
    let mut tables: Vec<([u8; 4], Vec<u8>)> = vec![(*b"IFT ", ift)];
    let patch: Vec<u8> = if kind == "tk" {
        tables.push((*b"tab1", b"abcdef\n".to_vec()));
        let count = n.min(65535);
        let mut t: Vec<u8> = b"iftk".to_vec();
        be32(&mut t, 0);
        for w in [1u32, 2, 3, 4] {
            be32(&mut t, w);
        }
        be16(&mut t, count as u16);
        let mut bodies: Vec<u8> = vec![];
        let mut offs: Vec<u32> = vec![];
        let first = 4 + 4 + 16 + 2 + 4 * (count + 1);
        for i in 0..count {
            offs.push((first + bodies.len()) as u32);
            // distinct tags (same = p.n("same") == 1: every patch addresses the same table)
            let tag = if p.n("same") == 1 { *b"tab1" } else { [b'A' + (i % 26) as u8, b'a' + (i / 26 % 26) as u8, b'0' + (i / 676 % 10) as u8, b'0' + (i / 6760 % 10) as u8] };
            bodies.extend_from_slice(&tag);
            bodies.push(match p.s("op") {
                "drop" => 2,
                "patch" => 0,
                _ => 1,
            });
            let raw = vec![b'x'; 1 + i % 3];
            be32(&mut bodies, 16);
            bodies.extend_from_slice(&wrap(raw));
        }
        offs.push((first + bodies.len()) as u32);
        for o in offs {
            be32(&mut t, o);
        }
        t.extend_from_slice(&bodies);
        t
    } else {
        // glyph keyed: glyf + loca of min(n, 65535) empty glyphs
        let g = n.clamp(1, 65535);
        tables.push((*b"head", minimal_head(1000, true)));
        let mut maxp = vec![0u8; 6];
        maxp[0..4].copy_from_slice(&0x00005000u32.to_be_bytes());
        maxp[4..6].copy_from_slice(&(g as u16).to_be_bytes());
        tables.push((*b"maxp", maxp));
        tables.push((*b"loca", vec![0u8; 4 * (g + 1)]));
        tables.push((*b"glyf", vec![0u8; 4]));
        let wide = p.n("wide") == 1;
        let ntab = p.n("tables").max(1).min(255);
        let mut pl: Vec<u8> = vec![];
        be32(&mut pl, n as u32);
        pl.push(ntab as u8);
        for i in 0..n {
            if wide {
                be24(&mut pl, i as u32);
            } else {
                be16(&mut pl, i as u16);
            }
        }
        for k in 0..ntab {
            pl.extend_from_slice(if k == 0 { b"glyf" } else if k == 1 { b"gvar" } else { b"CFF " });
        }
        let first = pl.len() + 4 * (n * ntab + 1);
        for i in 0..=n * ntab {
            be32(&mut pl, (first + 2 * i) as u32);
        }
        pl.extend(std::iter::repeat(0u8).take(2 * n * ntab));
        let mut t: Vec<u8> = b"ifgk".to_vec();
        be32(&mut t, 0);
        t.push(wide as u8);
        for w in [1u32, 2, 3, 4] {
            be32(&mut t, w);
        }
        be32(&mut t, pl.len() as u32);
        t.extend_from_slice(&wrap(pl));
        t
    };
    let data = sfnt(tables);
    let Ok(font) = FontRef::new(&data) else { return "font-failed".into() };
    let Ok(group) = PatchGroup::select_next_patches(font.clone(), &SubsetDefinition::all()) else { return "ok select-error".into() };
    let uris: Vec<String> = group.uris().map(|s| s.to_string()).collect();
    let mut status: HashMap<String, UriStatus> = HashMap::new();
    for u in &uris {
        status.insert(u.clone(), UriStatus::Pending(patch.clone()));
    }
    let r = if builtin { group.apply_next_patches(&mut status) } else { group.apply_next_patches_with_decoder(&mut status, &shared_brotli_patch_decoder::NoopBrotliDecoder) };
    match r {
        Ok(bytes) => {
            let nt = FontRef::new(&bytes).map(|f| f.table_directory.num_tables()).unwrap_or(0);
            format!("ok patch={} uris={} applied bytes={} tables={nt}", patch.len(), uris.len(), bytes.len())
        }
        Err(e) => format!("ok patch={} uris={} error={}", patch.len(), uris.len(), format!("{e:?}").replace(' ', "_").chars().take(80).collect::<String>()),
    }
}

pub fn iftapply_jobs(thorough: bool) -> Vec<Job> {
    let name = "stress-ift-patch-with-huge-counts-returns-value";
    let mut v = vec![];
    for n in [0usize, 1, 1000, 65_535] {
        for op in ["replace", "drop", "patch"] {
            for same in [0, 1] {
                if !thorough && n == 1000 && same == 1 {
                    continue;
                }
                v.push(job(name, format!("stress iftapply kind=tk n={n} op={op} same={same} dec=noop")));
            }
        }
    }
    v.push(job(name, "stress iftapply kind=tk n=1000 op=replace same=0 dec=builtin".into()));
    v.push(job(name, "stress iftapply kind=tk n=65535 op=replace same=0 dec=builtin".into()));
    for n in [0usize, 1, 1000, 65_535, 65_536, 100_000] {
        for wide in [0, 1] {
            for tables in [1usize, 2, 3] {
                if !thorough && tables == 3 && n != 100_000 {
                    continue;
                }
                v.push(job(name, format!("stress iftapply kind=gk n={n} wide={wide} tables={tables} dec=noop")));
            }
        }
    }
    v.push(job(name, "stress iftapply kind=gk n=100000 wide=1 tables=1 dec=builtin".into()));
    if thorough {
        v.push(job(name, "stress iftapply kind=gk n=1000000 wide=1 tables=1 dec=noop".into()));
    }
    v
}

// ------------------------------------------------------------------------------------------------
// GSUB contextual lookup nesting (autohinter style coverage: skrifa autohint/shape.rs GsubHandler, limit 64)
// ------------------------------------------------------------------------------------------------

/// GSUB with script `latn` + `DFLT`, one feature and `n` contextual format 3 lookups (no input glyphs, one or two
/// nested lookup records): chain i -> i+1, cycle, dag2 (i -> i+1 and i+2), self (i -> i)
fn gsub_table(shape: &str, n: usize, all_in_feature: bool) -> Vec<u8> {
    let n = n.clamp(1, 2900);
    let mut t: Vec<u8> = vec![];
    be16(&mut t, 1);
    be16(&mut t, 0);
    be16(&mut t, 10); // script list
    let script_list_len = 2 + 2 * 6 + 4 + 8;
    be16(&mut t, 10 + script_list_len as u16); // feature list
    let listed = if all_in_feature { n } else { 1 };
    let feature_list_len = 2 + 6 + 4 + 2 * listed;
    be16(&mut t, (10 + script_list_len + feature_list_len) as u16); // lookup list
    // ScriptList: DFLT + latn share one Script table
    be16(&mut t, 2);
    t.extend_from_slice(b"DFLT");
    be16(&mut t, 14);
    t.extend_from_slice(b"latn");
    be16(&mut t, 14);
    be16(&mut t, 4); // Script: defaultLangSys at 4
    be16(&mut t, 0);
    be16(&mut t, 0); // LangSys
    be16(&mut t, 0xFFFF);
    be16(&mut t, 1);
    be16(&mut t, 0);
    // FeatureList
    be16(&mut t, 1);
    t.extend_from_slice(b"liga");
    be16(&mut t, 8);
    be16(&mut t, 0);
    be16(&mut t, listed as u16);
    for i in 0..listed {
        be16(&mut t, i as u16);
    }
    // LookupList
    let recs = |i: usize| -> Vec<u16> {
        match shape {
            "cycle" => vec![((i + 1) % n) as u16],
            "dag2" => vec![(i + 1).min(n - 1) as u16, (i + 2).min(n - 1) as u16],
            "self" => vec![i as u16],
            "past" => vec![(i + 1) as u16], // the last one refers past the end of the list
            _ => {
                if i + 1 < n {
                    vec![(i + 1) as u16]
                } else {
                    vec![]
                }
            }
        }
    };
    be16(&mut t, n as u16);
    let mut off = 2 + 2 * n;
    for i in 0..n {
        be16(&mut t, off.min(65535) as u16);
        off += 14 + 4 * recs(i).len();
    }
    for i in 0..n {
        let r = recs(i);
        be16(&mut t, 5);
        be16(&mut t, 0);
        be16(&mut t, 1);
        be16(&mut t, 8);
        be16(&mut t, 3);
        be16(&mut t, 0);
        be16(&mut t, r.len() as u16);
        for x in r {
            be16(&mut t, 0);
            be16(&mut t, x);
        }
    }
    t
}

fn gsubnest_case(p: &Params) -> String {
    let base = match shape_font("rects", 3, 4) {
        Ok(d) => d,
        Err(e) => return format!("build-failed {e}"),
    };
    let Ok(basef) = FontRef::new(&base) else { return "font-failed".into() };
    let gsub = gsub_table(p.s("shape"), p.n("n"), p.n("all") == 1);
    let glen = gsub.len();
    let mut fb = write_fonts::FontBuilder::new();
    for rec in basef.table_directory.table_records() {
        if let Some(d) = basef.table_data(rec.tag()) {
            fb.add_raw(rec.tag(), d.as_bytes().to_vec());
        }
    }
    fb.add_raw(Tag::new(b"GSUB"), gsub);
    let bytes = fb.build();
    let Ok(font) = FontRef::new(&bytes) else { return "font-failed".into() };
    let mut out = format!("ok gsub={glen}");
    draw_all_engines(&font, 1, &[16.0], &mut out);
    out
}

pub fn gsubnest_jobs(thorough: bool) -> Vec<Job> {
    let name = "stress-gsub-lookup-nesting-returns-value";
    let mut v = vec![];
    let mut sizes = vec![1usize, 2, 63, 64, 65, 66, 1000, 2900];
    if thorough {
        sizes.extend_from_slice(&[3, 32, 128, 500, 2000]);
    }
    for shape in ["chain", "cycle", "dag2", "self", "past"] {
        for &n in &sizes {
            for all in [0, 1] {
                v.push(job(name, format!("stress gsubnest shape={shape} n={n} all={all}")));
                if n >= 63 {
                    v.push(job(name, format!("stress gsubnest shape={shape} n={n} all={all} stack=256")));
                }
            }
        }
    }
    v
}

// ------------------------------------------------------------------------------------------------
// HintMap::insert correspondence (Model/HintMap.lean) through the verif hook
// ------------------------------------------------------------------------------------------------

/// child side of `hintmap op op ...` (op = fb:csb:dsb:ft:cst:dst): the real `HintMap::insert` sequence
pub fn hintmap_child(t: &[&str]) -> String {
    let mut ops: Vec<[i32; 6]> = vec![];
    for tok in t {
        if *tok == "-" {
            continue;
        }
        let v: Vec<i32> = tok.split(':').filter_map(|x| x.parse().ok()).collect();
        if v.len() != 6 {
            return "bad-request".into();
        }
        ops.push([v[0], v[1], v[2], v[3], v[4], v[5]]);
    }
    match catch(|| skrifa::outline::verif_hooks::cff_hint_map_inserts(0x10000 / 64, &ops)) {
        Ok(edges) => {
            let es: Vec<String> = edges.iter().map(|e| format!("{}:{}:{}", e[0], e[1], e[2])).collect();
            format!("len={} {}", edges.len(), if es.is_empty() { "-".to_string() } else { es.join(",") })
        }
        Err(_) => "panic".into(),
    }
}

/// insert sequences: ascending / descending / shuffled ghosts and pairs filling the map to 93 .. 97 edges and beyond,
/// then probes at the bottom, in the middle, inside a pair and at the top; random soups with collisions, inverted
/// pairs, invalid hints, locked flags and device-space disorder
pub fn hintmap_requests(rng: &mut Rng, n: usize) -> Vec<String> {
    const GB: i32 = 1;
    const GT: i32 = 2;
    const PB: i32 = 4;
    const PT: i32 = 8;
    let mut out = vec![];
    let fmt = |ops: &[[i32; 6]]| -> String {
        if ops.is_empty() {
            "hintmap -".to_string()
        } else {
            format!("hintmap {}", ops.iter().map(|o| o.iter().map(|x| x.to_string()).collect::<Vec<_>>().join(":")).collect::<Vec<_>>().join(" "))
        }
    };
    for i in 0..n {
        let mut ops: Vec<[i32; 6]> = vec![];
        let unit = 0x10000;
        match i % 4 {
            0 | 1 => {
                // structured fill: g ghosts + p pairs, disjoint, then probes
                let ghosts = rng.below(5) as usize;
                let target = *rng.pick(&[90usize, 93, 94, 95, 96, 97, 98, 120]);
                let pairs = target.saturating_sub(ghosts) / 2 + rng.below(2) as usize;
                let mut stems: Vec<[i32; 6]> = vec![];
                let mut y = -50 * unit;
                for k in 0..ghosts + pairs {
                    let ghost = k < ghosts;
                    if ghost {
                        if k % 2 == 0 {
                            stems.push([GB, y, y / 64, 0, 0, 0]);
                        } else {
                            stems.push([0, 0, 0, GT, y, y / 64]);
                        }
                        y += 3 * unit;
                    } else {
                        stems.push([PB, y, y / 64, PT, y + 4 * unit, (y + 4 * unit) / 64]);
                        y += 7 * unit;
                    }
                }
                match rng.below(3) {
                    0 => {}
                    1 => stems.reverse(),
                    _ => {
                        for k in (1..stems.len()).rev() {
                            let j = rng.below(k as u64 + 1) as usize;
                            stems.swap(k, j);
                        }
                    }
                }
                ops.extend(stems);
                // probes
                for _ in 0..1 + rng.below(4) {
                    let py = match rng.below(4) {
                        0 => -90 * unit,
                        1 => y + 20 * unit,
                        2 => -50 * unit + rng.below(600) as i32 * unit + unit / 2,
                        _ => -50 * unit + rng.below(600) as i32 * unit,
                    };
                    if rng.chance(1, 3) {
                        ops.push([GB, py, py / 64, 0, 0, 0]);
                    } else {
                        let w = 1 + rng.below(3) as i32;
                        ops.push([PB, py, py / 64, PT, py + w * unit / 2, (py + w * unit / 2) / 64]);
                    }
                }
            }
            _ => {
                // random soup
                let k = *rng.pick(&[0usize, 1, 5, 20, 60, 100, 140]);
                for _ in 0..k {
                    let a = rng.range(-40, 200) as i32 * unit / 4;
                    let w = rng.range(-8, 24) as i32 * unit / 4;
                    let ds = |rng: &mut Rng, cs: i32| -> i32 {
                        match rng.below(8) {
                            0 => cs / 64 + rng.range(-3000, 3000) as i32,
                            1 => rng.range(-200000, 200000) as i32,
                            _ => cs / 64,
                        }
                    };
                    let lock = if rng.chance(1, 6) { 16 } else { 0 };
                    let synth = if rng.chance(1, 12) { 32 } else { 0 };
                    let op = match rng.below(10) {
                        0 => [GB | lock | synth, a, ds(rng, a), 0, 0, 0],
                        1 => [0, 0, 0, GT | lock | synth, a, ds(rng, a)],
                        2 => [0, 0, 0, 0, 0, 0],
                        3 => [GB, a, ds(rng, a), GT, a + w, ds(rng, a + w)],
                        4 => [PT, a, ds(rng, a), PB, a + w, ds(rng, a + w)],
                        _ => [PB | lock, a, ds(rng, a), PT | lock, a + w, ds(rng, a + w)],
                    };
                    ops.push(op);
                }
            }
        }
        out.push(fmt(&ops));
    }
    out
}

// ------------------------------------------------------------------------------------------------
// CFF2 FDArray / FDSelect sizes (one hinting subfont per Font DICT)
// ------------------------------------------------------------------------------------------------

fn cfffd_case(p: &Params) -> String {
    use super::charstring::{dict_int, index_bytes};
    let n = p.n("n");
    let sel = p.s("sel");
    let fd = p.n("fd");
    let mut cs: Vec<u8> = vec![];
    for s in stems_charstring(&[Stem::Pair(20), Stem::GhostBottom, Stem::Pair(30)], 0, 100, 1) {
        cs.push(s);
    }
    for (x, y, op) in [(0, 0, 21u8), (50, 0, 5), (0, 300, 5)] {
        cs_num(&mut cs, x);
        cs_num(&mut cs, y);
        cs.push(op);
    }
    let has_sel = sel != "none";
    let top_len = 6 + 7 + if has_sel { 7 } else { 0 };
    let mut t: Vec<u8> = vec![2, 0, 5];
    be16(&mut t, top_len as u16);
    let gsubrs = index_bytes(true, 1, &[]);
    let charstrings = index_bytes(true, 4, &[vec![], cs]);
    let cs_off = 5 + top_len + gsubrs.len();
    let fd_off = cs_off + charstrings.len();
    let fd_index_len = if n == 0 { 4 } else { 4 + 1 + 4 * (n + 1) + 11 * n };
    let sel_off = fd_off + fd_index_len;
    let fdselect: Vec<u8> = match sel {
        "0" => vec![0, 0, fd.min(255) as u8],
        "3" => {
            let mut v = vec![3];
            be16(&mut v, 2);
            be16(&mut v, 0);
            v.push(0);
            be16(&mut v, 1);
            v.push(fd.min(255) as u8);
            be16(&mut v, 2);
            v
        }
        "4" => {
            let mut v = vec![4];
            be32(&mut v, 2);
            be32(&mut v, 0);
            be16(&mut v, 0);
            be32(&mut v, 1);
            be16(&mut v, fd.min(65535) as u16);
            be32(&mut v, 2);
            v
        }
        // ranges that do not cover the glyph / descending / huge count
        "3bad" => {
            let mut v = vec![3];
            be16(&mut v, 65535);
            be16(&mut v, 1);
            v.push(fd.min(255) as u8);
            be16(&mut v, 0);
            v
        }
        _ => vec![],
    };
    let priv_off = sel_off + fdselect.len();
    let private = blues_dict(&[6], &[-15, 0, 700, 715]);
    let mut top: Vec<u8> = vec![];
    dict_int(&mut top, cs_off as u32);
    top.push(17);
    dict_int(&mut top, fd_off as u32);
    top.extend_from_slice(&[12, 36]);
    if has_sel {
        dict_int(&mut top, sel_off as u32);
        top.extend_from_slice(&[12, 37]);
    }
    t.extend_from_slice(&top);
    t.extend_from_slice(&gsubrs);
    t.extend_from_slice(&charstrings);
    let mut font_dict: Vec<u8> = vec![];
    dict_int(&mut font_dict, private.len() as u32);
    dict_int(&mut font_dict, priv_off as u32);
    font_dict.push(18);
    t.extend_from_slice(&index_bytes(true, 4, &vec![font_dict; n]));
    t.extend_from_slice(&fdselect);
    t.extend_from_slice(&private);
    let mut maxp = vec![0u8; 6];
    maxp[0..4].copy_from_slice(&0x00005000u32.to_be_bytes());
    maxp[4..6].copy_from_slice(&2u16.to_be_bytes());
    let mut hhea = vec![0u8; 36];
    hhea[0..4].copy_from_slice(&0x00010000u32.to_be_bytes());
    hhea[34..36].copy_from_slice(&2u16.to_be_bytes());
    let hmtx = vec![1, 244, 0, 0, 1, 244, 0, 0];
    let data = sfnt(vec![(*b"CFF2", t), (*b"head", minimal_head(1000, false)), (*b"maxp", maxp), (*b"hhea", hhea), (*b"hmtx", hmtx)]);
    let Ok(font) = FontRef::new(&data) else { return "font-failed".into() };
    let mut out = format!("ok bytes={}", data.len());
    draw_all_engines(&font, 1, &[16.0], &mut out);
    out
}

pub fn cfffd_jobs(_thorough: bool) -> Vec<Job> {
    let name = "stress-cff-fdarray-fdselect-returns-value";
    let mut v = vec![];
    for n in [0usize, 1, 2, 255, 256, 257, 65_535, 65_536, 100_000] {
        for sel in ["none", "0", "3", "4", "3bad"] {
            let fds: Vec<usize> = vec![0, n.saturating_sub(1), n, 255, 65_535];
            for fd in fds {
                if sel == "none" && fd != 0 {
                    continue;
                }
                if n > 60_000 && !(fd == 0 || fd + 1 == n || fd == n) {
                    continue;
                }
                v.push(job(name, format!("stress cfffd n={n} sel={sel} fd={fd}")));
            }
        }
    }
    v
}

// ------------------------------------------------------------------------------------------------
// CFF glyphs with 65535 .. 65537 points (the autohinter indexes outline points with u16)
// ------------------------------------------------------------------------------------------------

fn cffpoints_case(p: &Params) -> String {
    let n = p.n("n");
    let contours = p.n("contours").max(1);
    let mut cs: Vec<u8> = vec![];
    let per = n / contours;
    let mut left = n;
    for c in 0..contours {
        let k = if c + 1 == contours { left } else { per };
        left -= k;
        if k == 0 {
            continue;
        }
        // rmoveto = 1 point, then rlineto batches of up to 200 points (zigzag)
        cs_num(&mut cs, 3);
        cs_num(&mut cs, 2);
        cs.push(21);
        let mut todo = k - 1;
        let mut i = 0usize;
        while todo > 0 {
            let b = todo.min(200);
            for _ in 0..b {
                cs_num(&mut cs, if i % 2 == 0 { 5 } else { -4 });
                cs_num(&mut cs, if i % 4 < 2 { 3 } else { -3 });
                i += 1;
            }
            cs.push(5);
            todo -= b;
        }
    }
    let cff2 = p.n("cff2") == 1;
    if !cff2 {
        cs.push(14);
    }
    let c = super::charstring::Case {
        cff2,
        gsubrs: super::charstring::index_bytes(cff2, 1, &[vec![11]]),
        lsubrs: None,
        blend: None,
        cs,
        family: "stress",
        private_extra: blues_dict(&[6], &[-15, 0, 700, 715]),
    };
    let data = match super::charstring::build_cff_font(&c) {
        Ok(d) => d,
        Err(e) => return format!("build-failed {e}"),
    };
    let Ok(font) = FontRef::new(&data) else { return "font-failed".into() };
    let mut out = format!("ok bytes={}", data.len());
    draw_all_engines(&font, 1, &[16.0], &mut out);
    out
}

pub fn cffpoints_jobs() -> Vec<Job> {
    let mut v = vec![];
    for n in [65_534usize, 65_535, 65_536, 65_537, 70_000, 131_072] {
        for contours in [1usize, 2, 300] {
            for cff2 in [0, 1] {
                v.push(job("stress-glyph-shape-capacity-returns-value", format!("stress cffpoints n={n} contours={contours} cff2={cff2}")));
            }
        }
    }
    v
}

// ------------------------------------------------------------------------------------------------
// composite whose LATE component has a non-last contour end point beyond its own point count
// ------------------------------------------------------------------------------------------------

fn hbcontour_case(p: &Params) -> String {
    let first_pts = p.n("first").clamp(1, 65535);
    let bogus = p.n("end").min(65535) as u16;
    // glyph 1: `first_pts` points, no coordinate bytes (x / y "same"), flags run-length encoded
    let mut g1: Vec<u8> = vec![];
    be16(&mut g1, 1);
    g1.extend_from_slice(&[0u8; 8]);
    be16(&mut g1, (first_pts - 1) as u16);
    be16(&mut g1, 0);
    let mut left = first_pts;
    while left > 0 {
        let k = left.min(256);
        g1.push(0x01 | 0x10 | 0x20 | if k > 1 { 0x08 } else { 0 });
        if k > 1 {
            g1.push((k - 1) as u8);
        }
        left -= k;
    }
    // glyph 2: two contours, end points [bogus, 5], 6 points
    let mut g2: Vec<u8> = vec![];
    be16(&mut g2, 2);
    g2.extend_from_slice(&[0u8; 8]);
    be16(&mut g2, bogus);
    be16(&mut g2, 5);
    be16(&mut g2, 0);
    g2.extend_from_slice(&[0x31 | 0x08, 5]);
    // glyph 0: composite of glyph 1 then glyph 2 (ARGS_ARE_XY_VALUES, MORE_COMPONENTS on the first)
    let mut g0: Vec<u8> = vec![];
    g0.extend_from_slice(&(-1i16).to_be_bytes());
    g0.extend_from_slice(&[0u8; 8]);
    for (flags, gid) in [(0x0002u16 | 0x0020, 1u16), (0x0002, 2)] {
        be16(&mut g0, flags);
        be16(&mut g0, gid);
        g0.extend_from_slice(&[0, 0]);
    }
    let mut glyf: Vec<u8> = vec![];
    let mut loca: Vec<u8> = vec![];
    for g in [&g0, &g1, &g2] {
        be32(&mut loca, glyf.len() as u32);
        glyf.extend_from_slice(g);
        while glyf.len() % 4 != 0 {
            glyf.push(0);
        }
    }
    be32(&mut loca, glyf.len() as u32);
    let mut maxp: Vec<u8> = vec![];
    be32(&mut maxp, 0x00010000);
    for v in [3u16, 65535, 300, 65535, 300, 2, 0, 0, 0, 0, 16, 0, 2, 1] {
        be16(&mut maxp, v);
    }
    let mut hhea = vec![0u8; 36];
    hhea[0..4].copy_from_slice(&0x00010000u32.to_be_bytes());
    hhea[34..36].copy_from_slice(&1u16.to_be_bytes());
    let data = sfnt(vec![(*b"head", minimal_head(1000, true)), (*b"maxp", maxp), (*b"hhea", hhea), (*b"hmtx", vec![1, 244, 0, 0, 0, 0, 0, 0]), (*b"glyf", glyf), (*b"loca", loca)]);
    let Ok(font) = FontRef::new(&data) else { return "font-failed".into() };
    let outlines = font.outline_glyphs();
    let mut out = "ok".to_string();
    for gid in [0u32, 2, 1] {
        let Some(g) = outlines.get(GlyphId::new(gid)) else {
            out.push_str(" none");
            continue;
        };
        for style in [skrifa::outline::pen::PathStyle::HarfBuzz, skrifa::outline::pen::PathStyle::FreeType] {
            for size in [Size::unscaled(), Size::new(16.0)] {
                let mut pen = NullPen(0);
                let r = g.draw(DrawSettings::unhinted(size, LocationRef::default()).with_path_style(style), &mut pen);
                out.push_str(if r.is_ok() { " Ok" } else { " Err" });
            }
        }
    }
    draw_all_engines(&font, 0, &[16.0], &mut out);
    out
}

pub fn hbcontour_jobs() -> Vec<Job> {
    let mut v = vec![];
    for (first, end) in [(10usize, 3usize), (10, 60_000), (40_000, 3), (40_000, 25_534), (40_000, 25_535), (40_000, 25_536), (40_000, 60_000), (65_529, 5), (65_000, 65_535), (1, 65_535)] {
        v.push(job("stress-glyf-composite-nesting-returns-value", format!("stress hbcontour first={first} end={end}")));
    }
    v
}
