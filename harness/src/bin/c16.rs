//! C16 — layout builders and overflow splitting preserve glyph-level lookup semantics.
//!
//! Correspondence (real code vs Model/Layout.lean): coverage / classdef builders + readers on
//! boundary-dense glyph sets, readers on arbitrary (also malformed) tables, `split_coverage` via the
//! `verif_split_coverage` hook, the PairPos-1 split-point heuristic and split loop end-to-end.
//! Oracles (model-independent): set semantics of coverage / classdef lookups, the split
//! specification, and a reference GPOS lookup walker over read-fonts for PairPos (glyph and class
//! based) and MarkToBase rule sets compiled through the full GPOS path (splitting + extension
//! promotion), compared with the input rules for every probed pair.
use fv_harness::common::*;
use font_types::{GlyphId, GlyphId16};
use read_fonts::collections::IntSet;
use read_fonts::tables::layout as rl;
use read_fonts::{FontData, FontRead};
use std::collections::{BTreeMap, BTreeSet};
use write_fonts::tables::layout as wl;
use write_fonts::tables::layout::builders::{ClassDefBuilder, CoverageTableBuilder};

#[path = "c16/e2e.rs"]
mod e2e;
#[path = "c16/lookup.rs"]
mod lookup;
#[path = "c16/ppf1.rs"]
mod ppf1;
#[path = "c16/split2.rs"]
mod split2;

fn g16(v: u16) -> GlyphId16 {
    GlyphId16::new(v)
}

// ---------------------------------------------------------------- rendering (canonical strings)

fn render_cov(c: &rl::CoverageTable) -> String {
    match c {
        rl::CoverageTable::Format1(t) => {
            let v: Vec<u16> = t.glyph_array().iter().map(|g| g.get().to_u16()).collect();
            format!("1 {}", join(&v))
        }
        rl::CoverageTable::Format2(t) => {
            let mut v: Vec<u16> = vec![];
            for r in t.range_records() {
                v.push(r.start_glyph_id().to_u16());
                v.push(r.end_glyph_id().to_u16());
                v.push(r.start_coverage_index());
            }
            format!("2 {}", join(&v))
        }
    }
}

fn render_cd(c: &rl::ClassDef) -> String {
    match c {
        rl::ClassDef::Format1(t) => {
            let v: Vec<u16> = t.class_value_array().iter().map(|g| g.get()).collect();
            format!("1 {} {}", t.start_glyph_id().to_u16(), join(&v))
        }
        rl::ClassDef::Format2(t) => {
            let mut v: Vec<u16> = vec![];
            for r in t.class_range_records() {
                v.push(r.start_glyph_id().to_u16());
                v.push(r.end_glyph_id().to_u16());
                v.push(r.class());
            }
            format!("2 {}", join(&v))
        }
    }
}

fn show_opt(o: Option<u16>) -> String {
    match o {
        None => "n".into(),
        Some(i) => i.to_string(),
    }
}

fn cov_gets(c: &rl::CoverageTable, probes: &[u32]) -> Vec<Option<u16>> {
    probes.iter().map(|g| c.get(GlyphId::new(*g))).collect()
}

fn show_gets(v: &[Option<u16>]) -> String {
    if v.is_empty() {
        return "-".into();
    }
    v.iter().map(|o| show_opt(*o)).collect::<Vec<_>>().join(" ")
}

fn be(v: &mut Vec<u8>, x: u16) {
    v.extend_from_slice(&x.to_be_bytes());
}

fn cov1_bytes(gs: &[u16]) -> Vec<u8> {
    let mut v = vec![];
    be(&mut v, 1);
    be(&mut v, gs.len() as u16);
    for g in gs {
        be(&mut v, *g);
    }
    v
}

fn cov2_bytes(recs: &[(u16, u16, u16)]) -> Vec<u8> {
    let mut v = vec![];
    be(&mut v, 2);
    be(&mut v, recs.len() as u16);
    for r in recs {
        be(&mut v, r.0);
        be(&mut v, r.1);
        be(&mut v, r.2);
    }
    v
}

fn cd1_bytes(start: u16, cs: &[u16]) -> Vec<u8> {
    let mut v = vec![];
    be(&mut v, 1);
    be(&mut v, start);
    be(&mut v, cs.len() as u16);
    for c in cs {
        be(&mut v, *c);
    }
    v
}

fn cd2_bytes(recs: &[(u16, u16, u16)]) -> Vec<u8> {
    cov2_bytes(recs)
}

/// independent format-2 serialisation of a sorted distinct glyph list (maximal runs)
fn runs_of(sorted: &[u16]) -> Vec<(u16, u16, u16)> {
    let mut out: Vec<(u16, u16, u16)> = vec![];
    for (i, g) in sorted.iter().enumerate() {
        match out.last_mut() {
            Some(r) if r.1 as u32 + 1 == *g as u32 => r.1 = *g,
            _ => out.push((*g, *g, i as u16)),
        }
    }
    out
}

// ---------------------------------------------------------------- generators

fn edge_gid(rng: &mut Rng) -> u16 {
    *rng.pick(&[0u16, 1, 2, 3, 0x7FFF, 0x8000, 0xFFFD, 0xFFFE, 0xFFFF, 255, 256])
}

/// random glyph set; returns the *unsorted* input (maybe with duplicates)
fn gen_glyphs(rng: &mut Rng, s: &mut Session, big: bool) -> Vec<u16> {
    let kind = rng.below(9);
    let mut v: Vec<u16> = vec![];
    match kind {
        0 => {
            s.count("gen:empty-or-singleton");
            if rng.chance(2, 3) {
                v.push(if rng.chance(1, 2) { edge_gid(rng) } else { rng.next() as u16 });
            }
        }
        1 => {
            s.count("gen:sparse");
            let n = rng.range(1, 60);
            for _ in 0..n {
                v.push(rng.next() as u16);
            }
        }
        2 | 3 => {
            s.count("gen:runs");
            let nruns = rng.range(1, 8);
            let mut at = if rng.chance(1, 4) { 0u32 } else { rng.below(60000) as u32 };
            for _ in 0..nruns {
                let len = rng.range(1, 40) as u32;
                for k in 0..len {
                    if at + k <= 0xFFFF {
                        v.push((at + k) as u16);
                    }
                }
                at += len + rng.range(1, 30) as u32;
            }
        }
        4 => {
            // around the format-choice threshold: r runs, n glyphs with n in {3r-1, 3r, 3r+1}
            s.count("gen:threshold");
            let r = rng.range(1, 12) as u32;
            let n = (3 * r as i64 + rng.range(-1, 1)).max(r as i64) as u32;
            let mut lens = vec![1u32; r as usize];
            for _ in 0..(n - r) {
                let k = rng.below(r as u64) as usize;
                lens[k] += 1;
            }
            let mut at = rng.below(1000) as u32;
            for l in lens {
                for k in 0..l {
                    v.push((at + k) as u16);
                }
                at += l + 1 + rng.below(3) as u32;
            }
        }
        5 => {
            s.count("gen:top-edge");
            let len = rng.range(1, 50) as u32;
            for k in 0..len {
                v.push((0xFFFF - k) as u16);
            }
            if rng.chance(1, 2) {
                v.push(0);
                v.push(1);
            }
            if rng.chance(1, 2) {
                v.push(0xFFFF - len as u16 - 1 - rng.below(3) as u16);
            }
        }
        6 => {
            s.count("gen:alternating");
            let n = rng.range(2, 40) as u32;
            let at = rng.below(65000) as u32;
            for k in 0..n {
                if at + 2 * k <= 0xFFFF {
                    v.push((at + 2 * k) as u16);
                }
            }
        }
        7 => {
            s.count("gen:big-start-cov");
            // format 2 whose start_coverage_index + gid exceeds u16
            let lo = rng.range(1, 3000) as u32;
            for k in 0..lo {
                v.push(k as u16);
            }
            let hi_start = 0xFFFF - rng.range(0, 2000) as u32;
            for g in hi_start..=0xFFFF {
                v.push(g as u16);
            }
            if !big && v.len() > 1500 {
                v.truncate(1500);
                v.push(0xFFFF);
                v.push(0xFFFE);
            }
        }
        _ => {
            if big {
                s.count("gen:large");
                let n = rng.range(1000, 4000);
                let dense = rng.chance(1, 2);
                let mut at = rng.below(2000) as u32;
                for _ in 0..n {
                    if at > 0xFFFF {
                        break;
                    }
                    v.push(at as u16);
                    at += if dense && rng.chance(9, 10) { 1 } else { 1 + rng.below(12) as u32 };
                }
            } else {
                s.count("gen:mixed");
                let n = rng.range(2, 120);
                let mut at = rng.below(60000) as u32;
                for _ in 0..n {
                    if at > 0xFFFF {
                        break;
                    }
                    v.push(at as u16);
                    at += if rng.chance(2, 3) { 1 } else { 1 + rng.below(5) as u32 };
                }
            }
        }
    }
    if rng.chance(1, 2) {
        rng.shuffle(&mut v);
    }
    if !v.is_empty() && rng.chance(1, 4) {
        let k = rng.range(1, 4);
        for _ in 0..k {
            let d = *rng.pick(&v);
            v.push(d);
        }
    }
    v
}

fn probes_for(rng: &mut Rng, members: &BTreeSet<u16>, cap: usize) -> Vec<u32> {
    let mut p: BTreeSet<u32> = BTreeSet::new();
    for e in [0u32, 1, 0xFFFE, 0xFFFF, 0x10000, 0x12345, u32::MAX] {
        p.insert(e);
    }
    let ms: Vec<u16> = members.iter().copied().collect();
    let step = (ms.len() / cap.max(1)).max(1);
    for (i, g) in ms.iter().enumerate() {
        let boundary = i == 0
            || i + 1 == ms.len()
            || ms[i - 1] as u32 + 1 != *g as u32
            || ms[i + 1] as u32 != *g as u32 + 1;
        if boundary || i % step == 0 {
            let g = *g as u32;
            p.insert(g);
            p.insert(g + 1);
            if g > 0 {
                p.insert(g - 1);
            }
        }
    }
    for _ in 0..4 {
        p.insert(rng.below(0x10000) as u32);
    }
    let mut v: Vec<u32> = p.into_iter().collect();
    if v.len() > 4 * cap + 16 {
        rng.shuffle(&mut v);
        v.truncate(4 * cap + 16);
        v.sort();
    }
    v
}

// ---------------------------------------------------------------- coverage

fn coverage_case(s: &mut Session, rng: &mut Rng, input: &[u16]) {
    let set: BTreeSet<u16> = input.iter().copied().collect();
    let sorted: Vec<u16> = set.iter().copied().collect();
    let probes = probes_for(rng, &set, 48);
    let inp = input.to_vec();
    let built = catch(|| {
        let t = CoverageTableBuilder::from_glyphs(inp.iter().map(|g| g16(*g)).collect()).build();
        let wlen = t.len();
        let witer: Vec<u16> = t.iter().map(|g| g.to_u16()).collect();
        (write_fonts::dump_table(&t), wlen, witer)
    });
    let req = format!("cov.build {} | {}", join(input), join(&probes));
    let (bytes, wlen, witer) = match built {
        Ok((Ok(b), l, i)) => (b, l, i),
        other => {
            s.case("cov.build", req, "build-failed".into());
            s.oracle("coverage-builds", false, || format!("glyphs [{}]", join(input)), || format!("{:?}", other.map(|x| x.0.map(|_| ()))));
            return;
        }
    };
    let table = match rl::CoverageTable::read(FontData::new(&bytes)) {
        Ok(t) => t,
        Err(e) => {
            s.case("cov.build", req, "unreadable".into());
            s.oracle("coverage-reads-back", false, || format!("glyphs [{}]", join(input)), || e.to_string());
            return;
        }
    };
    match &table {
        rl::CoverageTable::Format1(_) => s.count("cov.build:format1"),
        rl::CoverageTable::Format2(_) => s.count("cov.build:format2"),
    }
    let gets = catch(|| cov_gets(&table, &probes));
    let resp = match &gets {
        Ok(v) => format!("{} | {}", render_cov(&table), show_gets(v)),
        Err(_) => format!("{} | trap", render_cov(&table)),
    };
    s.case("cov.build", req, resp);
    // model-independent oracles: set semantics
    let want: Vec<Option<u16>> = probes
        .iter()
        .map(|g| {
            if *g > 0xFFFF {
                None
            } else {
                sorted.binary_search(&(*g as u16)).ok().map(|i| i as u16)
            }
        })
        .collect();
    s.oracle("coverage-get=index-in-sorted-set", gets.as_ref().ok() == Some(&want),
        || format!("CoverageTableBuilder::from_glyphs([{}]).build(), probes [{}]", join(input), join(&probes)),
        || format!("table {} got {:?} want {}", render_cov(&table), gets.as_ref().map(|v| show_gets(v)), show_gets(&want)));
    let it: Vec<u16> = table.iter().map(|g| g.to_u16()).collect();
    s.oracle("coverage-iter=sorted-set", it == sorted && witer == sorted && wlen == sorted.len(),
        || format!("glyphs [{}]", join(input)), || format!("iter {:?} write-iter {:?} len {}", it, witer, wlen));
    // the chosen format is never larger than the other one
    let runs = runs_of(&sorted);
    let (l1, l2) = (4 + 2 * sorted.len(), 4 + 6 * runs.len());
    s.oracle("coverage-format-is-smaller", bytes.len() == l1.min(l2),
        || format!("glyphs [{}]", join(input)), || format!("len {} f1 {} f2 {}", bytes.len(), l1, l2));
    // iter_for_glyphs directly
    let rr: Vec<u16> = wl::RangeRecord::iter_for_glyphs(&sorted.iter().map(|g| g16(*g)).collect::<Vec<_>>())
        .flat_map(|r| [r.start_glyph_id.to_u16(), r.end_glyph_id.to_u16(), r.start_coverage_index])
        .collect();
    s.case("cov.ranges", format!("cov.ranges {}", join(&sorted)), join(&rr));
    let want_rr: Vec<u16> = runs.iter().flat_map(|r| [r.0, r.1, r.2]).collect();
    s.oracle("iter_for_glyphs=maximal-runs", rr == want_rr, || format!("glyphs [{}]", join(&sorted)), || format!("{:?}", rr));

    // both formats of the same set through the reader and through split_coverage
    split_cases(s, rng, &sorted, &probes);
}

fn read_get_case(s: &mut Session, group: &'static str, tbl: String, bytes: &[u8], probes: &[u32]) {
    let r = catch(|| {
        let t = rl::CoverageTable::read(FontData::new(bytes)).ok()?;
        Some(cov_gets(&t, probes))
    });
    let resp = match &r {
        Ok(Some(v)) => show_gets(v),
        Ok(None) => "unreadable".into(),
        Err(_) => "trap".into(),
    };
    s.case(group, format!("cov.get {} | {}", tbl, join(probes)), resp);
    s.oracle("coverage-get-does-not-panic", r.is_ok(), || format!("coverage [{tbl}] probes [{}]", join(probes)), || format!("{:?}", r.as_ref().err()));
    let it = catch(|| {
        let t = rl::CoverageTable::read(FontData::new(bytes)).ok()?;
        Some(t.iter().take(70000).map(|g| g.to_u16()).collect::<Vec<_>>())
    });
    if let Ok(Some(v)) = it {
        if v.len() < 3000 {
            s.case("cov.iter", format!("cov.iter {tbl}"), join(&v));
        }
    }
}

fn split_one(s: &mut Session, tbl: &str, bytes: &[u8], n: usize, wellformed: bool, start: u16, end: u16, probes: &[u32]) {
    let r = catch(|| write_fonts::verif_split_coverage(bytes, start, end));
    let req = format!("cov.split {tbl} | {start} {end} | {}", join(probes));
    let out = match r {
        Err(_) => {
            s.count("cov.split:trap");
            s.case("cov.split", req, "trap".into());
            if wellformed && start < end && end as usize <= n {
                s.oracle("split_coverage-does-not-panic", false, || format!("coverage [{tbl}] start {start} end {end}"), || "panic".into());
            }
            return;
        }
        Ok(Err(_)) => {
            s.case("cov.split", req, "unreadable".into());
            return;
        }
        Ok(Ok(b)) => b,
    };
    let parsed = catch(|| {
        let t = rl::CoverageTable::read(FontData::new(&out)).ok()?;
        Some((render_cov(&t), cov_gets(&t, probes)))
    });
    match parsed {
        Ok(Some((rendered, gets))) => {
            s.count("cov.split:ok");
            s.case("cov.split", req, format!("{} | {}", rendered, show_gets(&gets)));
            if wellformed && start <= end && end as usize <= n {
                // specification: index i of the original survives iff start <= i < end, as i - start
                let orig = rl::CoverageTable::read(FontData::new(bytes)).unwrap();
                let Ok(orig_gets) = catch(|| cov_gets(&orig, probes)) else {
                    return; // reported by coverage-get-does-not-panic
                };
                let want: Vec<Option<u16>> = orig_gets
                    .into_iter()
                    .map(|o| o.filter(|i| *i >= start && *i < end).map(|i| i - start))
                    .collect();
                s.oracle("split_coverage=filter-and-shift", gets == want,
                    || format!("coverage [{tbl}] start {start} end {end} probes [{}]", join(probes)),
                    || format!("split {} got {} want {}", rendered, show_gets(&gets), show_gets(&want)));
            }
        }
        other => {
            s.case("cov.split", req, "bad-output".into());
            s.oracle("split_coverage-output-readable", false, || format!("coverage [{tbl}] start {start} end {end}"), || format!("{:?}", other.map(|_| ())));
        }
    }
}

fn split_cases(s: &mut Session, rng: &mut Rng, sorted: &[u16], probes: &[u32]) {
    if sorted.len() > 5000 {
        return;
    }
    let n = sorted.len();
    let runs = runs_of(sorted);
    let t1 = format!("1 {}", join(sorted));
    let flat: Vec<u16> = runs.iter().flat_map(|r| [r.0, r.1, r.2]).collect();
    let t2 = format!("2 {}", join(&flat));
    let b1 = cov1_bytes(sorted);
    let b2 = cov2_bytes(&runs);
    read_get_case(s, "cov.get:wf1", t1.clone(), &b1, probes);
    read_get_case(s, "cov.get:wf2", t2.clone(), &b2, probes);
    // split ranges: every run boundary ±1, ends, a few random
    let mut cuts: BTreeSet<usize> = BTreeSet::new();
    for c in [0usize, 1, n.saturating_sub(1), n, n + 1] {
        cuts.insert(c);
    }
    for r in &runs {
        for d in [0i64, -1, 1] {
            let c = r.2 as i64 + d;
            if c >= 0 {
                cuts.insert(c as usize);
            }
        }
    }
    let mut cuts: Vec<usize> = cuts.into_iter().filter(|c| *c <= 0xFFFF).collect();
    if cuts.len() > 10 {
        rng.shuffle(&mut cuts);
        cuts.truncate(10);
    }
    cuts.push(rng.below(n as u64 + 2) as usize);
    let probes: Vec<u32> = if probes.len() > 40 { probes.iter().step_by(probes.len() / 40 + 1).copied().collect() } else { probes.to_vec() };
    for &a in &cuts {
        for &b in &cuts {
            // include a few start > end / start == end cases
            if a > b && !rng.chance(1, 12) {
                continue;
            }
            split_one(s, &t1, &b1, n, true, a as u16, b as u16, &probes);
            split_one(s, &t2, &b2, n, true, a as u16, b as u16, &probes);
        }
    }
}

/// readers and split on arbitrary (unsorted / overlapping / inconsistent) tables
fn malformed_cases(s: &mut Session, rng: &mut Rng) {
    // format 1, arbitrary order
    let n = rng.range(0, 12) as usize;
    let small = rng.chance(1, 2);
    let gs: Vec<u16> = (0..n).map(|_| if small { rng.below(12) as u16 } else { rng.next() as u16 }).collect();
    let mut probes: Vec<u32> = gs.iter().map(|g| *g as u32).collect();
    probes.extend([0u32, 5, 0xFFFF, 0x10000]);
    probes.sort();
    probes.dedup();
    let t1 = format!("1 {}", join(&gs));
    let b1 = cov1_bytes(&gs);
    read_get_case(s, "cov.get:mal1", t1.clone(), &b1, &probes);
    // format 2, arbitrary records
    let m = rng.range(0, 6) as usize;
    let mut recs: Vec<(u16, u16, u16)> = vec![];
    let mode = rng.below(4);
    for _ in 0..m {
        let (a, b, c) = match mode {
            0 => (rng.below(40) as u16, rng.below(40) as u16, rng.below(40) as u16),
            1 => {
                let a = rng.below(60) as u16;
                (a, a + rng.below(10) as u16, rng.below(80) as u16)
            }
            2 => {
                let a = 0xFFFF - rng.below(40) as u16;
                (a, a.saturating_add(rng.below(10) as u16), 0xFFFF - rng.below(40) as u16)
            }
            _ => (rng.next() as u16, rng.next() as u16, rng.next() as u16),
        };
        recs.push((a, b, c));
    }
    if rng.chance(1, 2) {
        recs.sort();
    }
    let mut probes: Vec<u32> = recs.iter().flat_map(|r| [r.0 as u32, r.1 as u32, r.0 as u32 + 1, r.1 as u32 + 1]).collect();
    probes.extend([0u32, 7, 0xFFFF, 0x10000]);
    probes.sort();
    probes.dedup();
    let flat: Vec<u16> = recs.iter().flat_map(|r| [r.0, r.1, r.2]).collect();
    let t2 = format!("2 {}", join(&flat));
    let b2 = cov2_bytes(&recs);
    read_get_case(s, "cov.get:mal2", t2.clone(), &b2, &probes);
    for _ in 0..6 {
        let (a, b) = if mode == 2 {
            (0xFFFF - rng.below(60) as u16, 0xFFFF - rng.below(60) as u16)
        } else {
            (rng.below(50) as u16, rng.below(60) as u16)
        };
        s.count("cov.split:malformed");
        split_one(s, &t2, &b2, 0, false, a, b, &probes[..probes.len().min(12)]);
        split_one(s, &t1, &b1, gs.len(), false, a % 16, b % 16, &probes[..probes.len().min(12)]);
    }
}

// ---------------------------------------------------------------- class definitions

fn gen_class_pairs(rng: &mut Rng, s: &mut Session, unique: bool) -> Vec<(u16, u16)> {
    let mut out: Vec<(u16, u16)> = vec![];
    let kind = rng.below(7);
    let ncls = rng.range(1, 6) as u64;
    match kind {
        0 => {
            s.count("gen-cd:empty-or-one");
            if rng.chance(2, 3) {
                out.push((edge_gid(rng), rng.below(3) as u16));
            }
        }
        1 => {
            s.count("gen-cd:runs");
            let mut at = if rng.chance(1, 4) { 0 } else { rng.below(60000) as u32 };
            for _ in 0..rng.range(1, 8) {
                let len = rng.range(1, 30) as u32;
                let c = rng.below(ncls + 1) as u16;
                for k in 0..len {
                    if at + k <= 0xFFFF {
                        out.push(((at + k) as u16, c));
                    }
                }
                at += len + rng.below(4) as u32;
            }
        }
        2 => {
            s.count("gen-cd:alternating");
            let at = rng.below(65000) as u32;
            for k in 0..rng.range(2, 40) as u32 {
                if at + k <= 0xFFFF {
                    out.push(((at + k) as u16, 1 + (k % 2) as u16 + if rng.chance(1, 10) { 1 } else { 0 }));
                }
            }
        }
        3 => {
            s.count("gen-cd:sparse");
            for _ in 0..rng.range(1, 30) {
                out.push((rng.next() as u16, 1 + rng.below(ncls) as u16));
            }
        }
        4 => {
            // threshold between formats: span L, r ranges: 6 + 2L vs 4 + 6r
            s.count("gen-cd:threshold");
            let r = rng.range(1, 10) as u32;
            let span = (3 * r as i64 - 1 + rng.range(-2, 2)).max(r as i64) as u32;
            // r single-glyph ranges spread over `span` glyphs (first and last fixed)
            let at = rng.below(60000) as u32;
            let mut pos: BTreeSet<u32> = BTreeSet::new();
            pos.insert(0);
            pos.insert(span - 1);
            while (pos.len() as u32) < r.min(span) {
                pos.insert(rng.below(span as u64) as u32);
            }
            for (i, p) in pos.iter().enumerate() {
                out.push(((at + p) as u16, 1 + (i % 3) as u16));
            }
        }
        5 => {
            s.count("gen-cd:top-edge");
            for k in 0..rng.range(1, 20) as u32 {
                out.push(((0xFFFF - k) as u16, 1 + (k / 3 % 2) as u16));
            }
            if rng.chance(1, 2) {
                out.push((0, 3));
            }
        }
        _ => {
            s.count("gen-cd:mixed");
            let mut at = rng.below(60000) as u32;
            for _ in 0..rng.range(2, 80) {
                if at > 0xFFFF {
                    break;
                }
                out.push((at as u16, rng.below(ncls + 1) as u16));
                at += if rng.chance(3, 4) { 1 } else { 1 + rng.below(6) as u32 };
            }
        }
    }
    if unique {
        let mut seen = BTreeSet::new();
        out.retain(|p| seen.insert(p.0));
    } else if !out.is_empty() {
        for _ in 0..rng.range(1, 4) {
            let g = rng.pick(&out).0;
            out.push((g, rng.below(4) as u16));
        }
    }
    if rng.chance(1, 2) {
        rng.shuffle(&mut out);
    }
    out
}

fn cd_gets(c: &rl::ClassDef, probes: &[u16]) -> Vec<u16> {
    probes.iter().map(|g| c.get(g16(*g))).collect()
}

fn classdef_case(s: &mut Session, rng: &mut Rng, pairs: &[(u16, u16)], unique: bool) {
    let set: BTreeSet<u16> = pairs.iter().map(|p| p.0).collect();
    let probes: Vec<u16> = probes_for(rng, &set, 40).into_iter().filter(|g| *g <= 0xFFFF).map(|g| g as u16).collect();
    let flat: Vec<u16> = pairs.iter().flat_map(|p| [p.0, p.1]).collect();
    let req = format!("cd.build {} | {}", join(&flat), join(&probes));
    let built = catch(|| {
        let t: wl::ClassDef = pairs.iter().map(|(g, c)| (g16(*g), *c)).collect();
        let wgets: Vec<u16> = probes.iter().map(|g| t.get(g16(*g))).collect();
        (write_fonts::dump_table(&t), wgets)
    });
    let (bytes, wgets) = match built {
        Ok((Ok(b), w)) => (b, w),
        other => {
            s.case("cd.build", req, "build-failed".into());
            s.oracle("classdef-builds", false, || format!("pairs [{}]", join(&flat)), || format!("{:?}", other.map(|x| x.0.map(|_| ()))));
            return;
        }
    };
    let table = match rl::ClassDef::read(FontData::new(&bytes)) {
        Ok(t) => t,
        Err(e) => {
            s.case("cd.build", req, "unreadable".into());
            s.oracle("classdef-reads-back", false, || format!("pairs [{}]", join(&flat)), || e.to_string());
            return;
        }
    };
    match &table {
        rl::ClassDef::Format1(_) => s.count("cd.build:format1"),
        rl::ClassDef::Format2(_) => s.count("cd.build:format2"),
    }
    let gets = catch(|| cd_gets(&table, &probes));
    let resp = match &gets {
        Ok(v) => format!("{} | {}", render_cd(&table), join(v)),
        Err(_) => format!("{} | trap", render_cd(&table)),
    };
    s.case("cd.build", req, resp);
    if unique {
        let m: BTreeMap<u16, u16> = pairs.iter().copied().collect();
        let want: Vec<u16> = probes.iter().map(|g| m.get(g).copied().unwrap_or(0)).collect();
        s.oracle("classdef-get=assigned-class-or-0", gets.as_ref().ok() == Some(&want) && wgets == want,
            || format!("pairs [{}] probes [{}]", join(&flat), join(&probes)),
            || format!("table {} got {:?} write-side {:?} want {:?}", render_cd(&table), gets, wgets, want));
        let mut it: Vec<(u16, u16)> = table.iter().filter(|p| p.1 != 0).map(|p| (p.0.to_u16(), p.1)).collect();
        it.sort();
        let want_it: Vec<(u16, u16)> = m.iter().filter(|p| *p.1 != 0).map(|p| (*p.0, *p.1)).collect();
        s.oracle("classdef-iter=assignments", it == want_it, || format!("pairs [{}]", join(&flat)), || format!("{:?}", it));
    }
    // the same content in the other format, read directly
    let m: BTreeMap<u16, u16> = {
        let mut m = BTreeMap::new();
        for (g, c) in pairs.iter().filter(|p| p.1 != 0) {
            m.insert(*g, *c);
        }
        m
    };
    if let (Some(first), Some(last)) = (m.keys().next(), m.keys().next_back()) {
        if (*last - *first) < 400 {
            let arr: Vec<u16> = (*first..=*last).map(|g| m.get(&g).copied().unwrap_or(0)).collect();
            let b = cd1_bytes(*first, &arr);
            if let Ok(t) = rl::ClassDef::read(FontData::new(&b)) {
                let v = cd_gets(&t, &probes);
                s.case("cd.get:wf1", format!("cd.get 1 {} {} | {}", first, join(&arr), join(&probes)), join(&v));
                let want: Vec<u16> = probes.iter().map(|g| m.get(g).copied().unwrap_or(0)).collect();
                s.oracle("classdef-format1-get", v == want, || format!("classdef1 start {first} [{}]", join(&arr)), || format!("{:?}", v));
            }
        }
    }
    let mut recs: Vec<(u16, u16, u16)> = vec![];
    for (g, c) in &m {
        match recs.last_mut() {
            Some(r) if r.1 as u32 + 1 == *g as u32 && r.2 == *c => r.1 = *g,
            _ => recs.push((*g, *g, *c)),
        }
    }
    let b = cd2_bytes(&recs);
    if let Ok(t) = rl::ClassDef::read(FontData::new(&b)) {
        let v = cd_gets(&t, &probes);
        let flat2: Vec<u16> = recs.iter().flat_map(|r| [r.0, r.1, r.2]).collect();
        s.case("cd.get:wf2", format!("cd.get 2 {} | {}", join(&flat2), join(&probes)), join(&v));
        let want: Vec<u16> = probes.iter().map(|g| m.get(g).copied().unwrap_or(0)).collect();
        s.oracle("classdef-format2-get", v == want, || format!("classdef2 [{}]", join(&flat2)), || format!("{:?}", v));
    }
}

fn malformed_classdef(s: &mut Session, rng: &mut Rng) {
    let m = rng.range(0, 6) as usize;
    let mut recs: Vec<(u16, u16, u16)> = (0..m)
        .map(|_| {
            let a = rng.below(40) as u16;
            let b = if rng.chance(3, 4) { a + rng.below(8) as u16 } else { rng.below(40) as u16 };
            (a, b, rng.below(5) as u16)
        })
        .collect();
    if rng.chance(1, 2) {
        recs.sort();
    }
    let probes: Vec<u16> = (0..50).collect();
    let flat: Vec<u16> = recs.iter().flat_map(|r| [r.0, r.1, r.2]).collect();
    let b = cd2_bytes(&recs);
    let r = catch(|| rl::ClassDef::read(FontData::new(&b)).ok().map(|t| cd_gets(&t, &probes)));
    let resp = match &r {
        Ok(Some(v)) => join(v),
        Ok(None) => "unreadable".into(),
        Err(_) => "trap".into(),
    };
    s.case("cd.get:mal2", format!("cd.get 2 {} | {}", join(&flat), join(&probes)), resp);
    let start = if rng.chance(1, 2) { rng.below(30) as u16 } else { 0xFFFF - rng.below(5) as u16 };
    let arr: Vec<u16> = (0..rng.below(10)).map(|_| rng.below(5) as u16).collect();
    let probes: Vec<u16> = (0..45).chain(0xFFF0..=0xFFFF).collect();
    let b = cd1_bytes(start, &arr);
    let r = catch(|| rl::ClassDef::read(FontData::new(&b)).ok().map(|t| cd_gets(&t, &probes)));
    let resp = match &r {
        Ok(Some(v)) => join(v),
        Ok(None) => "unreadable".into(),
        Err(_) => "trap".into(),
    };
    s.case("cd.get:mal1", format!("cd.get 1 {} {} | {}", start, join(&arr), join(&probes)), resp);
}

/// `ClassDefBuilder`: a sequence of `checked_add` calls, then `build_with_mapping`
fn classdef_builder_case(s: &mut Session, rng: &mut Rng) {
    let use0 = rng.chance(1, 2);
    let ncls = rng.range(0, 7) as usize;
    let base = if rng.chance(1, 5) { 0xFFFF - 60 } else { rng.below(2000) as u32 };
    let mut classes: Vec<Vec<u16>> = vec![];
    for _ in 0..ncls {
        let k = rng.below(6);
        let mut c: Vec<u16> = vec![];
        match k {
            0 if !classes.is_empty() => c = rng.pick(&classes).clone(), // exact duplicate
            1 if !classes.is_empty() => {
                // overlapping
                c = rng.pick(&classes).clone();
                c.push((base + rng.below(60) as u32) as u16);
            }
            2 => {} // empty class
            _ => {
                for _ in 0..rng.range(1, 6) {
                    c.push((base + rng.below(60) as u32) as u16);
                }
                if rng.chance(1, 3) {
                    let at = base + rng.below(50) as u32;
                    for j in 0..rng.range(2, 8) as u32 {
                        c.push((at + j).min(0xFFFF) as u16);
                    }
                }
            }
        }
        classes.push(c);
    }
    let probes: Vec<u16> = {
        let mut p: BTreeSet<u16> = classes.iter().flatten().copied().collect();
        for g in [0u16, 1, 0xFFFF, base as u16, (base + 61).min(0xFFFF) as u16] {
            p.insert(g);
        }
        p.into_iter().collect()
    };
    let r = catch(|| {
        let mut b = if use0 { ClassDefBuilder::new_using_class_0() } else { ClassDefBuilder::new() };
        let mut oks = vec![];
        for c in &classes {
            let set: IntSet<GlyphId16> = c.iter().map(|g| g16(*g)).collect();
            oks.push(b.checked_add(set));
        }
        let (cd, mapping) = b.build_with_mapping();
        let bytes = write_fonts::dump_table(&cd).ok()?;
        let t = rl::ClassDef::read(FontData::new(&bytes)).ok()?;
        let ids: Vec<Option<u16>> = classes
            .iter()
            .map(|c| {
                let set: IntSet<GlyphId16> = c.iter().map(|g| g16(*g)).collect();
                mapping.get(&set).copied()
            })
            .collect();
        Some((oks, ids, render_cd(&t), cd_gets(&t, &probes), mapping.len()))
    });
    let mut req = format!("cdb.build {} | {}", use0 as u8, join(&probes));
    for c in &classes {
        req.push_str(" | ");
        req.push_str(&join(c));
    }
    match r {
        Ok(Some((oks, ids, rendered, gets, maplen))) => {
            let resp = format!(
                "{} | {} | {} | {}",
                oks.iter().map(|b| if *b { "t" } else { "f" }).collect::<Vec<_>>().join(" "),
                ids.iter().map(|i| i.map(|x| x.to_string()).unwrap_or("x".into())).collect::<Vec<_>>().join(" "),
                rendered,
                join(&gets)
            );
            s.case("cdb.build", req.clone(), resp);
            // oracle: accepted classes are pairwise disjoint-or-equal; every glyph of an accepted
            // class reads back as that class' mapped id; others 0; ids distinct, ordered by size
            let mut accepted: Vec<(BTreeSet<u16>, u16)> = vec![];
            let mut ok = true;
            let mut detail = String::new();
            for (i, c) in classes.iter().enumerate() {
                let set: BTreeSet<u16> = c.iter().copied().collect();
                let disjoint_or_equal = accepted.iter().all(|(a, _)| *a == set || a.is_disjoint(&set));
                if oks[i] != disjoint_or_equal {
                    ok = false;
                    detail = format!("checked_add #{i} returned {} but disjoint-or-equal is {}", oks[i], disjoint_or_equal);
                }
                if oks[i] {
                    match ids[i] {
                        Some(id) => {
                            if !accepted.iter().any(|(a, _)| *a == set) {
                                accepted.push((set, id));
                            }
                        }
                        None => {
                            ok = false;
                            detail = format!("accepted class #{i} has no id");
                        }
                    }
                } else if ids[i].is_some() {
                    ok = false;
                    detail = format!("rejected class #{i} has an id");
                }
            }
            if maplen != accepted.len() {
                ok = false;
                detail = format!("mapping has {maplen} entries for {} accepted classes", accepted.len());
            }
            let first = if use0 { 0 } else { 1 };
            let mut idset: Vec<u16> = accepted.iter().map(|a| a.1).collect();
            idset.sort();
            if idset != (first..first + accepted.len() as u16).collect::<Vec<_>>() {
                ok = false;
                detail = format!("ids {:?} are not {}..", idset, first);
            }
            for (a, ia) in &accepted {
                for (b, ib) in &accepted {
                    if a.len() > b.len() && ia > ib {
                        ok = false;
                        detail = "larger class has larger id".into();
                    }
                }
            }
            for (k, g) in probes.iter().enumerate() {
                let want = accepted.iter().find(|(a, _)| a.contains(g)).map(|(_, id)| *id).unwrap_or(0);
                if gets[k] != want {
                    ok = false;
                    detail = format!("glyph {g}: class {} want {want}", gets[k]);
                }
            }
            s.oracle("classdef-builder-get=mapped-id", ok, || req.clone(), || detail.clone());
        }
        other => {
            s.case("cdb.build", req.clone(), "build-failed".into());
            s.oracle("classdef-builder-builds", false, || req.clone(), || format!("{:?}", other.map(|_| ())));
        }
    }
}

fn fixed_cases(s: &mut Session, rng: &mut Rng) {
    // hand-picked edges
    let sets: Vec<Vec<u16>> = vec![
        vec![],
        vec![0],
        vec![0xFFFF],
        vec![0, 0xFFFF],
        vec![0xFFFE, 0xFFFF],
        vec![0, 1, 2],
        vec![0, 1, 2, 3],
        vec![1, 2, 9, 3, 6, 9],
        vec![5, 5, 5],
        (0..=300).collect(),
        (0..=300).chain(302..=400).chain(0xFF00..=0xFFFF).collect(),
        (0..3).chain(10..13).collect(),
        vec![0, 2, 3, 4, 0xFFFF],
        (1u16..=2).chain(0xFFFDu16..=0xFFFF).collect(),
    ];
    for v in sets {
        coverage_case(s, rng, &v);
    }
    let cds: Vec<Vec<(u16, u16)>> = vec![
        vec![],
        vec![(4, 0), (5, 1)],
        vec![(3, 4), (4, 6), (5, 1), (9, 5), (10, 2), (11, 3)],
        vec![(1, 1), (3, 4), (9, 5), (10, 2), (11, 3)],
        vec![(1, 1), (2, 1), (3, 1)],
        vec![(0xFFFF, 7)],
        vec![(0, 1), (0xFFFF, 1)],
        vec![(0xFFFE, 1), (0xFFFF, 2)],
        (5..=8).map(|g| (g, 3)).chain((9..=12).map(|g| (g, 4))).chain((13..=16).map(|g| (g, 5))).collect(),
        vec![(7, 2), (7, 0)],
        vec![(7, 0), (7, 2), (7, 3)],
    ];
    for v in cds {
        let mut seen = BTreeSet::new();
        let unique = v.iter().all(|p| seen.insert(p.0));
        classdef_case(s, rng, &v, unique);
    }
}

fn run(cfg: &Config, s: &mut Session) {
    if std::env::var("C16_DEBUG").is_ok() {
        std::panic::set_hook(Box::new(|i| eprintln!("{i}")));
    }
    let mut rng = Rng::new(cfg.seed);
    let t = cfg.thorough();
    // development aid: only the lookup-level / builder groups (never set by ./check)
    if std::env::var("C16_ONLY").as_deref() == Ok("mbsearch") {
        lookup::run_mb_shared_search(s);
        return;
    }
    if std::env::var("C16_ONLY").as_deref() == Ok("lookup") {
        lookup::run(cfg, s, &mut rng);
        return;
    }
    fixed_cases(s, &mut rng);
    let n_cov = if t { 6000 } else { 700 };
    for i in 0..n_cov {
        let v = gen_glyphs(&mut rng, s, i % 10 == 0);
        coverage_case(s, &mut rng, &v);
    }
    for _ in 0..(if t { 20000 } else { 2500 }) {
        malformed_cases(s, &mut rng);
    }
    for i in 0..(if t { 20000 } else { 2500 }) {
        let unique = i % 3 != 0;
        let v = gen_class_pairs(&mut rng, s, unique);
        classdef_case(s, &mut rng, &v, unique);
        malformed_classdef(s, &mut rng);
    }
    for _ in 0..(if t { 20000 } else { 2500 }) {
        classdef_builder_case(s, &mut rng);
    }
    ppf1::run(cfg, s, &mut rng);
    split2::run(cfg, s, &mut rng);
    e2e::run(cfg, s, &mut rng);
    split2::run_devs(cfg, s, &mut rng);
    e2e::run_pairs_build(cfg, s, &mut rng);
    lookup::run(cfg, s, &mut rng);
}

fn main() {
    fv_harness::main_with("C16", run)
}
