//! Lookup-level and builder-level correspondences for C16 (Model/LayoutLookup.lean):
//!
//! * `lk.split`        — `split_subtables`: lookups with SEVERAL subtables (PairPos 1 / 2 mixed, or
//!                       MarkBasePos), some oversized, some small, some listed twice (shared object),
//!                       with lookup flags and a mark filtering set; the lookup object's offset list,
//!                       count field, flag and filtering set after `pack_objects` (hook `VGraph`)
//!                       versus the model's list surgery.
//! * `classpairs.build`— `PairPosBuilder::insert_classes` rule sequences through the real
//!                       `ClassPairPosBuilder` versus `buildClassPairs (ClassPairs.ofRules rules)`.
//! * `mb.build`        — `MarkToBaseBuilder::{insert_mark, insert_base}` sequences versus
//!                       `MarkToBase.build`.
//! * `mb.points`       — `get_class_info` (attribution by chunking the NON-NULL base anchor offsets)
//!                       + the size loop of `split_mark_to_base_subtable` versus `mbSplitPoints
//!                       (getClassInfo …)`, on subtables with null anchors, shared anchors and
//!                       device tables.
//!
//! Every group has model-independent oracles that give a concrete failing input.
use super::split2::{link_at, render_cd_bytes, render_cov_bytes, subtables, u16_at};
use fv_harness::common::*;
use font_types::GlyphId16;
use read_fonts::collections::IntSet;
use std::collections::{BTreeMap, BTreeSet};
use write_fonts::tables::gpos as wg;
use write_fonts::tables::gpos::builders::{AnchorBuilder, MarkToBaseBuilder, MarkToLigBuilder, MarkToMarkBuilder, PairPosBuilder, ValueRecordBuilder};
use write_fonts::tables::layout as wl;
use write_fonts::tables::layout::builders::Builder;
use write_fonts::tables::variations::ivs_builder::VariationStoreBuilder;
use write_fonts::verif_hooks::{ObjView, VGraph};

fn g16(v: u16) -> GlyphId16 {
    GlyphId16::new(v)
}

// ------------------------------------------------------------------------------------------
// lk.split
// ------------------------------------------------------------------------------------------

#[derive(Clone, Debug)]
enum Kind {
    F1 { sets: u16, recs: u16 },
    F2 { k1: u16, k2: u16 },
    Mb { classes: u16, per: u16, bases: u16 },
}

const STRIDE: u16 = 2500;
const BASE0: u16 = 100;

fn first_glyph(orig: usize) -> u16 {
    BASE0 + STRIDE * orig as u16
}

fn make_pair(orig: usize, k: &Kind) -> wg::PairPos {
    let b = first_glyph(orig);
    match *k {
        Kind::F1 { sets, recs } => {
            let cov: wl::CoverageTable = (0..sets).map(|i| g16(b + i)).collect();
            let pair_sets = (0..sets)
                .map(|i| {
                    wg::PairSet::new(
                        (0..recs)
                            .map(|j| {
                                wg::PairValueRecord::new(
                                    g16(10 + j),
                                    wg::ValueRecord::new().with_x_advance((i.wrapping_mul(131).wrapping_add(j) ^ orig as u16) as i16),
                                    wg::ValueRecord::new(),
                                )
                            })
                            .collect(),
                    )
                })
                .collect();
            wg::PairPos::format_1(cov, pair_sets)
        }
        Kind::F2 { k1, k2 } => {
            let cov: wl::CoverageTable = (0..k1).map(|i| g16(b + i)).collect();
            let cd1: wl::ClassDef = (0..k1).map(|i| (g16(b + i), i)).collect();
            let cd2: wl::ClassDef = (1..k2).map(|j| (g16(10 + j), j)).collect();
            let rows = (0..k1)
                .map(|i| {
                    wg::Class1Record::new(
                        (0..k2)
                            .map(|j| {
                                wg::Class2Record::new(
                                    wg::ValueRecord::new().with_x_advance((i.wrapping_mul(257).wrapping_add(j) ^ orig as u16) as i16),
                                    wg::ValueRecord::new().with_x_placement(j as i16),
                                )
                            })
                            .collect(),
                    )
                })
                .collect();
            wg::PairPos::format_2(cov, cd1, cd2, rows)
        }
        Kind::Mb { .. } => unreachable!(),
    }
}

fn make_mb(orig: usize, k: &Kind) -> wg::MarkBasePosFormat1 {
    let Kind::Mb { classes, per, bases } = *k else { unreachable!() };
    let b = first_glyph(orig);
    let n_marks = classes * per;
    let mcov: wl::CoverageTable = (0..n_marks).map(|i| g16(b + i)).collect();
    let bcov: wl::CoverageTable = (0..bases).map(|i| g16(40_000 + i)).collect();
    // classes in contiguous blocks of `per` marks: the pieces' first mark glyph grows with the piece
    let marks = wg::MarkArray::new(
        (0..n_marks).map(|i| wg::MarkRecord::new(i / per, wg::AnchorTable::format_1(i as i16, -(orig as i16) - 1))).collect(),
    );
    let base_array = wg::BaseArray::new(
        (0..bases)
            .map(|r| {
                wg::BaseRecord::new(
                    (0..classes).map(|c| Some(wg::AnchorTable::format_1((r * 16 + c) as i16, orig as i16 + 100))).collect(),
                )
            })
            .collect(),
    );
    wg::MarkBasePosFormat1::new(mcov, bcov, marks, base_array)
}

struct LkCase {
    name: String,
    mark: bool,
    flag: u16,
    mfs: Option<u16>,
    originals: Vec<Kind>,
    /// the lookup's subtables as indices into `originals` (an index may repeat)
    offsets: Vec<usize>,
}

fn gen_lk(rng: &mut Rng, s: &mut Session) -> LkCase {
    let mark = rng.chance(1, 3);
    let n_orig = rng.range(1, 5) as usize;
    let mut originals = vec![];
    let mut n_big = 0;
    for i in 0..n_orig {
        // at least one oversized subtable, otherwise nothing overflows
        let big = rng.chance(1, 2) || (i + 1 == n_orig && n_big == 0);
        n_big += big as usize;
        let k = if mark {
            if big {
                Kind::Mb { classes: rng.range(10, 24) as u16, per: rng.range(1, 3) as u16, bases: rng.range(900, 1500) as u16 }
            } else {
                Kind::Mb { classes: rng.range(1, 3) as u16, per: rng.range(1, 2) as u16, bases: rng.range(1, 4) as u16 }
            }
        } else if rng.chance(1, 2) {
            if big {
                Kind::F1 { sets: rng.range(150, 420) as u16, recs: rng.range(100, 130) as u16 }
            } else {
                Kind::F1 { sets: rng.range(1, 6) as u16, recs: rng.range(1, 5) as u16 }
            }
        } else if big {
            Kind::F2 { k1: rng.range(70, 200) as u16, k2: rng.range(110, 140) as u16 }
        } else {
            Kind::F2 { k1: rng.range(1, 5) as u16, k2: rng.range(2, 5) as u16 }
        };
        originals.push(k);
    }
    let mut offsets: Vec<usize> = (0..n_orig).collect();
    rng.shuffle(&mut offsets);
    // shared objects: repeat some original (adjacent, or after other subtables)
    let dups = match rng.below(4) {
        0 => 1,
        1 => rng.range(1, 2) as usize,
        _ => 0,
    };
    for _ in 0..dups {
        let o = *rng.pick(&offsets);
        let at = rng.below(offsets.len() as u64 + 1) as usize;
        offsets.insert(at, o);
    }
    s.count(&format!("lk.split:gen:{}:dups{}", if mark { "markbase" } else { "pair" }, dups.min(2)));
    let (flag, mfs) = match rng.below(4) {
        0 => (0u16, None),
        1 => (0x10 | (rng.below(16) as u16), Some(rng.below(60_000) as u16)),
        2 => (((rng.below(255) as u16 + 1) << 8) | rng.below(16) as u16, None),
        _ => (0x10 | ((rng.below(256) as u16) << 8), Some(rng.next() as u16)),
    };
    let name = format!(
        "lk{{{} flag={flag:#x} mfs={mfs:?} subtables={:?} originals={:?}}}",
        if mark { "markbase" } else { "pair" },
        offsets,
        originals
    );
    LkCase { name, mark, flag, mfs, originals, offsets }
}

fn lk_case(s: &mut Session, c: &LkCase) {
    let flag = wl::LookupFlag::from_bits_truncate(c.flag);
    let (lookup, ty_name, ty): (wg::PositionLookup, &str, u16) = if c.mark {
        let mut l = wl::Lookup::new(flag, c.offsets.iter().map(|o| make_mb(*o, &c.originals[*o])).collect());
        l.mark_filtering_set = c.mfs;
        (wg::PositionLookup::MarkToBase(l), "GPOS4MarkToBase", 4)
    } else {
        let mut l = wl::Lookup::new(flag, c.offsets.iter().map(|o| make_pair(*o, &c.originals[*o])).collect());
        l.mark_filtering_set = c.mfs;
        (wg::PositionLookup::Pair(l), "GPOS2Pair", 2)
    };
    let gpos = wg::Gpos::new(Default::default(), Default::default(), wl::LookupList::new(vec![lookup]));
    let mut g = VGraph::from_table(&gpos);
    let before: BTreeMap<u64, ObjView> = g.objects().into_iter().map(|o| (o.id, o)).collect();
    let Some(lookup_id) = before.values().find(|o| o.type_name == ty_name).map(|o| o.id) else {
        s.oracle("lk.split:lookup-found", false, || c.name.clone(), || "no lookup object".into());
        return;
    };
    let orig_ids: Vec<u64> = before[&lookup_id].links.iter().map(|l| l.2).collect();
    let packed = catch(|| g.pack_objects());
    if let Err(msg) = &packed {
        s.oracle("lk.split:pack-does-not-panic", false, || c.name.clone(), || msg.clone());
        return;
    }
    if packed == Ok(false) {
        s.count("lk.split:packing-failed");
    }
    let objs: BTreeMap<u64, ObjView> = g.objects().into_iter().map(|o| (o.id, o)).collect();
    let lk = &objs[&lookup_id];
    let subs = subtables(&objs, lookup_id);
    // header as a reader sees it
    let raw_ty = u16_at(&lk.bytes, 0);
    let seen_ty = if raw_ty == 9 {
        s.count("lk.split:extension-promoted");
        lk.links.first().map(|l| u16_at(&objs[&l.2].bytes, 2)).unwrap_or(9)
    } else {
        raw_ty
    };
    let seen_flag = u16_at(&lk.bytes, 2);
    let count = u16_at(&lk.bytes, 4) as usize;
    let seen_mfs = if seen_flag & 0x10 != 0 { Some(u16_at(&lk.bytes, 6 + 2 * lk.links.len())) } else { None };
    // which original / which piece is every final subtable
    let mut firsts: Vec<(usize, u16, u64)> = vec![];
    for st in &subs {
        let cov = link_at(st, 2).and_then(|id| read_first_glyph(&objs[&id].bytes));
        let Some(g0) = cov else {
            s.oracle("lk.split:piece-decodes", false, || c.name.clone(), || "coverage unreadable / empty".into());
            return;
        };
        firsts.push((((g0 - BASE0) / STRIDE) as usize, g0, st.id));
    }
    let mut by_orig: BTreeMap<usize, BTreeSet<u16>> = BTreeMap::new();
    for f in &firsts {
        by_orig.entry(f.0).or_default().insert(f.1);
    }
    // pieces per original as observed: 0 = the original object is still there
    let ks: Vec<usize> = (0..c.originals.len())
        .map(|o| {
            let n = by_orig.get(&o).map(|x| x.len()).unwrap_or(0);
            let kept = c.offsets.iter().position(|x| *x == o).map(|p| orig_ids[p]).map(|id| firsts.iter().any(|f| f.2 == id)).unwrap_or(false);
            if kept { 0 } else { n }
        })
        .collect();
    for k in &ks {
        s.count(&format!("lk.split:pieces:{}", (*k).min(5)));
    }
    let seq: Vec<String> = firsts
        .iter()
        .map(|f| {
            if ks[f.0] == 0 {
                f.0.to_string()
            } else {
                let rank = by_orig[&f.0].iter().position(|g| *g == f.1).unwrap_or(99);
                format!("{}.{rank}", f.0)
            }
        })
        .collect();
    // model-independent: count field, header, pieces in place
    let input = || c.name.clone();
    s.oracle("lk.split:count=offsets-written", count == lk.links.len(), input, || {
        format!("subtable count field {count}, {} offsets written", lk.links.len())
    });
    s.oracle("lk.split:header-kept", seen_ty == ty && seen_flag == c.flag && seen_mfs == c.mfs, input, || {
        format!("type {seen_ty} flag {seen_flag:#x} mark filtering set {seen_mfs:?}")
    });
    let mut want: Vec<String> = vec![];
    for o in &c.offsets {
        if ks[*o] == 0 {
            want.push(o.to_string());
        } else {
            for j in 0..ks[*o] {
                want.push(format!("{o}.{j}"));
            }
        }
    }
    // the property: every split subtable is replaced AT ITS OWN POSITION by all of its pieces (the
    // pieces of one subtable are disjoint in their first glyph / mark, so their mutual order is not
    // semantics; the exact order is compared by the correspondence below)
    let in_place = seq.len() == want.len() && {
        let mut at = 0;
        let mut ok = true;
        for o in &c.offsets {
            let n = ks[*o].max(1);
            let mut got: Vec<&String> = seq[at..at + n].iter().collect();
            let mut exp: Vec<&String> = want[at..at + n].iter().collect();
            got.sort();
            exp.sort();
            ok &= got == exp;
            at += n;
        }
        ok
    };
    s.oracle("lk.split:pieces-in-place", in_place, input, || format!("subtables after splitting {seq:?}, expected {want:?} (up to the order of the pieces of one subtable)"));
    let req = format!(
        "lk.split {ty} {} | {} | {} | {}",
        c.flag,
        c.mfs.map(|m| m.to_string()).unwrap_or("-".into()),
        join(&c.offsets),
        join(&ks)
    );
    let resp = format!(
        "{seen_ty} {seen_flag} {count} | {} | {}",
        seen_mfs.map(|m| m.to_string()).unwrap_or("-".into()),
        if seq.is_empty() { "-".to_string() } else { seq.join(" ") }
    );
    s.case("lk.split", req, resp);
}

fn read_first_glyph(b: &[u8]) -> Option<u16> {
    use read_fonts::tables::layout::CoverageTable;
    use read_fonts::{FontData, FontRead};
    CoverageTable::read(FontData::new(b)).ok()?.iter().next().map(|g| g.to_u16())
}

// ------------------------------------------------------------------------------------------
// classpairs.build
// ------------------------------------------------------------------------------------------

struct CRule {
    c1: Vec<u16>,
    c2: Vec<u16>,
    f1: u16,
    f2: u16,
    id: usize,
}

const FIELD_BITS: [u16; 4] = [1, 2, 4, 8]; // x_placement, y_placement, x_advance, y_advance

fn class_value(id: usize, mask: u16, second: bool, dev: bool) -> ValueRecordBuilder {
    let v = id as i16 + 1;
    let mut r = ValueRecordBuilder::new();
    if mask & 1 != 0 {
        r = r.with_x_placement(v + 1000);
    }
    if mask & 2 != 0 {
        r = r.with_y_placement(-v);
    }
    if mask & 4 != 0 {
        r = r.with_x_advance(if second { v + 2000 } else { v });
    }
    if mask & 8 != 0 {
        r = r.with_y_advance(v + 3000);
    }
    if dev && mask & 4 != 0 {
        r = r.with_x_advance_device(wl::Device::new(9, 10, &[(id % 7) as i8 + 1, -1]));
    }
    r
}

fn gen_sets(rng: &mut Rng, pool: &[u16]) -> Vec<Vec<u16>> {
    // a handful of candidate classes over a small pool: mostly disjoint, some overlapping, some
    // equal, now and then an empty one
    let n = rng.range(2, 6) as usize;
    let mut sets = vec![];
    for _ in 0..n {
        let k = match rng.below(8) {
            0 => 0,
            1 | 2 => 1,
            _ => rng.range(1, 4) as usize,
        };
        let mut v: Vec<u16> = (0..k).map(|_| *rng.pick(pool)).collect();
        v.sort();
        v.dedup();
        sets.push(v);
    }
    sets
}

/// pairwise disjoint classes: every rule fits the same subtable (many cells, repeated cells)
fn gen_partition(rng: &mut Rng, pool: &[u16]) -> Vec<Vec<u16>> {
    let mut p: Vec<u16> = pool.to_vec();
    p.sort();
    p.dedup();
    rng.shuffle(&mut p);
    let n = rng.range(1, 5) as usize;
    let mut sets: Vec<Vec<u16>> = vec![vec![]; n];
    for g in p {
        if rng.chance(4, 5) {
            sets[rng.below(n as u64) as usize].push(g);
        }
    }
    for v in sets.iter_mut() {
        v.sort();
    }
    sets.retain(|v| !v.is_empty());
    if sets.is_empty() {
        sets.push(vec![pool[0]]);
    }
    sets
}

fn class_expected(groups: &[Vec<&CRule>], g1: u16, g2: u16) -> Option<usize> {
    for grp in groups {
        if grp.iter().any(|r| r.c1.contains(&g1)) {
            return Some(grp.iter().rev().find(|r| r.c1.contains(&g1) && r.c2.contains(&g2)).map(|r| r.id + 1).unwrap_or(0));
        }
    }
    None
}

fn compat(classes: &[&Vec<u16>], c: &Vec<u16>) -> bool {
    classes.iter().any(|x| *x == c) || c.iter().all(|g| !classes.iter().any(|x| x.contains(g)))
}

pub fn run_classpairs(cfg: &Config, s: &mut Session, rng: &mut Rng) {
    let n_cases = if cfg.thorough() { 3000 } else { 400 };
    for _ in 0..n_cases {
        let npool = rng.range(3, 14) as usize;
        let pool: Vec<u16> = match rng.below(3) {
            0 => (0..npool).map(|i| 20 + i as u16).collect(),
            1 => (0..npool).map(|i| 65535 - 3 * i as u16).collect(),
            _ => (0..npool).map(|_| rng.next() as u16).collect(),
        };
        let partition = rng.chance(1, 2);
        let (s1, s2) = if partition { (gen_partition(rng, &pool), gen_partition(rng, &pool)) } else { (gen_sets(rng, &pool), gen_sets(rng, &pool)) };
        s.count(if partition { "classpairs.build:gen:partition" } else { "classpairs.build:gen:overlapping" });
        let n = rng.range(1, 14) as usize;
        let uniform = rng.chance(1, 3);
        let mut rules: Vec<CRule> = vec![];
        let mut b = PairPosBuilder::default();
        for id in 0..n {
            let (c1, c2) = (rng.pick(&s1).clone(), rng.pick(&s2).clone());
            // record 1 always carries x_advance = rule id + 1 (identifies the rule in the matrix)
            let m1 = if uniform { 4 } else { 4 | rng.below(16) as u16 };
            let m2 = if uniform { 0 } else { *rng.pick(&[0u16, 0, 1, 4, 12, 15]) };
            let dev = !uniform && rng.chance(1, 6);
            let (v1, v2) = (class_value(id, m1, false, dev), class_value(id, m2, true, false));
            let (f1, f2) = (v1.format().bits(), v2.format().bits());
            let to_set = |v: &Vec<u16>| -> IntSet<GlyphId16> { v.iter().map(|g| g16(*g)).collect() };
            b.insert_classes(to_set(&c1), v1, to_set(&c2), v2);
            rules.push(CRule { c1, c2, f1, f2, id });
        }
        let req: Vec<String> = rules
            .iter()
            .map(|r| format!("{} {} {} {} {} {} {}", r.c1.len(), join(&r.c1), r.c2.len(), join(&r.c2), r.f1, r.f2, r.id).replace(" -", ""))
            .collect();
        let req_s = format!("classpairs.build {}", req.join(" | "));
        // the greedy grouping on the rules alone (specification)
        let mut groups: Vec<Vec<&CRule>> = vec![];
        for r in &rules {
            let fits = groups.last().map(|g| {
                let a: Vec<&Vec<u16>> = g.iter().map(|x| &x.c1).collect();
                let c: Vec<&Vec<u16>> = g.iter().map(|x| &x.c2).collect();
                compat(&a, &r.c1) && compat(&c, &r.c2)
            });
            if fits != Some(true) {
                groups.push(vec![]);
            }
            groups.last_mut().unwrap().push(r);
        }
        s.count(&format!("classpairs.build:subtables:{}", groups.len().min(5)));
        let built = catch(|| {
            let mut vs = VariationStoreBuilder::new(2);
            b.build(&mut vs)
        });
        s.oracle("classpairs.build:does-not-panic", built.is_ok(), || req_s.clone(), || built.as_ref().err().cloned().unwrap_or_default());
        let resp = match built {
            Err(_) => "trap".to_string(),
            Ok(subs) => {
                let mut parts = vec![];
                let mut tables: Vec<&wg::PairPosFormat2> = vec![];
                let mut fmt_ok = true;
                let mut fmt_why = String::new();
                for st in &subs {
                    let wg::PairPos::Format2(t) = st else {
                        parts.push("format1?".into());
                        continue;
                    };
                    tables.push(t);
                    let (Ok(cov_b), Ok(cd1_b), Ok(cd2_b)) =
                        (write_fonts::dump_table(&*t.coverage), write_fonts::dump_table(&*t.class_def1), write_fonts::dump_table(&*t.class_def2))
                    else {
                        parts.push("unwritable".into());
                        continue;
                    };
                    let (vf1, vf2) = match (t.class1_records.first()).and_then(|r| r.class2_records.first()) {
                        Some(c) => (c.value_record1.format().bits(), c.value_record2.format().bits()),
                        None => (0, 0),
                    };
                    let mut rows = vec![];
                    for r in &t.class1_records {
                        let ids: Vec<i32> = r.class2_records.iter().map(|c| c.value_record1.x_advance.unwrap_or(-1) as i32).collect();
                        for c in &r.class2_records {
                            // every cell is encoded with the subtable's formats, and a rule's cell
                            // keeps every field of the rule (nothing dropped by the format)
                            if c.value_record1.format().bits() != vf1 || c.value_record2.format().bits() != vf2 {
                                fmt_ok = false;
                                fmt_why = format!("a cell has formats {:#x}/{:#x}, the first cell {vf1:#x}/{vf2:#x}", c.value_record1.format().bits(), c.value_record2.format().bits());
                            }
                            if let Some(id) = c.value_record1.x_advance.filter(|v| *v > 0) {
                                let r = &rules[id as usize - 1];
                                if r.f1 & !vf1 != 0 || r.f2 & !vf2 != 0 {
                                    fmt_ok = false;
                                    fmt_why = format!("rule {} has formats {:#x}/{:#x}, the subtable {vf1:#x}/{vf2:#x}", r.id, r.f1, r.f2);
                                }
                                let v = id;
                                let want2 = if r.f2 & 4 != 0 { Some(v + 2000) } else { None };
                                let got2 = c.value_record2.x_advance.filter(|x| *x != 0);
                                let want_yp = if r.f1 & 2 != 0 { Some(-v) } else { None };
                                let got_yp = c.value_record1.y_placement.filter(|x| *x != 0);
                                let dev_ok = (r.f1 & 0x40 != 0) == c.value_record1.x_advance_device.is_some();
                                if want2 != got2 || want_yp != got_yp || !dev_ok {
                                    fmt_ok = false;
                                    fmt_why = format!("cell of rule {} lost a field: record2.x_advance {got2:?} (want {want2:?}), record1.y_placement {got_yp:?} (want {want_yp:?}), device kept: {dev_ok}", r.id);
                                }
                            }
                        }
                        rows.push(join(&ids));
                    }
                    parts.push(format!("{} ; {} ; {} ; {vf1} {vf2} ; {}", render_cov_bytes(&cov_b), render_cd_bytes(&cd1_b), render_cd_bytes(&cd2_b), rows.join(" , ")));
                }
                s.oracle("classpairs.build:value-format-covers-all-cells", fmt_ok, || req_s.clone(), || fmt_why.clone());
                // model-independent: first covering subtable decides, last rule of the cell wins
                let mut ok = true;
                let mut why = String::new();
                let mut probes: Vec<u16> = pool.clone();
                probes.extend([0u16, 19, 65535, pool[0].wrapping_add(1)]);
                'outer: for g1 in &probes {
                    for g2 in &probes {
                        let want = class_expected(&groups, *g1, *g2);
                        let mut got: Option<usize> = None;
                        for t in &tables {
                            if !t.coverage.iter().any(|g| g.to_u16() == *g1) {
                                continue;
                            }
                            let (a, c) = (t.class_def1.get(g16(*g1)) as usize, t.class_def2.get(g16(*g2)) as usize);
                            if let Some(cell) = t.class1_records.get(a).and_then(|r| r.class2_records.get(c)) {
                                got = Some(cell.value_record1.x_advance.unwrap_or(0).max(0) as usize);
                                break;
                            }
                        }
                        if got != want {
                            ok = false;
                            why = format!("pair ({g1}, {g2}): built subtables answer rule+1 {got:?}, the rules say {want:?}");
                            break 'outer;
                        }
                    }
                }
                s.oracle("classpairs.build:first-subtable-last-rule-of-cell", ok, || req_s.clone(), || format!("{why}; built: {}", parts.join(" | ")));
                s.oracle("classpairs.build:one-subtable-per-group", tables.len() == groups.len(), || req_s.clone(), || {
                    format!("{} subtables built, the rules partition into {}", tables.len(), groups.len())
                });
                if parts.is_empty() {
                    "-".to_string()
                } else {
                    parts.join(" | ").replace(" -1", " 0")
                }
            }
        };
        s.case("classpairs.build", req_s, resp);
    }
}

// ------------------------------------------------------------------------------------------
// mb.build
// ------------------------------------------------------------------------------------------

/// model-independent reading of a built mark-attachment subtable against the inserts: the LAST
/// insert of the mark gives class name + mark anchor, the LAST insert of (base, that class name) the
/// base anchor; `mrecs` = (class id, mark anchor x), `rows` = base anchor x per class id
fn reads_back(ops: &[(u8, u16, u64, usize)], mprobe: &[u16], bprobe: &[u16], mcov: &[u16], bcov: &[u16], mrecs: &[(u16, i32)], rows: &[Vec<Option<i32>>]) -> Option<String> {
    for m in mprobe {
        for bg in bprobe {
            let want = ops.iter().rev().find(|o| o.0 == 0 && o.1 == *m).and_then(|mo| {
                ops.iter().rev().find(|o| o.0 == 1 && o.1 == *bg && o.2 == mo.2).map(|bo| (mo.3 as i32, bo.3 as i32))
            });
            let got = mcov.iter().position(|g| g == m).zip(bcov.iter().position(|g| g == bg)).and_then(|(mi, bi)| {
                let mr = mrecs.get(mi)?;
                let a = (*rows.get(bi)?.get(mr.0 as usize)?)?;
                Some((mr.1, a))
            });
            if got != want {
                return Some(format!("(mark {m}, base {bg}): built subtable answers anchors {got:?}, the inserts say {want:?}"));
            }
        }
    }
    None
}

pub fn run_mb_build(cfg: &Config, s: &mut Session, rng: &mut Rng) {
    let n_cases = if cfg.thorough() { 3000 } else { 400 };
    for _ in 0..n_cases {
        let marks: Vec<u16> = (0..rng.range(1, 6)).map(|_| if rng.chance(1, 2) { 300 + rng.below(8) as u16 } else { rng.next() as u16 }).collect();
        let bases: Vec<u16> = (0..rng.range(1, 6)).map(|_| if rng.chance(1, 2) { 40 + rng.below(8) as u16 } else { rng.next() as u16 }).collect();
        let n_names = rng.range(1, 4) as u64;
        let n = rng.range(1, 24) as usize;
        let mut b = MarkToBaseBuilder::default();
        // the same calls go to a MarkToMarkBuilder (same MarkList, same anchor-matrix code shape)
        let mut mm = MarkToMarkBuilder::default();
        let mut mm_results: Vec<String> = vec![];
        let mut mm_trapped = false;
        let mut ops: Vec<(u8, u16, u64, usize)> = vec![];
        let mut known: BTreeSet<u64> = BTreeSet::new();
        let mut results: Vec<String> = vec![];
        let mut trapped = false;
        for id in 1..=n {
            let name = rng.below(n_names);
            let is_mark = known.is_empty() || rng.chance(1, 2);
            // a base for a class that has no mark yet panics ("marks added before bases"): rare
            let unknown_base = !is_mark && !known.contains(&name);
            if unknown_base && !rng.chance(1, 12) {
                continue;
            }
            let anchor = AnchorBuilder::new(id as i16, 7);
            if is_mark {
                let g = *rng.pick(&marks);
                known.insert(name);
                ops.push((0, g, name, id));
                match mm.insert_mark1(g16(g), &format!("c{name}"), anchor.clone()) {
                    Ok(cid) => mm_results.push(format!("o{cid}")),
                    Err(e) => mm_results.push(format!("e{}", e.class.trim_start_matches('c'))),
                }
                match b.insert_mark(g16(g), &format!("c{name}"), anchor) {
                    Ok(cid) => results.push(format!("o{cid}")),
                    Err(e) => results.push(format!("e{}", e.class.trim_start_matches('c'))),
                }
            } else {
                let g = *rng.pick(&bases);
                ops.push((1, g, name, id));
                if catch(|| mm.insert_mark2(g16(g), &format!("c{name}"), anchor.clone())).is_err() {
                    mm_trapped = true;
                }
                if catch(|| b.insert_base(g16(g), &format!("c{name}"), anchor)).is_err() {
                    trapped = true;
                    break;
                }
            }
        }
        s.count(if trapped { "mb.build:base-before-mark-panics" } else { "mb.build:built" });
        let req = format!("mb.build {}", ops.iter().map(|o| format!("{} {} {} {}", o.0, o.1, o.2, o.3)).collect::<Vec<_>>().join(" "));
        if ops.is_empty() {
            continue;
        }
        let resp = if trapped {
            "trap".to_string()
        } else {
            let built = catch(|| {
                let mut vs = VariationStoreBuilder::new(2);
                b.build(&mut vs)
            });
            s.oracle("mb.build:build-does-not-panic", built.is_ok(), || req.clone(), || built.as_ref().err().cloned().unwrap_or_default());
            match built {
                Err(_) => "trap".to_string(),
                Ok(subs) => {
                    let Some(t) = subs.first() else {
                        s.oracle("mb.build:one-subtable", false, || req.clone(), || "no subtable".into());
                        continue;
                    };
                    let (Ok(mc), Ok(bc)) = (write_fonts::dump_table(&*t.mark_coverage), write_fonts::dump_table(&*t.base_coverage)) else { continue };
                    let ax = |a: &wg::AnchorTable| -> i32 {
                        match a {
                            wg::AnchorTable::Format1(a) => a.x_coordinate as i32,
                            wg::AnchorTable::Format2(a) => a.x_coordinate as i32,
                            wg::AnchorTable::Format3(a) => a.x_coordinate as i32,
                        }
                    };
                    let mrecs: Vec<i32> = t.mark_array.mark_records.iter().flat_map(|r| [r.mark_class as i32, ax(&r.mark_anchor)]).collect();
                    let rows: Vec<String> = t
                        .base_array
                        .base_records
                        .iter()
                        .map(|r| join(&r.base_anchors.iter().map(|a| a.as_ref().map(|a| ax(a)).unwrap_or(0)).collect::<Vec<_>>()))
                        .collect();
                    let n_classes = t.base_array.base_records.first().map(|r| r.base_anchors.len());
                    // model-independent: last insert_mark of the mark, last insert_base of (base, class name)
                    let mcov: Vec<u16> = t.mark_coverage.iter().map(|g| g.to_u16()).collect();
                    let bcov: Vec<u16> = t.base_coverage.iter().map(|g| g.to_u16()).collect();
                    let mut mprobe = marks.clone();
                    mprobe.push(9);
                    let mut bprobe = bases.clone();
                    bprobe.push(9);
                    let mr: Vec<(u16, i32)> = t.mark_array.mark_records.iter().map(|r| (r.mark_class, ax(&r.mark_anchor))).collect();
                    let rw: Vec<Vec<Option<i32>>> =
                        t.base_array.base_records.iter().map(|r| r.base_anchors.iter().map(|a| a.as_ref().map(|a| ax(a))).collect()).collect();
                    let why = reads_back(&ops, &mprobe, &bprobe, &mcov, &bcov, &mr, &rw);
                    let ok = why.is_none();
                    let why = why.unwrap_or_default();
                    s.oracle("mb.build:reads-back-last-inserts", ok, || req.clone(), || why.clone());
                    let classes = n_classes.unwrap_or(known.len());
                    format!(
                        "{} ; {} ; {classes} ; {} ; {} | {}",
                        render_cov_bytes(&mc),
                        render_cov_bytes(&bc),
                        join(&mrecs),
                        rows.join(" , "),
                        if results.is_empty() { "-".to_string() } else { results.join(" ") }
                    )
                }
            }
        };
        // MarkToMarkBuilder against the same model
        let mm_resp = if mm_trapped {
            "trap".to_string()
        } else {
            match catch(|| {
                let mut vs = VariationStoreBuilder::new(2);
                mm.build(&mut vs)
            }) {
                Err(_) => "trap".to_string(),
                Ok(subs) => match subs.first() {
                    None => "no-subtable".to_string(),
                    Some(t) => {
                        let ax = |a: &wg::AnchorTable| -> i32 {
                            match a {
                                wg::AnchorTable::Format1(a) => a.x_coordinate as i32,
                                wg::AnchorTable::Format2(a) => a.x_coordinate as i32,
                                wg::AnchorTable::Format3(a) => a.x_coordinate as i32,
                            }
                        };
                        match (write_fonts::dump_table(&*t.mark1_coverage), write_fonts::dump_table(&*t.mark2_coverage)) {
                            (Ok(mc), Ok(bc)) => {
                                let mcov: Vec<u16> = t.mark1_coverage.iter().map(|g| g.to_u16()).collect();
                                let bcov: Vec<u16> = t.mark2_coverage.iter().map(|g| g.to_u16()).collect();
                                let mr: Vec<(u16, i32)> = t.mark1_array.mark_records.iter().map(|r| (r.mark_class, ax(&r.mark_anchor))).collect();
                                let rw: Vec<Vec<Option<i32>>> =
                                    t.mark2_array.mark2_records.iter().map(|r| r.mark2_anchors.iter().map(|a| a.as_ref().map(|a| ax(a))).collect()).collect();
                                let mut mprobe = marks.clone();
                                mprobe.push(9);
                                let mut bprobe = bases.clone();
                                bprobe.push(9);
                                let why = reads_back(&ops, &mprobe, &bprobe, &mcov, &bcov, &mr, &rw);
                                s.oracle("mm.build:reads-back-last-inserts", why.is_none(), || req.clone(), || why.clone().unwrap_or_default());
                                let mrecs: Vec<i32> = t.mark1_array.mark_records.iter().flat_map(|r| [r.mark_class as i32, ax(&r.mark_anchor)]).collect();
                                let rows: Vec<String> = t
                                    .mark2_array
                                    .mark2_records
                                    .iter()
                                    .map(|r| join(&r.mark2_anchors.iter().map(|a| a.as_ref().map(|a| ax(a)).unwrap_or(0)).collect::<Vec<_>>()))
                                    .collect();
                                let classes = t.mark2_array.mark2_records.first().map(|r| r.mark2_anchors.len()).unwrap_or(known.len());
                                format!(
                                    "{} ; {} ; {classes} ; {} ; {} | {}",
                                    render_cov_bytes(&mc),
                                    render_cov_bytes(&bc),
                                    join(&mrecs),
                                    rows.join(" , "),
                                    if mm_results.is_empty() { "-".to_string() } else { mm_results.join(" ") }
                                )
                            }
                            _ => "unwritable".to_string(),
                        }
                    }
                },
            }
        };
        s.case("mm.build", req.clone(), mm_resp);
        s.case("mb.build", req, resp);
    }
}

// ------------------------------------------------------------------------------------------
// mb.points
// ------------------------------------------------------------------------------------------

struct MbP {
    name: String,
    classes: usize,
    /// class per mark (mark glyph = 2000 + index)
    marks: Vec<usize>,
    n_bases: usize,
    /// anchor content id per (base, class); 0 = null
    cells: Vec<Vec<u32>>,
    mark_ids: Vec<u32>,
    /// content ids ≥ `dev_from` carry a device table
    dev_from: u32,
    /// content ids ≥ `heavy_from` carry a ~250-byte device table (the anchors of the last base
    /// record: whatever `get_class_info` does with an incomplete last chunk moves the estimate by KBs)
    heavy_from: u32,
}

fn p_anchor(id: u32, dev_from: u32, heavy_from: u32) -> wg::AnchorTable {
    let (x, y) = ((id % 30_000) as i16, (id / 30_000) as i16);
    if id >= heavy_from {
        // 8-bit deltas for 9..=255 ppem, distinct per anchor
        let v: Vec<i8> = (0..247u32).map(|i| if i < 4 { ((id >> (7 * i)) & 0x7f) as i8 | 0x40 } else { (i % 100) as i8 + 10 }).collect();
        let d = wl::Device::new(9, 255, &v);
        return wg::AnchorTable::format_3(x, y, Some(d.into()), None);
    }
    if id >= dev_from {
        // device content shared between some anchors (id % 5)
        let d = wl::Device::new(9, 10, &[(id % 5) as i8 + 1, 1]);
        wg::AnchorTable::format_3(x, y, Some(d.into()), None)
    } else {
        wg::AnchorTable::format_1(x, y)
    }
}

fn gen_mbp(rng: &mut Rng, s: &mut Session, thorough: bool) -> MbP {
    let classes = rng.range(2, 30) as usize;
    let cells_target = *rng.pick(&[11_500usize, 13_000, 16_000, 22_000]);
    let cells_target = if thorough { cells_target } else { cells_target.min(16_000) };
    let n_bases = (cells_target / classes).clamp(2, 5000);
    let n_marks = rng.range(classes as i64, 2 * classes as i64 + 4) as usize;
    let marks: Vec<usize> = (0..n_marks).map(|i| if i < classes { i } else { rng.below(classes as u64) as usize }).collect();
    let fill = *rng.pick(&[100u64, 100, 97, 80, 50]);
    // anchor sharing: ids drawn from a pool smaller than the matrix → repeated (deduplicated) objects
    let share = *rng.pick(&[0u64, 0, 3, 20]);
    let null_mode = rng.below(3);
    let mut next = 1u32;
    let mut cells = vec![];
    let tail_heavy = rng.chance(2, 5);
    let mut heavy_from = u32::MAX;
    for b in 0..n_bases {
        let mut row = vec![];
        if tail_heavy && b + 1 == n_bases {
            heavy_from = next;
        }
        for c in 0..classes {
            let null = match null_mode {
                0 => rng.below(100) >= fill,
                1 => fill < 100 && c * 100 >= classes * fill as usize, // the last classes have no anchors at all
                _ => fill < 100 && (b + c) % 7 == 0,
            };
            let null = null && !(tail_heavy && b + 1 == n_bases && c > 0);
            if null {
                row.push(0);
            } else if heavy_from != u32::MAX {
                row.push(next);
                next += 1;
            } else if share > 0 && rng.below(100) < share && next > 10 {
                row.push(1 + rng.below(next as u64 - 1) as u32);
            } else {
                row.push(next);
                next += 1;
            }
        }
        cells.push(row);
    }
    let mark_ids: Vec<u32> = (0..n_marks).map(|i| 500_000 + i as u32).collect();
    let dev_from = if rng.chance(1, 3) { next - next / 8 } else { u32::MAX };
    if tail_heavy {
        s.count("mb.points:gen:tail-heavy");
    }
    s.count(&format!("mb.points:gen:fill{fill}:share{share}:nullmode{null_mode}:{}", if dev_from == u32::MAX { "nodev" } else { "dev" }));
    MbP {
        name: format!("mbp{{classes={classes} marks={n_marks} bases={n_bases} fill={fill}% nullmode={null_mode} share={share}% dev_from={dev_from} heavy_from={heavy_from}}}"),
        classes,
        marks,
        n_bases,
        cells,
        mark_ids,
        dev_from,
        heavy_from,
    }
}

fn mbp_case(s: &mut Session, sc: &MbP) {
    let mcov: wl::CoverageTable = (0..sc.marks.len()).map(|i| g16(2000 + i as u16)).collect();
    let bcov: wl::CoverageTable = (0..sc.n_bases).map(|i| g16(10_000 + i as u16)).collect();
    let marks = wg::MarkArray::new(sc.marks.iter().zip(&sc.mark_ids).map(|(c, id)| wg::MarkRecord::new(*c as u16, p_anchor(*id, u32::MAX, u32::MAX))).collect());
    let base_array = wg::BaseArray::new(
        sc.cells
            .iter()
            .map(|row| wg::BaseRecord::new(row.iter().map(|id| if *id == 0 { None } else { Some(p_anchor(*id, sc.dev_from, sc.heavy_from)) }).collect()))
            .collect(),
    );
    let sub = wg::MarkBasePosFormat1::new(mcov, bcov, marks, base_array);
    let lookup = wg::PositionLookup::MarkToBase(wl::Lookup::new(wl::LookupFlag::empty(), vec![sub]));
    let gpos = wg::Gpos::new(Default::default(), Default::default(), wl::LookupList::new(vec![lookup]));
    match catch(|| VGraph::from_table(&gpos).basic_sort()) {
        Ok(true) => {
            s.count("mb.points:fits-without-split");
            return;
        }
        Ok(false) => {}
        Err(_) => return,
    }
    let mut g = VGraph::from_table(&gpos);
    let before: BTreeMap<u64, ObjView> = g.objects().into_iter().map(|o| (o.id, o)).collect();
    let Some(lookup_id) = before.values().find(|o| o.type_name == "GPOS4MarkToBase").map(|o| o.id) else { return };
    let st = &before[&before[&lookup_id].links[0].2];
    let (Some(bcov_id), Some(ma_id), Some(ba_id)) = (link_at(st, 4), link_at(st, 8), link_at(st, 10)) else { return };
    let (ma, ba) = (&before[&ma_id], &before[&ba_id]);
    let class_count = u16_at(&st.bytes, 6) as usize;
    let base_count = u16_at(&ba.bytes, 0) as usize;
    let n_marks = u16_at(&ma.bytes, 0) as usize;
    let mut mark_req: Vec<u64> = vec![];
    let mut used: BTreeSet<u64> = BTreeSet::new();
    for i in 0..n_marks {
        let a = ma.links.get(i).map(|l| l.2).unwrap_or(0);
        mark_req.push(u16_at(&ma.bytes, 2 + 4 * i) as u64);
        mark_req.push(a);
        used.insert(a);
    }
    let base_offsets: Vec<u64> = ba.links.iter().map(|l| l.2).collect();
    used.extend(base_offsets.iter().copied());
    let mut obj_req: Vec<u64> = vec![];
    for id in &used {
        let Some(o) = before.get(id) else { continue };
        obj_req.extend([*id, o.bytes.len() as u64, o.links.len() as u64]);
        for l in &o.links {
            obj_req.extend([l.2, before[&l.2].bytes.len() as u64]);
        }
    }
    let nulls: usize = sc.cells.iter().flatten().filter(|c| **c == 0).count();
    s.count(if nulls == 0 { "mb.points:no-null-anchor" } else { "mb.points:with-null-anchors" });
    let req = format!(
        "mb.points {class_count} {} {base_count} | {} | {} | {}",
        before[&bcov_id].bytes.len(),
        join(&mark_req),
        join(&base_offsets),
        join(&obj_req)
    );
    let packed = catch(|| g.pack_objects());
    let ok = match packed {
        Err(msg) => {
            s.oracle("mb.points:split-does-not-panic", false, || sc.name.clone(), || msg.clone());
            return;
        }
        Ok(ok) => ok,
    };
    let objs: BTreeMap<u64, ObjView> = g.objects().into_iter().map(|o| (o.id, o)).collect();
    let subs = subtables(&objs, lookup_id);
    let resp = if subs.len() <= 1 {
        s.count("mb.points:overflow-but-no-split-point");
        "none".to_string()
    } else {
        s.count(&format!("mb.points:split-into-{}", subs.len().min(6)));
        let mut acc = 0usize;
        let pts: Vec<usize> = subs
            .iter()
            .map(|st| {
                acc += u16_at(&st.bytes, 6) as usize;
                acc
            })
            .collect();
        join(&pts)
    };
    if !ok {
        s.count(if nulls == 0 { "mb.points:packing-failed:no-nulls" } else { "mb.points:packing-failed:with-nulls(known finding)" });
    }
    // without null anchors the estimate is sound: the split result must pack
    if nulls == 0 {
        s.oracle("mb.points:packs-when-no-anchor-is-null", ok, || sc.name.clone(), || format!("split points {resp}, packing failed"));
    }
    s.case("mb.points", req, resp);
}

// ------------------------------------------------------------------------------------------
// device.build
// ------------------------------------------------------------------------------------------

/// `Device::new` on delta lists of 1..=17 entries drawn from the format boundaries (−2..=1 | 2, −3 |
/// −8, 7 | 8, −9 | −128, 127): written with write-fonts, read back with read-fonts `Device::iter`.
pub fn run_device(cfg: &Config, s: &mut Session, rng: &mut Rng) {
    use read_fonts::{FontData, FontRead};
    const B: [i8; 12] = [-2, -1, 0, 1, 2, -3, -8, 7, 8, -9, -128, 127];
    let n_cases = if cfg.thorough() { 12_000 } else { 1_500 };
    for case in 0..n_cases {
        let n = 1 + (case % 17) as usize;
        // which boundary values may appear: a prefix of B (so every format boundary is approached
        // from below and from above), now and then anything
        let upto = *rng.pick(&[4usize, 4, 5, 6, 6, 8, 8, 9, 10, 10, 12]);
        let mut vals: Vec<i8> = (0..n).map(|_| if rng.chance(1, 40) { rng.next() as i8 } else { B[rng.below(upto as u64) as usize] }).collect();
        // the largest allowed value is present (otherwise a smaller format would be chosen)
        let at = rng.below(n as u64) as usize;
        vals[at] = B[upto - 1 - rng.below(2.min(upto as u64)) as usize];
        let start = *rng.pick(&[0u16, 1, 8, 9, 12, 255, 65535 - 17]);
        let req = format!("device.build {start} | {}", join(&vals.iter().map(|v| *v as i32 + 128).collect::<Vec<_>>()));
        let input = || format!("Device::new({start}, {}, {vals:?})", start + n as u16 - 1);
        let built = catch(|| wl::Device::new(start, start + n as u16 - 1, &vals));
        let resp = match built {
            Err(e) => {
                s.oracle("device-build-does-not-panic", false, input, || e.clone());
                "trap".to_string()
            }
            Ok(d) => {
                let bits = match d.delta_format as u16 {
                    1 => 2,
                    2 => 4,
                    _ => 8,
                };
                s.count(&format!("device.build:format{}:{}", d.delta_format as u16, if n * bits % 16 == 0 { "full-words" } else { "partial-last-word" }));
                let want_fmt = if vals.iter().all(|v| (-2..=1).contains(v)) {
                    1
                } else if vals.iter().all(|v| (-8..=7).contains(v)) {
                    2
                } else {
                    3
                };
                s.oracle("device-format-is-the-smallest-that-fits", d.delta_format as u16 == want_fmt, input, || {
                    format!("format {} chosen, {want_fmt} is the smallest that represents all deltas", d.delta_format as u16)
                });
                let decoded: Result<Vec<i8>, String> = write_fonts::dump_table(&d).map_err(|e| format!("{e}")).and_then(|bytes| {
                    read_fonts::tables::layout::Device::read(FontData::new(&bytes)).map(|t| t.iter().collect()).map_err(|e| format!("{e:?}"))
                });
                s.oracle("device-decodes-to-written-deltas", decoded.as_ref().ok() == Some(&vals), input, || {
                    format!("format {} words {:04x?} decode to {decoded:?}", d.delta_format as u16, d.delta_value)
                });
                format!(
                    "{} {} {} | {} | {}",
                    d.start_size,
                    d.end_size,
                    d.delta_format as u16,
                    join(&d.delta_value),
                    match &decoded {
                        Ok(v) => join(&v.iter().map(|v| *v as i32 + 128).collect::<Vec<_>>()),
                        Err(_) => "unreadable".into(),
                    }
                )
            }
        };
        s.case("device.build", req, resp);
    }
}

// ------------------------------------------------------------------------------------------
// ml.build
// ------------------------------------------------------------------------------------------

enum MlOp {
    Mark(u16, u64, usize),
    Lig(u16, u64, Vec<usize>),
    Direct(u16, Vec<Vec<(u64, usize)>>),
}

/// `MarkToLigBuilder`: insert_mark (glyph moved between classes = Err), insert_ligature (repeated
/// (ligature, class), None entries, differing component counts: shorter = fine, longer with an anchor
/// beyond the list = index panic), add_ligature_components_directly (replaces), class names no mark
/// uses (panic in build) — against `MarkToLig.build`; oracle: every (mark, ligature, component) reads
/// back the anchors of a harness-side replay of the inserts.
pub fn run_ml_build(cfg: &Config, s: &mut Session, rng: &mut Rng) {
    let n_cases = if cfg.thorough() { 3000 } else { 400 };
    for _ in 0..n_cases {
        let marks: Vec<u16> = (0..rng.range(1, 5)).map(|_| if rng.chance(1, 2) { 300 + rng.below(8) as u16 } else { rng.next() as u16 }).collect();
        let ligs: Vec<u16> = (0..rng.range(1, 4)).map(|_| if rng.chance(1, 2) { 40 + rng.below(6) as u16 } else { rng.next() as u16 }).collect();
        let n_names = rng.range(1, 4) as u64;
        let n = rng.range(1, 20) as usize;
        let risky = rng.chance(1, 6);
        let mut b = MarkToLigBuilder::default();
        let mut ops: Vec<MlOp> = vec![];
        let mut results: Vec<String> = vec![];
        let mut trapped = false;
        // harness-side replay: names known to marks, mark glyph → (name, anchor), ligature → components → name → anchor
        let mut known: BTreeSet<u64> = BTreeSet::new();
        let mut mstate: BTreeMap<u16, (u64, usize)> = BTreeMap::new();
        let mut lstate: BTreeMap<u16, Vec<BTreeMap<u64, usize>>> = BTreeMap::new();
        for id in 1..=n {
            let base_id = id * 10;
            let name = rng.below(n_names);
            match rng.below(if known.is_empty() { 1 } else { 5 }) {
                0 | 1 => {
                    let g = *rng.pick(&marks);
                    known.insert(name);
                    mstate.insert(g, (name, base_id));
                    ops.push(MlOp::Mark(g, name, base_id));
                    match b.insert_mark(g16(g), &format!("c{name}"), AnchorBuilder::new(base_id as i16, 7)) {
                        Ok(cid) => results.push(format!("o{cid}")),
                        Err(e) => results.push(format!("e{}", e.class.trim_start_matches('c'))),
                    }
                }
                2 | 3 => {
                    let g = *rng.pick(&ligs);
                    if !known.contains(&name) && !risky {
                        continue;
                    }
                    let have = lstate.get(&g).map(|v| v.len()).unwrap_or(0);
                    let k = if have == 0 || (risky && rng.chance(1, 3)) { rng.range(0, 4) as usize } else if rng.chance(1, 4) { rng.below(have as u64 + 1) as usize } else { have };
                    let comps: Vec<usize> = (0..k).map(|i| if rng.chance(1, 3) { 0 } else { base_id + i }).collect();
                    ops.push(MlOp::Lig(g, name, comps.clone()));
                    let arg: Vec<Option<AnchorBuilder>> = comps.iter().map(|a| if *a == 0 { None } else { Some(AnchorBuilder::new(*a as i16, 7)) }).collect();
                    if catch(|| b.insert_ligature(g16(g), &format!("c{name}"), arg)).is_err() {
                        trapped = true;
                        break;
                    }
                    let cl = lstate.entry(g).or_default();
                    if cl.is_empty() {
                        cl.resize(k, BTreeMap::new());
                    }
                    for (i, a) in comps.iter().enumerate() {
                        if *a != 0 {
                            cl[i].insert(name, *a);
                        }
                    }
                }
                _ => {
                    let g = *rng.pick(&ligs);
                    let k = rng.range(0, 3) as usize;
                    let mut comps: Vec<Vec<(u64, usize)>> = vec![];
                    for i in 0..k {
                        let mut m: BTreeMap<u64, usize> = BTreeMap::new();
                        for j in 0..rng.below(3) {
                            let nm = if risky { rng.below(n_names) } else { *rng.pick(&known.iter().copied().collect::<Vec<_>>()) };
                            m.insert(nm, base_id + 3 * i + j as usize);
                        }
                        comps.push(m.into_iter().collect());
                    }
                    ops.push(MlOp::Direct(g, comps.clone()));
                    let arg: Vec<BTreeMap<String, AnchorBuilder>> =
                        comps.iter().map(|m| m.iter().map(|(nm, a)| (format!("c{nm}"), AnchorBuilder::new(*a as i16, 7))).collect()).collect();
                    b.add_ligature_components_directly(g16(g), arg);
                    lstate.insert(g, comps.iter().map(|m| m.iter().copied().collect()).collect());
                }
            }
        }
        if ops.is_empty() {
            continue;
        }
        let req = format!(
            "ml.build {}",
            ops.iter()
                .map(|o| match o {
                    MlOp::Mark(g, n, a) => format!("0 {g} {n} {a}"),
                    MlOp::Lig(g, n, c) => format!("1 {g} {n} {} {}", c.len(), join(c)).replace(" -", ""),
                    MlOp::Direct(g, c) => {
                        let parts: Vec<String> = c.iter().map(|m| format!("{} {}", m.len(), m.iter().map(|e| format!("{} {}", e.0, e.1)).collect::<Vec<_>>().join(" ")).trim().to_string()).collect();
                        format!("2 {g} {}", parts.join(" ")).trim().to_string()
                    }
                })
                .collect::<Vec<_>>()
                .join(" | ")
        );
        let unknown_name = lstate.values().flatten().flat_map(|m| m.keys()).any(|nm| !known.contains(nm));
        let resp = if trapped {
            s.count("ml.build:insert_ligature-index-panics");
            "trap".to_string()
        } else {
            let built = catch(|| {
                let mut vs = VariationStoreBuilder::new(2);
                b.build(&mut vs)
            });
            match built {
                Err(e) => {
                    s.count("ml.build:build-panics(unknown class name)");
                    s.oracle("ml.build:build-panics-only-for-unknown-class", unknown_name, || req.clone(), || e.clone());
                    "trap".to_string()
                }
                Ok(subs) => {
                    s.count("ml.build:built");
                    let Some(t) = subs.first() else { continue };
                    let (Ok(mc), Ok(lc)) = (write_fonts::dump_table(&*t.mark_coverage), write_fonts::dump_table(&*t.ligature_coverage)) else { continue };
                    let ax = |a: &wg::AnchorTable| -> i32 {
                        match a {
                            wg::AnchorTable::Format1(a) => a.x_coordinate as i32,
                            wg::AnchorTable::Format2(a) => a.x_coordinate as i32,
                            wg::AnchorTable::Format3(a) => a.x_coordinate as i32,
                        }
                    };
                    let mcov: Vec<u16> = t.mark_coverage.iter().map(|g| g.to_u16()).collect();
                    let lcov: Vec<u16> = t.ligature_coverage.iter().map(|g| g.to_u16()).collect();
                    let mr: Vec<(u16, i32)> = t.mark_array.mark_records.iter().map(|r| (r.mark_class, ax(&r.mark_anchor))).collect();
                    let la: Vec<Vec<Vec<Option<i32>>>> = t
                        .ligature_array
                        .ligature_attaches
                        .iter()
                        .map(|l| l.component_records.iter().map(|c| c.ligature_anchors.iter().map(|a| a.as_ref().map(|a| ax(a))).collect()).collect())
                        .collect();
                    // model-independent read-back
                    let mut why = None;
                    let mut mprobe = marks.clone();
                    mprobe.push(9);
                    let mut lprobe = ligs.clone();
                    lprobe.push(9);
                    'o: for m in &mprobe {
                        for l in &lprobe {
                            for c in 0..5usize {
                                let want = mstate.get(m).and_then(|(nm, am)| lstate.get(l)?.get(c)?.get(nm).map(|al| (*am as i32, *al as i32)));
                                let got = mcov.iter().position(|g| g == m).zip(lcov.iter().position(|g| g == l)).and_then(|(mi, li)| {
                                    let r = mr.get(mi)?;
                                    let a = (*la.get(li)?.get(c)?.get(r.0 as usize)?)?;
                                    Some((r.1, a))
                                });
                                if got != want {
                                    why = Some(format!("(mark {m}, ligature {l}, component {c}): built subtable answers {got:?}, the inserts say {want:?}"));
                                    break 'o;
                                }
                            }
                        }
                    }
                    s.oracle("ml.build:reads-back-inserted-anchors", why.is_none(), || req.clone(), || why.clone().unwrap_or_default());
                    let mrecs: Vec<i32> = mr.iter().flat_map(|r| [r.0 as i32, r.1]).collect();
                    let ligs_s: Vec<String> = la
                        .iter()
                        .map(|comps| {
                            if comps.is_empty() {
                                "-".to_string()
                            } else {
                                comps.iter().map(|r| join(&r.iter().map(|a| a.unwrap_or(0)).collect::<Vec<_>>())).collect::<Vec<_>>().join(" , ")
                            }
                        })
                        .collect();
                    format!(
                        "{} ; {} ; {} ; {} ; {} | {}",
                        render_cov_bytes(&mc),
                        render_cov_bytes(&lc),
                        known.len(),
                        join(&mrecs),
                        if ligs_s.is_empty() { "-".to_string() } else { ligs_s.join(" / ") },
                        if results.is_empty() { "-".to_string() } else { results.join(" ") }
                    )
                }
            }
        };
        s.case("ml.build", req, resp);
    }
}

/// MarkBasePos with every anchor present and distinct, except that the base anchors of class `j` are
/// the SAME objects as those of class `j - 1` (identical coordinates): if class `j` is where the size
/// loop of `split_mark_to_base_subtable` cuts, its whole column was "visited" in the previous piece
fn mb_shared_column(classes: usize, n_bases: usize, j: usize, also: &[usize]) -> MbP {
    let mut next = 1u32;
    let mut cells = vec![];
    for _ in 0..n_bases {
        let mut row: Vec<u32> = vec![];
        for c in 0..classes {
            if (c == j || also.contains(&c)) && c > 0 {
                row.push(row[c - 1]);
            } else {
                row.push(next);
                next += 1;
            }
        }
        cells.push(row);
    }
    MbP {
        name: format!("mb-shared-column{{classes={classes} bases={n_bases} class {j} (and {also:?}) share the anchors of the class before}}"),
        classes,
        marks: (0..classes).collect(),
        n_bases,
        cells,
        mark_ids: (0..classes).map(|i| 500_000 + i as u32).collect(),
        dev_from: u32::MAX,
        heavy_from: u32::MAX,
    }
}

pub fn run_mb_shared_search(s: &mut Session) {
    for n_bases in (1300usize..1440).step_by(4) {
        let sc = mb_shared_column(14, n_bases, 6, &[12, 13]);
        mbp_case(s, &sc);
    }
}

pub fn run(cfg: &Config, s: &mut Session, rng: &mut Rng) {
    let t = cfg.thorough();
    for _ in 0..(if t { 160 } else { 26 }) {
        let c = gen_lk(rng, s);
        lk_case(s, &c);
    }
    run_classpairs(cfg, s, rng);
    run_mb_build(cfg, s, rng);
    for _ in 0..(if t { 120 } else { 20 }) {
        let sc = gen_mbp(rng, s, t);
        mbp_case(s, &sc);
    }
    run_device(cfg, s, rng);
    run_ml_build(cfg, s, rng);
    // regression for /repo b7790d4 (was finding C16-markbase-stale-visited-at-split): the class at the split point shares its anchors with
    // the previous piece (counted 0), two later classes share theirs legitimately: the second piece is
    // was under-estimated by a whole anchor column and could not be packed; it must pack now
    mbp_case(s, &mb_shared_column(14, 1312, 6, &[12, 13]));
}
