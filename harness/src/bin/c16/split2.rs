//! `split_pair_pos_format_2` (heuristic + `split_off_ppf2`) and `split_off_mark_pos` against the
//! model (`ppf2.run`, `mb.split`).  Tables are built directly from write-fonts structs, turned into
//! the packing graph (hook `verif_hooks::VGraph::from_table`), packed, and the subtables found under
//! the lookup afterwards are decoded from the graph objects.
use fv_harness::common::*;
use font_types::GlyphId16;
use read_fonts::tables::layout as rl;
use read_fonts::{FontData, FontRead};
use std::collections::BTreeMap;
use write_fonts::tables::gpos as wg;
use write_fonts::tables::layout as wl;
use write_fonts::verif_hooks::{ObjView, VGraph};

/// big-endian u16; reads beyond the end (a truncated subtable) give 0xDEAD instead of a panic
pub(crate) fn u16_at(b: &[u8], at: usize) -> u16 {
    match b.get(at..at + 2) {
        Some(x) => u16::from_be_bytes([x[0], x[1]]),
        None => 0xDEAD,
    }
}

pub(crate) fn render_cov_bytes(b: &[u8]) -> String {
    match rl::CoverageTable::read(FontData::new(b)) {
        Ok(rl::CoverageTable::Format1(t)) => {
            let v: Vec<u16> = t.glyph_array().iter().map(|g| g.get().to_u16()).collect();
            format!("1 {}", join(&v))
        }
        Ok(rl::CoverageTable::Format2(t)) => {
            let mut v: Vec<u16> = vec![];
            for r in t.range_records() {
                v.push(r.start_glyph_id().to_u16());
                v.push(r.end_glyph_id().to_u16());
                v.push(r.start_coverage_index());
            }
            format!("2 {}", join(&v))
        }
        Err(_) => "unreadable".into(),
    }
}

pub(crate) fn render_cd_bytes(b: &[u8]) -> String {
    match rl::ClassDef::read(FontData::new(b)) {
        Ok(rl::ClassDef::Format1(t)) => {
            let v: Vec<u16> = t.class_value_array().iter().map(|g| g.get()).collect();
            format!("1 {} {}", t.start_glyph_id().to_u16(), join(&v))
        }
        Ok(rl::ClassDef::Format2(t)) => {
            let mut v: Vec<u16> = vec![];
            for r in t.class_range_records() {
                v.push(r.start_glyph_id().to_u16());
                v.push(r.end_glyph_id().to_u16());
                v.push(r.class());
            }
            format!("2 {}", join(&v))
        }
        Err(_) => "unreadable".into(),
    }
}

pub(crate) fn link_at(o: &ObjView, pos: u32) -> Option<u64> {
    o.links.iter().find(|l| l.0 == pos).map(|l| l.2)
}

/// the subtables under the (only) lookup of type `name` / extension, in order
pub(crate) fn subtables<'a>(objs: &'a BTreeMap<u64, ObjView>, lookup_id: u64) -> Vec<&'a ObjView> {
    let lk = &objs[&lookup_id];
    lk.links
        .iter()
        .map(|l| {
            let st = &objs[&l.2];
            if st.type_name.starts_with("Extension") {
                &objs[&st.links[0].2]
            } else {
                st
            }
        })
        .collect()
}

// ------------------------------------------------------------------ PairPos format 2

pub struct Pp2 {
    pub name: String,
    /// covered glyphs with class-1 value (sorted by glyph)
    pub gc: Vec<(u16, u16)>,
    pub k1: u16,
    pub k2: u16,
    /// fields per value record (record 1, record 2); each field 2 bytes
    pub f1: u8,
    pub f2: u8,
    /// glyphs with class-2 value
    pub g2: Vec<(u16, u16)>,
}

fn vr(fields: u8, v: i16) -> wg::ValueRecord {
    let mut r = wg::ValueRecord::new();
    if fields >= 1 {
        r = r.with_x_advance(v);
    }
    if fields >= 2 {
        r = r.with_x_placement(v);
    }
    if fields >= 3 {
        r = r.with_y_placement(v);
    }
    if fields >= 4 {
        r = r.with_y_advance(v);
    }
    r
}

pub fn pp2_case(s: &mut Session, sc: &Pp2) {
    let coverage: wl::CoverageTable = sc.gc.iter().map(|p| GlyphId16::new(p.0)).collect();
    let cd1: wl::ClassDef = sc.gc.iter().map(|p| (GlyphId16::new(p.0), p.1)).collect();
    let cd2: wl::ClassDef = sc.g2.iter().map(|p| (GlyphId16::new(p.0), p.1)).collect();
    let rows: Vec<wg::Class1Record> = (0..sc.k1)
        .map(|i| {
            wg::Class1Record::new(
                (0..sc.k2).map(|_| wg::Class2Record::new(vr(sc.f1, i as i16 + 1), vr(sc.f2, i as i16 + 1))).collect(),
            )
        })
        .collect();
    let (Ok(cov_b), Ok(cd1_b), Ok(cd2_b)) = (write_fonts::dump_table(&coverage), write_fonts::dump_table(&cd1), write_fonts::dump_table(&cd2)) else {
        s.oracle("ppf2:parts-compile", false, || sc.name.clone(), || "coverage/classdef did not compile".into());
        return;
    };
    let rec_size = sc.k2 as usize * 2 * (sc.f1 as usize + sc.f2 as usize);
    let lookup = wg::PositionLookup::Pair(wl::Lookup::new(
        wl::LookupFlag::empty(),
        vec![wg::PairPos::format_2(coverage, cd1, cd2, rows)],
    ));
    let gpos = wg::Gpos::new(Default::default(), Default::default(), wl::LookupList::new(vec![lookup]));
    let req = format!("ppf2.run {} | {} | {} {} {}", render_cov_bytes(&cov_b), render_cd_bytes(&cd1_b), sc.k1, rec_size, cd2_b.len());
    match catch(|| VGraph::from_table(&gpos).basic_sort()) {
        Ok(true) => {
            s.count("ppf2:fits-without-split");
            return;
        }
        Ok(false) => {}
        Err(_) => {
            s.oracle("ppf2:basic_sort-does-not-panic", false, || sc.name.clone(), || "panic".into());
            return;
        }
    }
    let mut g = VGraph::from_table(&gpos);
    let Some(lookup_id) = g.objects().iter().find(|o| o.type_name == "GPOS2Pair").map(|o| o.id) else { return };
    let packed = catch(|| g.pack_objects());
    let short = || format!("{} ({})", sc.name, if req.len() > 300 { format!("{}…", &req[..300]) } else { req.clone() });
    let resp = match packed {
        Err(msg) => {
            s.oracle("ppf2:split-does-not-panic", false, short, || msg.clone());
            "trap".to_string()
        }
        Ok(ok) => {
            if !ok {
                s.count("ppf2:packing-failed-after-split");
            }
            let objs: BTreeMap<u64, ObjView> = g.objects().into_iter().map(|o| (o.id, o)).collect();
            let subs = subtables(&objs, lookup_id);
            let mut parts = vec![];
            let mut points = vec![];
            let mut acc = 0usize;
            for st in &subs {
                let cov = link_at(st, 2).map(|id| render_cov_bytes(&objs[&id].bytes)).unwrap_or("?".into());
                let cd = link_at(st, 8).map(|id| render_cd_bytes(&objs[&id].bytes)).unwrap_or("?".into());
                let c1 = u16_at(&st.bytes, 12) as usize;
                let c2 = u16_at(&st.bytes, 14) as usize;
                let stride = c2 * 2 * (sc.f1 as usize + sc.f2 as usize);
                let ids: Vec<u16> = (0..c1).map(|i| u16_at(&st.bytes, 16 + i * stride).wrapping_sub(1)).collect();
                acc += c1;
                points.push(acc);
                parts.push(format!("{cov} ; {cd} ; {}", join(&ids)));
            }
            if subs.len() <= 1 {
                s.count("ppf2:overflow-but-no-split-point");
                "none".to_string()
            } else {
                s.count("ppf2:split-triggered");
                s.count(&format!("ppf2:split-into-{}", subs.len().min(6)));
                format!("{} | {}", join(&points), parts.join(" | "))
            }
        }
    };
    s.case("ppf2.run", req, resp);
}

fn glyph_run(rng: &mut Rng, n: usize, style: u64, base: u32) -> Vec<u16> {
    let mut v = vec![];
    let mut at = base;
    for i in 0..n {
        if at > 0xFFFF {
            break;
        }
        v.push(at as u16);
        at += match style {
            0 => 1,
            1 => 2,
            2 => if i % 5 == 4 { 3 } else { 1 },
            _ => if rng.chance(3, 4) { 1 } else { 1 + rng.below(5) as u32 },
        };
    }
    v
}

pub fn gen_pp2(rng: &mut Rng, s: &mut Session, thorough: bool) -> Pp2 {
    let f1 = rng.range(1, 4) as u8;
    let f2 = rng.range(0, 2) as u8;
    let cell = 2 * (f1 as usize + f2 as usize);
    let target = *rng.pick(&[50_000usize, 64_000, 66_000, 70_000, 100_000, 140_000, 200_000, 262_000]);
    let target = if thorough { target } else { target.min(200_000) };
    let k2 = rng.range(2, 300) as usize;
    let k1 = (target / (cell * k2)).clamp(2, 2000);
    // class-1 assignment
    let per = rng.range(1, 4) as usize;
    let n = k1 * per + rng.below(k1 as u64 + 1) as usize;
    let style = rng.below(4);
    let base = match rng.below(3) {
        0 => 0,
        1 => rng.below(20_000) as u32,
        _ => 0xFFFF - (3 * n as u32 + 10).min(0xFFFF),
    };
    let glyphs = glyph_run(rng, n, style, base);
    let pattern = rng.below(3);
    let name = format!("pp2 k1={k1} k2={k2} cell={cell} glyphs={} style={style} pattern={pattern}", glyphs.len());
    s.count(&format!("ppf2:gen:pattern{pattern}:style{style}"));
    let mut gc: Vec<(u16, u16)> = vec![];
    for (i, g) in glyphs.iter().enumerate() {
        let c = match pattern {
            0 => (i * k1 / glyphs.len().max(1)).min(k1 - 1), // contiguous blocks
            1 => i % k1,                                      // interleaved
            _ => {
                if i < k1 { i } else { rng.below(k1 as u64) as usize }
            }
        };
        gc.push((*g, c as u16));
    }
    // class 2: glyphs anywhere, classes 1..k2-1
    let (m2, st2, b2) = (rng.range(1, 3) as usize, rng.below(4), rng.below(30_000) as u32);
    let g2s = glyph_run(rng, (k2 - 1) * m2, st2, b2);
    let g2: Vec<(u16, u16)> = g2s.iter().enumerate().map(|(i, g)| (*g, 1 + (i % (k2 - 1).max(1)) as u16)).collect();
    Pp2 { name, gc, k1: k1 as u16, k2: k2 as u16, f1, f2, g2 }
}

// ------------------------------------------------------------------ PairPos format 2 with device tables

/// A format 2 subtable whose value records carry device / variation-index tables.  Cell `n`
/// (row-major) stores `n` in record 1's x_advance; `flags[n]` bits 0-3 / 4-7 say which of
/// record 1's / record 2's device fields (x_pla, y_pla, x_adv, y_adv) are non-null; every non-null
/// field gets its own table (content id `ids[n][k]`), except that some ids are deliberately reused.
pub struct Pp2Dev {
    pub name: String,
    pub gc: Vec<(u16, u16)>,
    pub k1: usize,
    pub k2: usize,
    /// scalar field masks (bit 0 x_pla, 1 y_pla, 2 x_adv, 3 y_adv); record 1 always has x_adv
    pub s1: u8,
    pub s2: u8,
    pub flags: Vec<u8>,
    /// content ids per cell, 8 slots, 0 = null
    pub ids: Vec<[u32; 8]>,
}

/// a device / variation-index table whose bytes are a function of `id` (distinct ids → distinct bytes)
fn dev_table(id: u32) -> wl::DeviceOrVariationIndex {
    match id % 3 {
        0 => wl::VariationIndex::new((id / 50_000) as u16 + 1, (id % 50_000) as u16).into(),
        1 => {
            // 8-bit deltas, 3 sizes
            let v = [(id & 0x7f) as i8 | 0x40, ((id >> 7) & 0xff) as u8 as i8, ((id >> 15) & 0xff) as u8 as i8];
            wl::Device::new(9, 11, &v).into()
        }
        _ => {
            // 4-bit deltas, 6 sizes (2 words)
            let v: Vec<i8> = (0..6).map(|k| if k == 0 { -8 } else { (((id >> (3 * (k - 1))) & 7) as i8) - 4 }).collect();
            wl::Device::new(12, 17, &v).into()
        }
    }
}

pub fn pp2_dev_case(s: &mut Session, sc: &Pp2Dev) {
    use wg::ValueFormat as F;
    const SC: [F; 4] = [F::X_PLACEMENT, F::Y_PLACEMENT, F::X_ADVANCE, F::Y_ADVANCE];
    const DV: [F; 4] = [F::X_PLACEMENT_DEVICE, F::Y_PLACEMENT_DEVICE, F::X_ADVANCE_DEVICE, F::Y_ADVANCE_DEVICE];
    let (mut d1, mut d2) = (0u8, 0u8);
    for f in &sc.flags {
        d1 |= f & 15;
        d2 |= f >> 4;
    }
    let fmt = |sm: u8, dm: u8| {
        let mut f = F::empty();
        for k in 0..4 {
            if sm >> k & 1 == 1 {
                f |= SC[k];
            }
            if dm >> k & 1 == 1 {
                f |= DV[k];
            }
        }
        f
    };
    let (f1, f2) = (fmt(sc.s1, d1), fmt(sc.s2, d2));
    let mut by_bytes: BTreeMap<Vec<u8>, u32> = BTreeMap::new();
    let mut rec = |n: usize, sm: u8, ids: &[u32], f: F| {
        let mut r = wg::ValueRecord::new();
        let v = n as i16;
        if sm & 1 != 0 {
            r = r.with_x_placement(v.wrapping_mul(3));
        }
        if sm & 2 != 0 {
            r = r.with_y_placement(-v);
        }
        if sm & 4 != 0 {
            r = r.with_x_advance(v);
        }
        if sm & 8 != 0 {
            r = r.with_y_advance(v ^ 0x55);
        }
        for (k, id) in ids.iter().enumerate() {
            if *id == 0 {
                continue;
            }
            let t = dev_table(*id);
            if let Ok(b) = write_fonts::dump_table(&t) {
                by_bytes.insert(b, *id);
            }
            r = match k {
                0 => r.with_x_placement_device(t),
                1 => r.with_y_placement_device(t),
                2 => r.with_x_advance_device(t),
                _ => r.with_y_advance_device(t),
            };
        }
        r.with_explicit_value_format(f)
    };
    let rows: Vec<wg::Class1Record> = (0..sc.k1)
        .map(|i| {
            wg::Class1Record::new(
                (0..sc.k2)
                    .map(|j| {
                        let n = i * sc.k2 + j;
                        wg::Class2Record::new(rec(n, sc.s1, &sc.ids[n][..4], f1), rec(n, sc.s2, &sc.ids[n][4..], f2))
                    })
                    .collect(),
            )
        })
        .collect();
    let coverage: wl::CoverageTable = sc.gc.iter().map(|p| GlyphId16::new(p.0)).collect();
    let cd1: wl::ClassDef = sc.gc.iter().map(|p| (GlyphId16::new(p.0), p.1)).collect();
    let cd2: wl::ClassDef = (0..sc.k2 as u16).skip(1).map(|c| (GlyphId16::new(30_000 + c), c)).collect();
    let (Ok(cov_b), Ok(cd1_b)) = (write_fonts::dump_table(&coverage), write_fonts::dump_table(&cd1)) else { return };
    let lookup = wg::PositionLookup::Pair(wl::Lookup::new(
        wl::LookupFlag::empty(),
        vec![wg::PairPos::format_2(coverage, cd1, cd2, rows)],
    ));
    let gpos = wg::Gpos::new(Default::default(), Default::default(), wl::LookupList::new(vec![lookup]));
    let name = || sc.name.clone();
    // the unsplit subtable's own offset list (content ids of the linked device objects, in order)
    let g0 = VGraph::from_table(&gpos);
    let objs0: BTreeMap<u64, ObjView> = g0.objects().into_iter().map(|o| (o.id, o)).collect();
    let Some(lk0) = objs0.values().find(|o| o.type_name == "GPOS2Pair") else { return };
    let st0 = &objs0[&lk0.links[0].2];
    let content_id = |objs: &BTreeMap<u64, ObjView>, id: u64| -> u32 { by_bytes.get(&objs[&id].bytes).copied().unwrap_or(u32::MAX) };
    let dev_ids: Vec<u32> = st0.links.iter().skip(3).map(|l| content_id(&objs0, l.2)).collect();
    let expect_ids: Vec<u32> = sc.ids.iter().flat_map(|c| c.iter().copied().filter(|x| *x != 0)).collect();
    s.oracle("ppf2-devs:offset-list-in-writing-order", dev_ids == expect_ids, name, || {
        format!("{} offsets, {} non-null device fields", dev_ids.len(), expect_ids.len())
    });
    // object identity and byte length of every linked device table (for the size-loop model)
    let dev_objs: Vec<u64> = st0.links.iter().skip(3).map(|l| l.2).collect();
    let dev_sizes: Vec<usize> = dev_objs.iter().map(|id| objs0[id].bytes.len()).collect();
    let cd2_size = link_at(st0, 10).map(|id| objs0[&id].bytes.len()).unwrap_or(0);
    let shared_devs = dev_objs.len() - dev_objs.iter().collect::<std::collections::BTreeSet<_>>().len();
    drop(g0);
    let mut g = VGraph::from_table(&gpos);
    let Some(lookup_id) = g.objects().iter().find(|o| o.type_name == "GPOS2Pair").map(|o| o.id) else { return };
    let packed = catch(|| g.pack_objects());
    let flags_s = join(&sc.flags.iter().map(|f| *f as u32).collect::<Vec<_>>());
    let mk_req = |pts: &[usize]| {
        format!(
            "ppf2.devs {} | {} | {} | {} | {} | {}",
            render_cov_bytes(&cov_b),
            render_cd_bytes(&cd1_b),
            sc.k2,
            join(pts),
            join(&dev_ids),
            flags_s
        )
    };
    let ok = match packed {
        Err(msg) => {
            s.oracle("ppf2-devs:split-does-not-panic", false, name, || msg.clone());
            return;
        }
        Ok(ok) => ok,
    };
    if !ok {
        s.count("ppf2-devs:packing-failed-after-split");
    }
    let objs: BTreeMap<u64, ObjView> = g.objects().into_iter().map(|o| (o.id, o)).collect();
    let subs = subtables(&objs, lookup_id);
    if subs.len() <= 1 {
        s.count("ppf2-devs:no-split");
        return;
    }
    s.count("ppf2-devs:split-triggered");
    s.count(&format!("ppf2-devs:split-into-{}", subs.len().min(8)));
    let n1 = [(sc.s1.count_ones() as usize), (d1.count_ones() as usize)];
    let n2 = [(sc.s2.count_ones() as usize), (d2.count_ones() as usize)];
    let stride = 2 * (n1[0] + n1[1] + n2[0] + n2[1]);
    // byte position of record 1's x_advance within a cell
    let xadv_at = 2 * (sc.s1 & 3).count_ones() as usize;
    let mut parts = vec![];
    let mut points = vec![];
    let mut acc = 0usize;
    let mut bad: Option<String> = None;
    let mut n_cells = 0usize;
    for (pi, st) in subs.iter().enumerate() {
        let cov = link_at(st, 2).map(|id| render_cov_bytes(&objs[&id].bytes)).unwrap_or("?".into());
        let cd = link_at(st, 8).map(|id| render_cd_bytes(&objs[&id].bytes)).unwrap_or("?".into());
        let c1 = u16_at(&st.bytes, 12) as usize;
        let c2 = u16_at(&st.bytes, 14) as usize;
        acc += c1;
        points.push(acc);
        let mut rows_s = vec![];
        // the record array must have exactly class1_count × class2_count records of the declared formats
        let want = 16 + c1 * c2 * stride;
        s.oracle("ppf2-devs:record-array-size", st.bytes.len() == want && c2 == sc.k2, name, || {
            format!("piece {pi}: {} bytes, class1_count {c1} × class2_count {c2} × record size {stride} + 16 = {want}", st.bytes.len())
        });
        if st.bytes.len() != want {
            bad.get_or_insert_with(|| format!("piece {pi}: record array size {} instead of {want}", st.bytes.len()));
            continue;
        }
        for i in 0..c1 {
            let mut cells_s = vec![];
            for j in 0..c2 {
                let at = 16 + (i * c2 + j) * stride;
                let n = u16_at(&st.bytes, at + xadv_at) as usize;
                let mut got = [0u32; 8];
                // record 1 devices, then record 2 devices, in format order
                let mut pos = at + 2 * n1[0];
                for k in 0..4 {
                    if d1 >> k & 1 == 1 {
                        got[k] = link_at(st, pos as u32).map(|id| content_id(&objs, id)).unwrap_or(0);
                        pos += 2;
                    }
                }
                pos += 2 * n2[0];
                for k in 0..4 {
                    if d2 >> k & 1 == 1 {
                        got[4 + k] = link_at(st, pos as u32).map(|id| content_id(&objs, id)).unwrap_or(0);
                        pos += 2;
                    }
                }
                n_cells += 1;
                if bad.is_none() && sc.ids.get(n) != Some(&got) {
                    bad = Some(format!(
                        "piece {pi} row {i} col {j} (cell {n}): device links {:?}, the unsplit subtable has {:?}",
                        got,
                        sc.ids.get(n)
                    ));
                }
                cells_s.push(format!("{n} {}", join(&got)));
            }
            rows_s.push(cells_s.join(" "));
        }
        parts.push(format!("{cov} ; {cd} ; {}", rows_s.join(" , ")));
    }
    // model-independent: every cell of every piece links the device tables of the cell it came from
    s.oracle("ppf2-devs:split-keeps-device-links", bad.is_none() && n_cells == sc.k1 * sc.k2, name, || {
        bad.clone().unwrap_or_else(|| format!("{n_cells} cells after the split, {} before", sc.k1 * sc.k2))
    });
    s.case("ppf2.devs", mk_req(&points), parts.join(" | "));
    // the size loop with device tables (visited set, re-count at a split): piece ends of the real run
    // versus `ppf2DPieces`; the estimate of every piece is checked against the real pieces' bytes
    s.count(if shared_devs > 0 { "ppf2.dpoints:with-shared-device-objects" } else { "ppf2.dpoints:all-device-objects-distinct" });
    let req = format!(
        "ppf2.dpoints {} | {} | {} {} {cd2_size} | {flags_s} | {} | {}",
        render_cov_bytes(&cov_b),
        render_cd_bytes(&cd1_b),
        sc.k2,
        sc.k2 * stride,
        join(&dev_objs),
        join(&dev_sizes)
    );
    // what each real piece needs: its own bytes + every distinct device object it links, once
    let real_sizes: Vec<usize> = subs
        .iter()
        .map(|st| {
            let devs: std::collections::BTreeSet<u64> = st.links.iter().skip(3).map(|l| l.2).collect();
            st.bytes.len() + devs.iter().map(|id| objs[id].bytes.len()).sum::<usize>()
        })
        .collect();
    // emitted coverage / class definition 1 of every piece against the estimator's formulas
    // (4 + 2 per glyph; 4 + 6 per run of consecutive glyphs of one class, original class 0 skipped),
    // computed here from the scenario's (glyph, class) list: model-independent
    let cov_bytes: Vec<usize> = subs.iter().map(|st| link_at(st, 2).map(|id| objs[&id].bytes.len()).unwrap_or(0)).collect();
    let cd_bytes: Vec<usize> = subs.iter().map(|st| link_at(st, 8).map(|id| objs[&id].bytes.len()).unwrap_or(0)).collect();
    let mut lo = 0usize;
    let (mut cov_est, mut cd_est) = (vec![], vec![]);
    for hi in &points {
        let mut ce = 4usize;
        let mut de = 4usize;
        for c in lo..*hi {
            let mut gl: Vec<u16> = sc.gc.iter().filter(|p| p.1 as usize == c).map(|p| p.0).collect();
            gl.sort();
            gl.dedup();
            ce += 2 * gl.len();
            if c != 0 {
                de += 6 * gl.iter().enumerate().filter(|(i, g)| *i == 0 || gl[*i - 1] + 1 != **g).count();
            }
        }
        cov_est.push(ce);
        cd_est.push(de);
        lo = *hi;
    }
    let sound = cov_bytes.iter().zip(&cov_est).all(|(a, e)| a <= e) && cd_bytes.iter().zip(&cd_est).all(|(a, e)| a <= e);
    s.oracle("ppf2-piece:coverage-and-classdef-estimates-are-upper-bounds", sound, name, || {
        format!("coverage bytes {cov_bytes:?} vs estimates {cov_est:?}; class def 1 bytes {cd_bytes:?} vs estimates {cd_est:?}")
    });
    s.case(
        "ppf2.dpoints",
        req,
        format!("{} | {} | {} | {} | {} | {}", join(&points), join(&real_sizes), join(&cov_bytes), join(&cd_bytes), join(&cov_est), join(&cd_est)),
    );
}

pub fn gen_pp2_dev(rng: &mut Rng, s: &mut Session, _thorough: bool) -> Pp2Dev {
    let k2 = rng.range(2, 12) as usize;
    let s1 = 4 | rng.below(16) as u8;
    let s2 = rng.below(16) as u8;
    // device field masks and per-cell density
    let style = rng.below(5);
    let (m1, m2): (u8, u8) = match style {
        0 => (15, 15),
        1 => (rng.range(1, 15) as u8, rng.range(1, 15) as u8),
        2 => (0, rng.range(1, 15) as u8),
        3 => (rng.range(1, 15) as u8, 0),
        _ => (15, rng.range(1, 15) as u8),
    };
    let density = *rng.pick(&[100u64, 100, 70, 30]);
    let share = *rng.pick(&[0u64, 0, 5, 30]);
    s.count(&format!("ppf2-devs:gen:style{style}:density{density}:share{share}"));
    // ~14 bytes per device + the offsets: aim at 1.2 – 3.5 × 64 KiB
    let per_cell = 2 * ((s1.count_ones() + s2.count_ones() + m1.count_ones() + m2.count_ones()) as usize)
        + 12 * (m1.count_ones() + m2.count_ones()) as usize * density as usize / 100;
    let target = *rng.pick(&[80_000usize, 110_000, 150_000, 230_000]);
    let k1 = (target / (per_cell.max(4) * k2)).clamp(3, 1500);
    let mut flags = vec![];
    let mut ids = vec![];
    let mut next = 1u32;
    let mut used: Vec<u32> = vec![];
    for _ in 0..k1 * k2 {
        let mut f = 0u8;
        let mut c = [0u32; 8];
        for k in 0..8 {
            let m = if k < 4 { m1 >> k & 1 } else { m2 >> (k - 4) & 1 };
            if m == 1 && rng.chance(density, 100) {
                f |= 1 << k;
                c[k] = if !used.is_empty() && rng.chance(share, 100) {
                    *rng.pick(&used)
                } else {
                    next += 1;
                    next
                };
                used.push(c[k]);
                if used.len() > 64 {
                    used.remove(0);
                }
            }
        }
        flags.push(f);
        ids.push(c);
    }
    // make sure the union masks are what the style says (first cell carries everything)
    {
        let mut c = [0u32; 8];
        let mut f = 0u8;
        for k in 0..8 {
            let m = if k < 4 { m1 >> k & 1 } else { m2 >> (k - 4) & 1 };
            if m == 1 {
                next += 1;
                c[k] = next;
                f |= 1 << k;
            }
        }
        flags[0] = f;
        ids[0] = c;
    }
    let per = rng.range(1, 3) as usize;
    let (gst, gbase) = (rng.below(4), rng.below(20_000) as u32);
    let glyphs = glyph_run(rng, k1 * per, gst, gbase);
    let pattern = rng.below(2);
    let gc: Vec<(u16, u16)> = glyphs
        .iter()
        .enumerate()
        .map(|(i, g)| (*g, if pattern == 0 { (i * k1 / glyphs.len()).min(k1 - 1) } else { i % k1 } as u16))
        .collect();
    Pp2Dev {
        name: format!(
            "pp2dev k1={k1} k2={k2} scalars={s1:#x}/{s2:#x} devmasks={m1:#x}/{m2:#x} density={density}% share={share}% devices={}",
            next
        ),
        gc,
        k1,
        k2,
        s1,
        s2,
        flags,
        ids,
    }
}

// ------------------------------------------------------------------ MarkBasePos

pub struct Mb {
    pub name: String,
    pub classes: u16,
    /// (mark glyph, class) sorted by glyph
    pub marks: Vec<(u16, u16)>,
    pub bases: Vec<u16>,
    /// per base, per class: anchor present?
    pub present: Vec<Vec<bool>>,
}

fn anchor(id: u32) -> wg::AnchorTable {
    wg::AnchorTable::format_1((id % 30_000) as i16, (id / 30_000) as i16)
}

fn anchor_id(b: &[u8]) -> u32 {
    u16_at(b, 2) as u32 + 30_000 * u16_at(b, 4) as u32
}

pub fn mb_case(s: &mut Session, sc: &Mb) {
    let mark_cov: wl::CoverageTable = sc.marks.iter().map(|p| GlyphId16::new(p.0)).collect();
    let base_cov: wl::CoverageTable = sc.bases.iter().map(|g| GlyphId16::new(*g)).collect();
    let mut next_id = 1u32;
    let mut mark_req: Vec<u32> = vec![];
    let mark_array = wg::MarkArray::new(
        sc.marks
            .iter()
            .map(|(_, c)| {
                let id = next_id;
                next_id += 1;
                mark_req.push(*c as u32);
                mark_req.push(id);
                wg::MarkRecord::new(*c, anchor(id))
            })
            .collect(),
    );
    let mut rows_req: Vec<String> = vec![];
    let base_array = wg::BaseArray::new(
        sc.present
            .iter()
            .map(|row| {
                let mut ids: Vec<u32> = vec![];
                let rec = wg::BaseRecord::new(
                    row.iter()
                        .map(|p| {
                            if *p {
                                let id = next_id;
                                next_id += 1;
                                ids.push(id);
                                Some(anchor(id))
                            } else {
                                ids.push(0);
                                None
                            }
                        })
                        .collect(),
                );
                rows_req.push(join(&ids));
                rec
            })
            .collect(),
    );
    let Ok(mcov_b) = write_fonts::dump_table(&mark_cov) else { return };
    let sub = wg::MarkBasePosFormat1::new(mark_cov, base_cov, mark_array, base_array);
    let lookup = wg::PositionLookup::MarkToBase(wl::Lookup::new(wl::LookupFlag::empty(), vec![sub]));
    let gpos = wg::Gpos::new(Default::default(), Default::default(), wl::LookupList::new(vec![lookup]));
    match catch(|| VGraph::from_table(&gpos).basic_sort()) {
        Ok(true) => {
            s.count("mb:fits-without-split");
            return;
        }
        Ok(false) => {}
        Err(_) => {
            s.oracle("mb:basic_sort-does-not-panic", false, || sc.name.clone(), || "panic".into());
            return;
        }
    }
    let mut g = VGraph::from_table(&gpos);
    let Some(lookup_id) = g.objects().iter().find(|o| o.type_name == "GPOS4MarkToBase").map(|o| o.id) else { return };
    let packed = catch(|| g.pack_objects());
    let ok = match packed {
        Err(msg) => {
            s.oracle("mb:split-does-not-panic", false, || sc.name.clone(), || msg.clone());
            return;
        }
        Ok(ok) => ok,
    };
    if !ok {
        s.count("mb:packing-failed-after-split");
    }
    let objs: BTreeMap<u64, ObjView> = g.objects().into_iter().map(|o| (o.id, o)).collect();
    let subs = subtables(&objs, lookup_id);
    if subs.len() <= 1 {
        s.count("mb:overflow-but-no-split-point");
        return;
    }
    s.count("mb:split-triggered");
    s.count(&format!("mb:split-into-{}", subs.len().min(6)));
    let mut parts = vec![];
    let mut points = vec![];
    let mut acc = 0usize;
    for st in &subs {
        let cov = link_at(st, 2).map(|id| render_cov_bytes(&objs[&id].bytes)).unwrap_or("?".into());
        let cc = u16_at(&st.bytes, 6) as usize;
        acc += cc;
        points.push(acc);
        let ma = &objs[&link_at(st, 8).unwrap()];
        let n = u16_at(&ma.bytes, 0) as usize;
        let mut marks: Vec<u32> = vec![];
        for i in 0..n {
            marks.push(u16_at(&ma.bytes, 2 + 4 * i) as u32);
            marks.push(link_at(ma, (4 + 4 * i) as u32).map(|id| anchor_id(&objs[&id].bytes)).unwrap_or(0));
        }
        let ba = &objs[&link_at(st, 10).unwrap()];
        let nb = u16_at(&ba.bytes, 0) as usize;
        let mut rows: Vec<String> = vec![];
        for b in 0..nb {
            let ids: Vec<u32> = (0..cc)
                .map(|c| link_at(ba, (2 + 2 * (b * cc + c)) as u32).map(|id| anchor_id(&objs[&id].bytes)).unwrap_or(0))
                .collect();
            rows.push(join(&ids));
        }
        parts.push(format!("{cov} ; {cc} ; {} ; {}", join(&marks), rows.join(" , ")));
    }
    let req = format!(
        "mb.split {} | {} | {} | {} | {}",
        render_cov_bytes(&mcov_b),
        sc.classes,
        join(&points),
        join(&mark_req),
        rows_req.join(" | ")
    );
    s.case("mb.split", req, parts.join(" | "));
}

pub fn gen_mb(rng: &mut Rng, s: &mut Session, thorough: bool) -> Mb {
    let classes = rng.range(2, 40) as usize;
    let target_cells = *rng.pick(&[7_000usize, 9_000, 12_000, 20_000, 30_000]);
    let target_cells = if thorough { target_cells } else { target_cells.min(20_000) };
    let nb = (target_cells / classes).clamp(2, 4000);
    let nm = rng.range(classes as i64, 3 * classes as i64 + 20) as usize;
    let (stm, bm) = (rng.below(4), rng.below(40_000) as u32);
    let mglyphs = glyph_run(rng, nm, stm, bm);
    let pattern = rng.below(3);
    s.count(&format!("mb:gen:pattern{pattern}"));
    let marks: Vec<(u16, u16)> = mglyphs
        .iter()
        .enumerate()
        .map(|(i, g)| {
            let c = match pattern {
                0 => (i * classes / mglyphs.len()).min(classes - 1),
                1 => i % classes,
                _ => {
                    if i < classes { i } else { rng.below(classes as u64) as usize }
                }
            };
            (*g, c as u16)
        })
        .collect();
    let (stb, bb) = (rng.below(4), rng.below(20_000) as u32);
    let bases = glyph_run(rng, nb, stb, bb);
    let fill = *rng.pick(&[100u64, 100, 90, 60]);
    let present: Vec<Vec<bool>> = bases.iter().map(|_| (0..classes).map(|_| rng.below(100) < fill).collect()).collect();
    Mb { name: format!("mb classes={classes} marks={} bases={} fill={fill} pattern={pattern}", marks.len(), bases.len()), classes: classes as u16, marks, bases, present }
}

pub fn run(cfg: &Config, s: &mut Session, rng: &mut Rng) {
    let t = cfg.thorough();
    for _ in 0..(if t { 300 } else { 40 }) {
        let sc = gen_pp2(rng, s, t);
        pp2_case(s, &sc);
    }
    for _ in 0..(if t { 200 } else { 24 }) {
        let sc = gen_mb(rng, s, t);
        mb_case(s, &sc);
    }
}

/// runs after everything else so that the random stream of the older groups is unchanged
pub fn run_devs(cfg: &Config, s: &mut Session, rng: &mut Rng) {
    let t = cfg.thorough();
    for _ in 0..(if t { 160 } else { 24 }) {
        let sc = gen_pp2_dev(rng, s, t);
        pp2_dev_case(s, &sc);
    }
}
