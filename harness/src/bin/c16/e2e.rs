//! end-to-end GPOS oracles (stub)
use fv_harness::common::*;
pub fn run(_cfg: &Config, _s: &mut Session, _rng: &mut Rng) {}
