//! End-to-end GPOS oracles for C16.
//!
//! Input rules are fed to the real builders (`PairPosBuilder`, `MarkToBaseBuilder`), the
//! resulting *unsplit* write-fonts subtables are put into a `Gpos`, compiled with
//! `dump_table` (graph packing: subtable splitting + extension promotion), read back with
//! read-fonts and evaluated by a reference lookup walker (first matching subtable wins).
//! The same walker runs over the unsplit write-fonts structs and, where the semantics are
//! unambiguous, the results are compared with the input rules themselves.
//!
//! Every scenario is a pure function of `(kind, permille, variant, rng-state)`; the tag
//! `e2e[kind:permille:variant:0xSTATE]` in a failure report can be replayed in isolation with
//! `C16_E2E_REPLAY=kind:permille:variant:0xSTATE`.  `C16_E2E_VERBOSE=1` prints per-scenario
//! sizes and timings to stderr (never influences behaviour).
#![allow(clippy::too_many_arguments, clippy::type_complexity)]

use fv_harness::common::*;
use font_types::GlyphId16;
use read_fonts::array::ComputedArray;
use read_fonts::collections::IntSet;
use read_fonts::tables::gpos as rg;
use read_fonts::tables::layout as rl;
use read_fonts::{FontData, FontRead, ReadError};
use std::collections::{BTreeMap, BTreeSet};
use write_fonts::tables::gpos as wg;
use write_fonts::tables::gpos::builders::{
    AnchorBuilder, MarkToBaseBuilder, PairPosBuilder, ValueRecordBuilder,
};
use write_fonts::tables::layout as wl;
use write_fonts::tables::layout::builders::{Builder, DeviceOrDeltas, LookupBuilder, Metric};
use write_fonts::tables::variations::ivs_builder::{RemapVariationIndices, VariationStoreBuilder};
use write_fonts::tables::variations::{RegionAxisCoordinates, VariationRegion};
use font_types::F2Dot14;
use read_fonts::tables::variations::{DeltaSetIndex, ItemVariationStore};

fn g16(v: u16) -> GlyphId16 {
    GlyphId16::new(v)
}

// ---------------------------------------------------------------------------------------
// canonical, comparable values
// ---------------------------------------------------------------------------------------

#[derive(Clone, Debug, PartialEq, Eq, Default)]
enum Dev {
    #[default]
    None,
    /// a Device table by its DECODED deltas (read side: read-fonts `Device::iter`; rule / write side: the
    /// deltas the generator passed to `Device::new`, see `new_device`)
    Device { start: u16, end: u16, deltas: Vec<i8> },
    VarIdx(u16, u16),
    /// a variation-index table resolved through the item variation store: the deltas at the three
    /// probe locations (axis0=+1), (axis0=-1), (axis1=+1)  (= the input deltas of regions R0, R1, R2)
    Deltas([i32; 3]),
    Bad(String),
}

impl Dev {
    fn show(&self) -> String {
        match self {
            Dev::None => "-".into(),
            Dev::Device { start, end, deltas } => {
                let w: Vec<String> = deltas.iter().map(|w| w.to_string()).collect();
                format!("D({start}-{end} [{}])", w.join(","))
            }
            Dev::VarIdx(o, i) => format!("V({o},{i})"),
            Dev::Deltas(d) => format!("Δ({},{},{})", d[0], d[1], d[2]),
            Dev::Bad(e) => format!("BAD({e})"),
        }
    }
}

/// value record: [x_placement, y_placement, x_advance, y_advance] (absent == 0) + the 4 devices
#[derive(Clone, Debug, PartialEq, Eq, Default)]
struct VR {
    v: [i16; 4],
    d: [Dev; 4],
}

impl VR {
    fn is_zero(&self) -> bool {
        self.v == [0; 4] && self.d.iter().all(|d| *d == Dev::None)
    }
    fn show(&self) -> String {
        let mut s = format!("{},{},{},{}", self.v[0], self.v[1], self.v[2], self.v[3]);
        if self.d.iter().any(|d| *d != Dev::None) {
            let d: Vec<String> = self.d.iter().map(|d| d.show()).collect();
            s.push_str(&format!(";{}", d.join(",")));
        }
        s
    }
}

type PV = (VR, VR);

fn show_pv(p: &Option<PV>) -> String {
    match p {
        None => "nothing".into(),
        Some((a, b)) => format!("[{} | {}]", a.show(), b.show()),
    }
}

#[derive(Clone, Debug, PartialEq, Eq)]
struct Anc {
    x: i16,
    y: i16,
    pt: Option<u16>,
    xd: Dev,
    yd: Dev,
}

impl Anc {
    fn show(&self) -> String {
        let mut s = format!("({},{}", self.x, self.y);
        if let Some(p) = self.pt {
            s.push_str(&format!(" pt{p}"));
        }
        if self.xd != Dev::None || self.yd != Dev::None {
            s.push_str(&format!(" {} {}", self.xd.show(), self.yd.show()));
        }
        s.push(')');
        s
    }
}

type MB = (Anc, Anc);

fn show_mb(p: &Option<MB>) -> String {
    match p {
        None => "nothing".into(),
        Some((m, b)) => format!("mark{} base{}", m.show(), b.show()),
    }
}

// ---- read-fonts side ----

fn dev_r(d: Option<Result<rl::DeviceOrVariationIndex<'_>, ReadError>>) -> Dev {
    match d {
        None => Dev::None,
        Some(Err(e)) => Dev::Bad(format!("{e:?}")),
        Some(Ok(rl::DeviceOrVariationIndex::Device(d))) => Dev::Device { start: d.start_size(), end: d.end_size(), deltas: d.iter().collect() },
        Some(Ok(rl::DeviceOrVariationIndex::VariationIndex(v))) => {
            Dev::VarIdx(v.delta_set_outer_index(), v.delta_set_inner_index())
        }
    }
}

fn vr_r(v: &rg::ValueRecord, data: FontData) -> VR {
    VR {
        v: [
            v.x_placement().unwrap_or(0),
            v.y_placement().unwrap_or(0),
            v.x_advance().unwrap_or(0),
            v.y_advance().unwrap_or(0),
        ],
        d: [
            dev_r(v.x_placement_device(data)),
            dev_r(v.y_placement_device(data)),
            dev_r(v.x_advance_device(data)),
            dev_r(v.y_advance_device(data)),
        ],
    }
}

fn anc_r(a: &rg::AnchorTable) -> Anc {
    let pt = match a {
        rg::AnchorTable::Format2(t) => Some(t.anchor_point()),
        _ => None,
    };
    Anc { x: a.x_coordinate(), y: a.y_coordinate(), pt, xd: dev_r(a.x_device()), yd: dev_r(a.y_device()) }
}

// ---- write-fonts (unsplit) side ----

thread_local! {
    /// (start, end, format, words) of every Device the generators made → the deltas they asked for
    /// (`None`: two different delta lists got the same encoding — only possible if the writer is wrong)
    static INTENDED: std::cell::RefCell<BTreeMap<(u16, u16, u16, Vec<u16>), Option<Vec<i8>>>> = const { std::cell::RefCell::new(BTreeMap::new()) };
}

/// `Device::new` for the generators: remembers which deltas the table is SUPPOSED to hold
fn new_device(start: u16, vals: &[i8]) -> wl::Device {
    let d = wl::Device::new(start, start + vals.len() as u16 - 1, vals);
    let key = (d.start_size, d.end_size, d.delta_format as u16, d.delta_value.clone());
    INTENDED.with(|m| {
        let mut m = m.borrow_mut();
        match m.get(&key) {
            Some(Some(old)) if old.as_slice() != vals => {
                m.insert(key, None);
            }
            Some(_) => {}
            None => {
                m.insert(key, Some(vals.to_vec()));
            }
        }
    });
    d
}

/// the rule-side / write-side meaning of a Device table: the deltas it was built from
fn device_w(d: &wl::Device) -> Dev {
    let key = (d.start_size, d.end_size, d.delta_format as u16, d.delta_value.clone());
    match INTENDED.with(|m| m.borrow().get(&key).cloned()) {
        Some(Some(deltas)) => Dev::Device { start: d.start_size, end: d.end_size, deltas },
        Some(None) => Dev::Bad("two different delta lists were written with the same encoding".into()),
        None => Dev::Bad("device table not made by new_device".into()),
    }
}

const SMALL: [i8; 4] = [-2, -1, 0, 1];
/// deltas at the format boundaries, hit from both sides: class 0 = 2-bit only, 1 = just above 2-bit
/// (2 / -3), 2 = top of 4-bit (-8 / 7), 3 = just above 4-bit (8 / -9, everything else within
/// -8..=7), 4 = i8 extremes, 5 = anything; `first` picks which of the two boundary values leads,
/// `pick(k)` selects entry `k` from the class' pool
fn boundary_deltas(class: u64, n: usize, first: u64, mut pick: impl FnMut(usize, usize) -> usize) -> Vec<i8> {
    let (lead, pool): (&[i8], &[i8]) = match class {
        0 => (&SMALL, &SMALL),
        1 => (&[2, -3], &[-2, -1, 0, 1, 2, -3]),
        2 => (&[-8, 7], &[-8, 7, -2, 1, 0, 3]),
        3 => (&[8, -9], &[-8, 7, 0, 1, -2, 5]),
        4 => (&[-128, 127], &[-128, 127, 8, -9, 0, 1]),
        _ => (&[0, 8, -9, 2], &[-2, -1, 0, 1, 2, -3, -8, 7, 8, -9, -128, 127]),
    };
    (0..n).map(|k| if k == 0 { lead[(first as usize) % lead.len()] } else { pool[pick(k, pool.len())] }).collect()
}

fn dev_w(d: Option<&wl::DeviceOrVariationIndex>) -> Dev {
    match d {
        None => Dev::None,
        Some(wl::DeviceOrVariationIndex::Device(d)) => device_w(d),
        Some(wl::DeviceOrVariationIndex::VariationIndex(v)) => {
            Dev::VarIdx(v.delta_set_outer_index, v.delta_set_inner_index)
        }
        Some(wl::DeviceOrVariationIndex::PendingVariationIndex(_)) => Dev::Bad("pending".into()),
    }
}

/// what the write-fonts record serialises to (fields outside the record's format are dropped)
fn vr_w(v: &wg::ValueRecord) -> VR {
    use wg::ValueFormat as F;
    let f = v.format();
    let val = |x: Option<i16>, flag: F| if f.contains(flag) { x.unwrap_or(0) } else { 0 };
    let dev = |x: Option<&wl::DeviceOrVariationIndex>, flag: F| if f.contains(flag) { dev_w(x) } else { Dev::None };
    VR {
        v: [
            val(v.x_placement, F::X_PLACEMENT),
            val(v.y_placement, F::Y_PLACEMENT),
            val(v.x_advance, F::X_ADVANCE),
            val(v.y_advance, F::Y_ADVANCE),
        ],
        d: [
            dev(v.x_placement_device.as_ref(), F::X_PLACEMENT_DEVICE),
            dev(v.y_placement_device.as_ref(), F::Y_PLACEMENT_DEVICE),
            dev(v.x_advance_device.as_ref(), F::X_ADVANCE_DEVICE),
            dev(v.y_advance_device.as_ref(), F::Y_ADVANCE_DEVICE),
        ],
    }
}

fn anc_w(a: &wg::AnchorTable) -> Anc {
    match a {
        wg::AnchorTable::Format1(t) => Anc { x: t.x_coordinate, y: t.y_coordinate, pt: None, xd: Dev::None, yd: Dev::None },
        wg::AnchorTable::Format2(t) => {
            Anc { x: t.x_coordinate, y: t.y_coordinate, pt: Some(t.anchor_point), xd: Dev::None, yd: Dev::None }
        }
        wg::AnchorTable::Format3(t) => Anc {
            x: t.x_coordinate,
            y: t.y_coordinate,
            pt: None,
            xd: dev_w(t.x_device.as_ref()),
            yd: dev_w(t.y_device.as_ref()),
        },
    }
}

// ---- builder (input rule) side ----

fn dev_b(d: &DeviceOrDeltas) -> Dev {
    match d {
        DeviceOrDeltas::None => Dev::None,
        DeviceOrDeltas::Device(d) => device_w(d),
        DeviceOrDeltas::Deltas(v) => {
            // the three regions are single-axis tents peaking at the three probe locations
            let mut out = [0i32; 3];
            for (r, d) in v {
                match (0..3).find(|k| region(*k) == *r) {
                    Some(k) => out[k] += *d as i32,
                    None => return Dev::Bad("unknown region".into()),
                }
            }
            Dev::Deltas(out)
        }
    }
}

fn f2(v: f32) -> F2Dot14 {
    F2Dot14::from_f32(v)
}

/// R0: axis 0 in (0, 1, 1];  R1: axis 0 in [-1, -1, 0);  R2: axis 1 in (0, 1, 1]
fn region(k: usize) -> VariationRegion {
    let ax = |s: f32, p: f32, e: f32| RegionAxisCoordinates::new(f2(s), f2(p), f2(e));
    let idle = || ax(0.0, 0.0, 0.0);
    VariationRegion::new(match k {
        0 => vec![ax(0.0, 1.0, 1.0), idle()],
        1 => vec![ax(-1.0, -1.0, 0.0), idle()],
        _ => vec![idle(), ax(0.0, 1.0, 1.0)],
    })
}

/// the compiled item variation store (the variation-index tables of a GPOS point into it)
struct IvsCtx {
    bytes: Option<Vec<u8>>,
}

impl IvsCtx {
    /// variation index → the deltas it selects at the three probe locations
    fn resolve(&self, d: &Dev) -> Dev {
        let Dev::VarIdx(o, i) = d else { return d.clone() };
        let Some(bytes) = &self.bytes else { return Dev::Bad(format!("V({o},{i}) without a variation store")) };
        let ivs = match ItemVariationStore::read(FontData::new(bytes)) {
            Ok(x) => x,
            Err(e) => return Dev::Bad(format!("ivs {e:?}")),
        };
        let probes: [[F2Dot14; 2]; 3] = [[f2(1.0), f2(0.0)], [f2(-1.0), f2(0.0)], [f2(0.0), f2(1.0)]];
        let mut out = [0i32; 3];
        for (k, c) in probes.iter().enumerate() {
            match ivs.compute_delta(DeltaSetIndex { outer: *o, inner: *i }, c) {
                Ok(v) => out[k] = v,
                Err(e) => return Dev::Bad(format!("ivs delta {e:?}")),
            }
        }
        Dev::Deltas(out)
    }
    fn vr(&self, v: &VR) -> VR {
        VR { v: v.v, d: [self.resolve(&v.d[0]), self.resolve(&v.d[1]), self.resolve(&v.d[2]), self.resolve(&v.d[3])] }
    }
    fn pv(&self, p: &Option<PV>) -> Option<PV> {
        p.as_ref().map(|(a, b)| (self.vr(a), self.vr(b)))
    }
    fn anc(&self, a: &Anc) -> Anc {
        Anc { x: a.x, y: a.y, pt: a.pt, xd: self.resolve(&a.xd), yd: self.resolve(&a.yd) }
    }
    fn mb(&self, p: &Option<MB>) -> Option<MB> {
        p.as_ref().map(|(a, b)| (self.anc(a), self.anc(b)))
    }
}

// ---- distinct device tables / delta sets by id ----

/// a Device table whose contents are an injective function of `id` (< 2^24); three delta formats
fn device_of(id: u32) -> wl::Device {
    // 1..=17 entries (word boundaries of all three packings), boundary class and entries from `id`
    let n = 1 + (id % 17) as usize;
    let class = (id / 17) % 6;
    let rest = (id / 102) as u64;
    let mut digits = rest / 2;
    let vals = boundary_deltas(class as u64, n, rest, |_, m| {
        let d = (digits % m as u64) as usize;
        digits /= m as u64;
        d
    });
    new_device(8 + (digits % 200) as u16, &vals)
}

/// a delta set that is an injective function of `id`; R0 always present (never all zero)
fn deltas_of(id: u32) -> Vec<(VariationRegion, i16)> {
    let (sub, k) = (id % 4, id / 4);
    let lo = (k % 30000) as i16 + 1;
    let hi = (k / 30000) as i16;
    let t: [i16; 3] = match sub {
        0 if hi == 0 => [lo, 0, 0],
        0 => [lo, -hi, -hi],
        1 => [lo, 100 + hi, 0],
        2 => [lo, 0, 100 + hi],
        _ => [lo, 200 + hi, 300 + hi],
    };
    (0..3).filter(|k| t[*k] != 0).map(|k| (region(k), t[k])).collect()
}

/// the `id`-th distinct device-or-deltas: even ids are Device tables, odd ids delta sets
fn dod_of(id: u32) -> DeviceOrDeltas {
    if id % 2 == 0 {
        DeviceOrDeltas::Device(device_of(id / 2))
    } else {
        DeviceOrDeltas::Deltas(deltas_of(id / 2))
    }
}

/// a value record with scalar fields `smask` and device fields `dmask` (bit 0 x_placement,
/// 1 y_placement, 2 x_advance, 3 y_advance); every device field takes the next unused id
fn mk_full(v: i16, smask: u8, dmask: u8, next_id: &mut u32) -> ValueRecordBuilder {
    let mut b = ValueRecordBuilder::new();
    if smask & 1 != 0 {
        b = b.with_x_placement(v);
    }
    if smask & 2 != 0 {
        b = b.with_y_placement(v.wrapping_add(1));
    }
    if smask & 4 != 0 {
        b = b.with_x_advance(v.wrapping_add(2));
    }
    if smask & 8 != 0 {
        b = b.with_y_advance(v.wrapping_add(3));
    }
    for k in 0..4 {
        if dmask >> k & 1 == 1 {
            let d = dod_of(*next_id);
            *next_id += 1;
            b = match k {
                0 => b.with_x_placement_device(d),
                1 => b.with_y_placement_device(d),
                2 => b.with_x_advance_device(d),
                _ => b.with_y_advance_device(d),
            };
        }
    }
    b
}

fn metric_b(m: &Option<Metric>) -> (i16, Dev) {
    match m {
        None => (0, Dev::None),
        Some(m) => (m.default, dev_b(&m.device_or_deltas)),
    }
}

fn vr_b(v: &ValueRecordBuilder) -> VR {
    let (xp, xpd) = metric_b(&v.x_placement);
    let (yp, ypd) = metric_b(&v.y_placement);
    let (xa, xad) = metric_b(&v.x_advance);
    let (ya, yad) = metric_b(&v.y_advance);
    VR { v: [xp, yp, xa, ya], d: [xpd, ypd, xad, yad] }
}

/// documented: the contour point is ignored when a device is present
fn anc_b(a: &AnchorBuilder) -> Anc {
    let xd = dev_b(&a.x.device_or_deltas);
    let yd = dev_b(&a.y.device_or_deltas);
    let pt = if xd == Dev::None && yd == Dev::None { a.contourpoint } else { None };
    Anc { x: a.x.default, y: a.y.default, pt, xd, yd }
}

// ---------------------------------------------------------------------------------------
// the compiled table (read-fonts)
// ---------------------------------------------------------------------------------------

enum CSub<'a> {
    P1 { t: rg::PairPosFormat1<'a>, cov: rl::CoverageTable<'a> },
    P2 { t: rg::PairPosFormat2<'a>, cov: rl::CoverageTable<'a>, cd1: rl::ClassDef<'a>, cd2: rl::ClassDef<'a> },
    MB {
        t: rg::MarkBasePosFormat1<'a>,
        mcov: rl::CoverageTable<'a>,
        bcov: rl::CoverageTable<'a>,
        marks: rg::MarkArray<'a>,
        bases: rg::BaseArray<'a>,
    },
}

struct CLookup<'a> {
    raw_type: u16,
    eff_type: u16,
    subs: Vec<CSub<'a>>,
}

fn er<T>(r: Result<T, ReadError>, what: impl FnOnce() -> String) -> Result<T, String> {
    r.map_err(|e| format!("{}: {e:?}", what()))
}

fn csub_pair<'a>(p: rg::PairPos<'a>, w: &str) -> Result<CSub<'a>, String> {
    match p {
        rg::PairPos::Format1(t) => {
            let cov = er(t.coverage(), || format!("{w} coverage"))?;
            Ok(CSub::P1 { t, cov })
        }
        rg::PairPos::Format2(t) => {
            let cov = er(t.coverage(), || format!("{w} coverage"))?;
            let cd1 = er(t.class_def1(), || format!("{w} class_def1"))?;
            let cd2 = er(t.class_def2(), || format!("{w} class_def2"))?;
            Ok(CSub::P2 { t, cov, cd1, cd2 })
        }
    }
}

fn csub_mb<'a>(t: rg::MarkBasePosFormat1<'a>, w: &str) -> Result<CSub<'a>, String> {
    let mcov = er(t.mark_coverage(), || format!("{w} mark_coverage"))?;
    let bcov = er(t.base_coverage(), || format!("{w} base_coverage"))?;
    let marks = er(t.mark_array(), || format!("{w} mark_array"))?;
    let bases = er(t.base_array(), || format!("{w} base_array"))?;
    Ok(CSub::MB { t, mcov, bcov, marks, bases })
}

/// Gpos → lookup list → lookups → ordered subtables (plain and extension-wrapped).
fn read_compiled(bytes: &[u8]) -> Result<Vec<CLookup<'_>>, String> {
    let gpos = er(rg::Gpos::read(FontData::new(bytes)), || "Gpos".into())?;
    let ll = er(gpos.lookup_list(), || "lookup_list".into())?;
    let mut out = vec![];
    for (li, l) in ll.lookups().iter().enumerate() {
        let l = er(l, || format!("lookup {li}"))?;
        let raw_type = l.lookup_type();
        let mut eff_type = raw_type;
        let mut subs = vec![];
        match l {
            rg::PositionLookup::Pair(l) => {
                for (si, st) in l.subtables().iter().enumerate() {
                    let w = format!("lookup {li} subtable {si}");
                    subs.push(csub_pair(er(st, || w.clone())?, &w)?);
                }
            }
            rg::PositionLookup::MarkToBase(l) => {
                for (si, st) in l.subtables().iter().enumerate() {
                    let w = format!("lookup {li} subtable {si}");
                    subs.push(csub_mb(er(st, || w.clone())?, &w)?);
                }
            }
            rg::PositionLookup::Extension(l) => {
                eff_type = 0;
                for (si, st) in l.subtables().iter().enumerate() {
                    let w = format!("lookup {li} ext-subtable {si}");
                    let (ty, sub) = match er(st, || w.clone())? {
                        rg::ExtensionSubtable::Pair(x) => (2, csub_pair(er(x.extension(), || w.clone())?, &w)?),
                        rg::ExtensionSubtable::MarkToBase(x) => (4, csub_mb(er(x.extension(), || w.clone())?, &w)?),
                        _ => return Err(format!("{w}: unexpected extension lookup type")),
                    };
                    if eff_type != 0 && eff_type != ty {
                        return Err(format!("{w}: extension type {ty} differs from {eff_type}"));
                    }
                    eff_type = ty;
                    subs.push(sub);
                }
            }
            _ => return Err(format!("lookup {li}: unexpected lookup type {raw_type}")),
        }
        out.push(CLookup { raw_type, eff_type, subs });
    }
    Ok(out)
}

/// Resolve everything reachable from one compiled subtable; check array/coverage consistency.
fn structure_check(sub: &CSub) -> Result<(), String> {
    match sub {
        CSub::P1 { t, cov } => {
            let n = cov.iter().count();
            if n != t.pair_set_count() as usize {
                return Err(format!("PairPos1: coverage has {n} glyphs, pair_set_count {}", t.pair_set_count()));
            }
            for (i, ps) in t.pair_sets().iter().enumerate() {
                let ps = er(ps, || format!("PairPos1 pair set {i}"))?;
                let k = ps.pair_value_count() as usize;
                if k > 0 {
                    er(ps.pair_value_records().get(k - 1), || format!("PairPos1 pair set {i} last record"))?;
                }
            }
            Ok(())
        }
        CSub::P2 { t, .. } => {
            let k1 = t.class1_count() as usize;
            if k1 > 0 {
                let r = er(t.class1_records().get(k1 - 1), || "PairPos2 last class1 record".into())?;
                let k2 = t.class2_count() as usize;
                if k2 > 0 {
                    er(r.class2_records().get(k2 - 1), || "PairPos2 last class2 record".into())?;
                }
            }
            Ok(())
        }
        CSub::MB { t, mcov, bcov, marks, bases } => {
            let nm = mcov.iter().count();
            if nm != marks.mark_count() as usize {
                return Err(format!("MarkBase: mark coverage {nm} glyphs, mark_count {}", marks.mark_count()));
            }
            let nb = bcov.iter().count();
            if nb != bases.base_count() as usize {
                return Err(format!("MarkBase: base coverage {nb} glyphs, base_count {}", bases.base_count()));
            }
            for (i, m) in marks.mark_records().iter().enumerate() {
                if m.mark_class() >= t.mark_class_count() {
                    return Err(format!("MarkBase: mark record {i} class {} >= {}", m.mark_class(), t.mark_class_count()));
                }
                er(m.mark_anchor(marks.offset_data()), || format!("MarkBase mark anchor {i}"))?;
            }
            for (i, b) in bases.base_records().iter().enumerate() {
                let b = er(b, || format!("MarkBase base record {i}"))?;
                for (k, a) in b.base_anchors(bases.offset_data()).iter().enumerate() {
                    if let Some(a) = a {
                        er(a, || format!("MarkBase base {i} class {k} anchor"))?;
                    }
                }
            }
            Ok(())
        }
    }
}

// ---------------------------------------------------------------------------------------
// reference walkers: compiled side
// ---------------------------------------------------------------------------------------

/// binary search by second glyph (the consumer's algorithm; records are sorted by contract)
fn find_pvr_r(recs: &ComputedArray<rg::PairValueRecord>, n: usize, g2: u16) -> Result<Option<rg::PairValueRecord>, String> {
    let (mut lo, mut hi) = (0usize, n);
    while lo < hi {
        let mid = (lo + hi) / 2;
        let r = er(recs.get(mid), || format!("pair value record {mid}"))?;
        let g = r.second_glyph().to_u16();
        if g == g2 {
            return Ok(Some(r));
        } else if g < g2 {
            lo = mid + 1;
        } else {
            hi = mid;
        }
    }
    Ok(None)
}

/// first matching subtable wins; returns (matching subtable index, values)
fn walk_pair_c(subs: &[CSub], g1: u16, g2: u16) -> Result<Option<(usize, PV)>, String> {
    for (si, sub) in subs.iter().enumerate() {
        match sub {
            CSub::P1 { t, cov } => {
                let Some(idx) = cov.get(g16(g1)) else { continue };
                let ps = er(t.pair_sets().get(idx as usize), || format!("subtable {si}: pair set {idx} for glyph {g1}"))?;
                let recs = ps.pair_value_records();
                if let Some(r) = find_pvr_r(&recs, ps.pair_value_count() as usize, g2)? {
                    let d = ps.offset_data();
                    return Ok(Some((si, (vr_r(r.value_record1(), d), vr_r(r.value_record2(), d)))));
                }
            }
            CSub::P2 { t, cov, cd1, cd2 } => {
                if cov.get(g16(g1)).is_none() {
                    continue;
                }
                let c1 = cd1.get(g16(g1));
                let c2 = cd2.get(g16(g2));
                if c1 >= t.class1_count() || c2 >= t.class2_count() {
                    continue;
                }
                let r1 = er(t.class1_records().get(c1 as usize), || format!("subtable {si}: class1 record {c1}"))?;
                let r2 = er(r1.class2_records().get(c2 as usize), || format!("subtable {si}: class2 record {c1}/{c2}"))?;
                let d = t.offset_data();
                return Ok(Some((si, (vr_r(r2.value_record1(), d), vr_r(r2.value_record2(), d)))));
            }
            CSub::MB { .. } => return Err(format!("subtable {si}: MarkBasePos in a pair lookup")),
        }
    }
    Ok(None)
}

fn walk_mb_c(subs: &[CSub], mark: u16, base: u16) -> Result<Option<(usize, MB)>, String> {
    for (si, sub) in subs.iter().enumerate() {
        let CSub::MB { t, mcov, bcov, marks, bases } = sub else {
            return Err(format!("subtable {si}: PairPos in a mark-to-base lookup"));
        };
        let Some(mi) = mcov.get(g16(mark)) else { continue };
        let Some(bi) = bcov.get(g16(base)) else { continue };
        let Some(mrec) = marks.mark_records().get(mi as usize) else {
            return Err(format!("subtable {si}: mark index {mi} beyond mark array"));
        };
        let class = mrec.mark_class();
        if class >= t.mark_class_count() {
            continue;
        }
        let brec = er(bases.base_records().get(bi as usize), || format!("subtable {si}: base record {bi}"))?;
        match brec.base_anchors(bases.offset_data()).get(class as usize) {
            None => continue,
            Some(a) => {
                let ba = er(a, || format!("subtable {si}: base {bi} class {class} anchor"))?;
                let ma = er(mrec.mark_anchor(marks.offset_data()), || format!("subtable {si}: mark {mi} anchor"))?;
                return Ok(Some((si, (anc_r(&ma), anc_r(&ba)))));
            }
        }
    }
    Ok(None)
}

// ---------------------------------------------------------------------------------------
// reference walkers: unsplit write-fonts structs
// ---------------------------------------------------------------------------------------

enum USub<'a> {
    P1 { t: &'a wg::PairPosFormat1, cov: BTreeMap<u16, usize> },
    P2 { t: &'a wg::PairPosFormat2, cov: BTreeMap<u16, usize> },
    MB { t: &'a wg::MarkBasePosFormat1, mcov: BTreeMap<u16, usize>, bcov: BTreeMap<u16, usize> },
}

/// glyph → coverage index (position in the coverage's own iteration order; first wins)
fn cov_index(c: &wl::CoverageTable) -> BTreeMap<u16, usize> {
    let mut m = BTreeMap::new();
    for (i, g) in c.iter().enumerate() {
        m.entry(g.to_u16()).or_insert(i);
    }
    m
}

fn usub_pair(p: &wg::PairPos) -> USub<'_> {
    match p {
        wg::PairPos::Format1(t) => USub::P1 { t, cov: cov_index(&t.coverage) },
        wg::PairPos::Format2(t) => USub::P2 { t, cov: cov_index(&t.coverage) },
    }
}

fn walk_pair_u(subs: &[USub], g1: u16, g2: u16) -> Result<Option<(usize, PV)>, String> {
    for (si, sub) in subs.iter().enumerate() {
        match sub {
            USub::P1 { t, cov } => {
                let Some(&idx) = cov.get(&g1) else { continue };
                let Some(ps) = t.pair_sets.get(idx) else {
                    return Err(format!("unsplit subtable {si}: pair set {idx} missing"));
                };
                let recs = &ps.pair_value_records;
                if let Ok(k) = recs.binary_search_by_key(&g2, |r| r.second_glyph.to_u16()) {
                    return Ok(Some((si, (vr_w(&recs[k].value_record1), vr_w(&recs[k].value_record2)))));
                }
            }
            USub::P2 { t, cov } => {
                if !cov.contains_key(&g1) {
                    continue;
                }
                let c1 = t.class_def1.get(g16(g1)) as usize;
                let c2 = t.class_def2.get(g16(g2)) as usize;
                let n1 = t.class1_records.len();
                let n2 = t.class1_records.first().map(|r| r.class2_records.len()).unwrap_or(0);
                if c1 >= n1 || c2 >= n2 {
                    continue;
                }
                let Some(r) = t.class1_records[c1].class2_records.get(c2) else {
                    return Err(format!("unsplit subtable {si}: ragged class2 records"));
                };
                return Ok(Some((si, (vr_w(&r.value_record1), vr_w(&r.value_record2)))));
            }
            USub::MB { .. } => return Err("MarkBasePos in a pair lookup".into()),
        }
    }
    Ok(None)
}

fn walk_mb_u(subs: &[USub], mark: u16, base: u16) -> Result<Option<(usize, MB)>, String> {
    for (si, sub) in subs.iter().enumerate() {
        let USub::MB { t, mcov, bcov } = sub else { return Err("PairPos in a mark lookup".into()) };
        let Some(&mi) = mcov.get(&mark) else { continue };
        let Some(&bi) = bcov.get(&base) else { continue };
        let Some(mrec) = t.mark_array.mark_records.get(mi) else {
            return Err(format!("unsplit subtable {si}: mark record {mi} missing"));
        };
        let Some(brec) = t.base_array.base_records.get(bi) else {
            return Err(format!("unsplit subtable {si}: base record {bi} missing"));
        };
        let Some(a) = brec.base_anchors.get(mrec.mark_class as usize).and_then(|a| a.as_ref()) else { continue };
        return Ok(Some((si, (anc_w(&mrec.mark_anchor), anc_w(a)))));
    }
    Ok(None)
}

// ---------------------------------------------------------------------------------------
// input rules + the models derived from them
// ---------------------------------------------------------------------------------------

struct PairSpec {
    desc: String,
    builders: Vec<PairPosBuilder>,
    /// glyph-pair rules; the FIRST insert of a pair wins
    glyph: BTreeMap<(u16, u16), PV>,
    c1_sets: Vec<Vec<u16>>,
    c2_sets: Vec<Vec<u16>>,
    c1_int: Vec<IntSet<GlyphId16>>,
    c2_int: Vec<IntSet<GlyphId16>>,
    /// glyph → class set index, only for sets that appear in at least one rule
    c1_of: BTreeMap<u16, usize>,
    c2_of: BTreeMap<u16, usize>,
    /// class-pair rules; the LAST insert of a cell wins
    cells: BTreeMap<(usize, usize), PV>,
    /// semantics are unambiguous from the rules alone → "compiled=input-rules" applies
    exact: bool,
}

impl PairSpec {
    fn new() -> Self {
        PairSpec {
            desc: String::new(),
            builders: vec![PairPosBuilder::default()],
            glyph: BTreeMap::new(),
            c1_sets: vec![],
            c2_sets: vec![],
            c1_int: vec![],
            c2_int: vec![],
            c1_of: BTreeMap::new(),
            c2_of: BTreeMap::new(),
            cells: BTreeMap::new(),
            exact: true,
        }
    }
    fn pair(&mut self, g1: u16, v1: ValueRecordBuilder, g2: u16, v2: ValueRecordBuilder) {
        self.glyph.entry((g1, g2)).or_insert_with(|| (vr_b(&v1), vr_b(&v2)));
        self.builders.last_mut().unwrap().insert_pair(g16(g1), v1, g16(g2), v2);
    }
    fn add_class1(&mut self, mut gl: Vec<u16>) -> usize {
        gl.sort();
        gl.dedup();
        self.c1_int.push(gl.iter().map(|g| g16(*g)).collect());
        self.c1_sets.push(gl);
        self.c1_sets.len() - 1
    }
    fn add_class2(&mut self, mut gl: Vec<u16>) -> usize {
        gl.sort();
        gl.dedup();
        self.c2_int.push(gl.iter().map(|g| g16(*g)).collect());
        self.c2_sets.push(gl);
        self.c2_sets.len() - 1
    }
    fn classes(&mut self, a: usize, v1: ValueRecordBuilder, b: usize, v2: ValueRecordBuilder) {
        for g in &self.c1_sets[a] {
            self.c1_of.insert(*g, a);
        }
        for g in &self.c2_sets[b] {
            self.c2_of.insert(*g, b);
        }
        self.cells.insert((a, b), (vr_b(&v1), vr_b(&v2)));
        let (s1, s2) = (self.c1_int[a].clone(), self.c2_int[b].clone());
        self.builders.last_mut().unwrap().insert_classes(s1, v1, s2, v2);
    }
    /// first-match semantics straight from the rules (valid when `exact`)
    fn expected(&self, g1: u16, g2: u16) -> Option<PV> {
        if let Some(v) = self.glyph.get(&(g1, g2)) {
            return Some(v.clone());
        }
        let a = self.c1_of.get(&g1)?;
        Some(self.c2_of.get(&g2).and_then(|b| self.cells.get(&(*a, *b))).cloned().unwrap_or_default())
    }
}

struct MarkSpec {
    desc: String,
    builder: MarkToBaseBuilder,
    /// mark glyph → (class, anchor); the last insert wins
    marks: BTreeMap<u16, (usize, Anc)>,
    /// base glyph → class → anchor; the last insert of (base, class) wins
    bases: BTreeMap<u16, BTreeMap<usize, Anc>>,
    n_classes: usize,
}

impl MarkSpec {
    fn new() -> Self {
        MarkSpec { desc: String::new(), builder: Default::default(), marks: BTreeMap::new(), bases: BTreeMap::new(), n_classes: 0 }
    }
    fn mark(&mut self, g: u16, k: usize, a: AnchorBuilder) {
        self.n_classes = self.n_classes.max(k + 1);
        self.marks.insert(g, (k, anc_b(&a)));
        let _ = self.builder.insert_mark(g16(g), &format!("c{k}"), a);
    }
    fn base(&mut self, g: u16, k: usize, a: AnchorBuilder) {
        self.bases.entry(g).or_default().insert(k, anc_b(&a));
        self.builder.insert_base(g16(g), &format!("c{k}"), a);
    }
    fn expected(&self, mark: u16, base: u16) -> Option<MB> {
        let (k, ma) = self.marks.get(&mark)?;
        let ba = self.bases.get(&base)?.get(k)?;
        Some((ma.clone(), ba.clone()))
    }
}

enum Spec {
    Pair(PairSpec),
    Mark(MarkSpec),
}

impl Spec {
    fn desc(&self) -> &str {
        match self {
            Spec::Pair(p) => &p.desc,
            Spec::Mark(m) => &m.desc,
        }
    }
}

// ---------------------------------------------------------------------------------------
// generator helpers
// ---------------------------------------------------------------------------------------

/// `n` distinct ascending glyph ids: contiguous or sparse, near 0 / near 0xFFFF / anywhere.
fn glyph_run(rng: &mut Rng, n: usize) -> (Vec<u16>, &'static str) {
    let mode = rng.below(6);
    glyph_run_m(rng, n, mode)
}

/// mode: 0 contig-low, 1 contig-high, 2 sparse-low, 3 sparse-high, 4 spread, 5 contig-mid
fn glyph_run_m(rng: &mut Rng, n: usize, mode: u64) -> (Vec<u16>, &'static str) {
    assert!((1..=60000).contains(&n));
    let sparse = matches!(mode, 2 | 3 | 4) && n * 5 < 60000;
    let mut offs: Vec<u32> = Vec::with_capacity(n);
    let mut cur = 0u32;
    for i in 0..n {
        if i > 0 {
            cur += if !sparse || rng.chance(1, 3) { 1 } else { 2 + rng.below(4) as u32 };
        }
        offs.push(cur);
    }
    if mode == 4 && sparse {
        let k = 65000 / (cur + 1);
        if k >= 2 {
            for o in offs.iter_mut() {
                *o *= k;
            }
            cur *= k;
        }
    }
    let room = 0xFFFF - cur;
    let (start, label) = match (mode, sparse) {
        (0, _) => (rng.below(room.min(40) as u64 + 1) as u32, "contig-low"),
        (1, _) => (room - rng.below(room.min(3) as u64 + 1) as u32, "contig-high"),
        (2, true) => (rng.below(room.min(40) as u64 + 1) as u32, "sparse-low"),
        (3, true) => (room - rng.below(room.min(3) as u64 + 1) as u32, "sparse-high"),
        (4, true) => (rng.below(room as u64 + 1) as u32, "spread"),
        _ => (rng.below(room as u64 + 1) as u32, "contig-mid"),
    };
    (offs.iter().map(|o| (start + o) as u16).collect(), label)
}

#[derive(Clone, Copy, Debug, PartialEq, Eq)]
enum VS {
    Empty,
    XAdv,
    XAdvXPla,
    All4,
    XAdvDev,
    YPla,
}

fn vs_size(v: VS) -> usize {
    match v {
        VS::Empty => 0,
        VS::XAdv | VS::YPla => 2,
        VS::XAdvXPla | VS::XAdvDev => 4,
        VS::All4 => 8,
    }
}

fn mk_dev(rng: &mut Rng) -> wl::Device {
    let start = rng.range(6, 14) as u16;
    let n = rng.range(1, 17) as usize;
    let (class, first) = (rng.below(6), rng.below(4));
    let vals = boundary_deltas(class, n, first, |_, m| rng.below(m as u64) as usize);
    new_device(start, &vals)
}

fn mk_vrb(style: VS, v: i16, dev: Option<&wl::Device>) -> ValueRecordBuilder {
    let b = ValueRecordBuilder::new();
    match style {
        VS::Empty => b,
        VS::XAdv => b.with_x_advance(v),
        VS::YPla => b.with_y_placement(v),
        VS::XAdvXPla => b.with_x_advance(v).with_x_placement(v.wrapping_add(1)),
        VS::All4 => b
            .with_x_placement(v)
            .with_y_placement(v.wrapping_add(1))
            .with_x_advance(v.wrapping_add(2))
            .with_y_advance(v.wrapping_add(3)),
        VS::XAdvDev => {
            let b = b.with_x_advance(v);
            match dev {
                Some(d) => b.with_x_advance_device(d.clone()),
                None => b,
            }
        }
    }
}

/// a value that differs between any two rows i (for the same j) → pair sets never dedupe
fn val(i: usize, j: usize, salt: u64) -> i16 {
    (((i as i64) * 257 + (j as i64) * 31 + (salt % 60001) as i64).rem_euclid(60001) - 30000) as i16
}

const STYLE_PAIRS: [(VS, VS); 8] = [
    (VS::XAdv, VS::Empty),
    (VS::XAdv, VS::Empty),
    (VS::XAdvXPla, VS::Empty),
    (VS::All4, VS::Empty),
    (VS::XAdv, VS::XAdv),
    (VS::XAdvXPla, VS::XAdv),
    (VS::YPla, VS::Empty),
    (VS::All4, VS::XAdvXPla),
];

// ---------------------------------------------------------------------------------------
// scenario generators
// ---------------------------------------------------------------------------------------

/// a. tiny / small PairPos: 1–50 pairs, mixed value formats, devices, duplicates, few classes
fn gen_tiny_pair(rng: &mut Rng, variant: u64) -> PairSpec {
    let mut p = PairSpec::new();
    let npool = rng.range(2, 40) as usize;
    let mut pool: Vec<u16> =
        if rng.chance(1, 2) { glyph_run(rng, npool).0 } else { (0..npool).map(|_| rng.next() as u16).collect() };
    if rng.chance(1, 4) {
        pool.push(0);
    }
    if rng.chance(1, 4) {
        pool.push(0xFFFF);
    }
    let devs: Vec<wl::Device> = (0..3).map(|_| mk_dev(rng)).collect();
    let all = [VS::Empty, VS::XAdv, VS::XAdvXPla, VS::All4, VS::XAdvDev, VS::YPla];
    let npal = 1 + rng.below(3) as usize;
    let palette: Vec<(VS, VS)> = (0..npal)
        .map(|_| (*rng.pick(&all), if rng.chance(2, 3) { VS::Empty } else { *rng.pick(&all) }))
        .collect();
    let n = rng.range(1, 50) as usize;
    let two_builders = variant == 3;
    let with_classes = variant % 2 == 1;
    let one = |p: &mut PairSpec, rng: &mut Rng| {
        let (g1, g2) = (*rng.pick(&pool), *rng.pick(&pool));
        let (s1, s2) = *rng.pick(&palette);
        let v1 = if rng.chance(1, 12) { 0 } else { rng.range(-400, 400) as i16 };
        let v2 = rng.range(-50, 50) as i16;
        p.pair(g1, mk_vrb(s1, v1, Some(rng.pick(&devs))), g2, mk_vrb(s2, v2, Some(rng.pick(&devs))));
        if rng.chance(1, 10) {
            // a later conflicting rule for the same pair must be ignored
            let (s1, s2) = *rng.pick(&palette);
            p.pair(g1, mk_vrb(s1, v1.wrapping_add(7), Some(rng.pick(&devs))), g2, mk_vrb(s2, v2 + 1, None));
        }
    };
    for _ in 0..n {
        one(&mut p, rng);
    }
    let mut ncls = (0, 0);
    if with_classes {
        let (mut cpool, _) = glyph_run(rng, 36);
        if rng.chance(1, 2) {
            // let class glyphs coincide with glyph-pair glyphs
            for (i, g) in pool.iter().take(12).enumerate() {
                if !cpool.contains(g) {
                    cpool[i] = *g;
                }
            }
            cpool.sort();
            cpool.dedup();
        }
        rng.shuffle(&mut cpool);
        let k1 = rng.range(1, 4) as usize;
        let k2 = rng.range(1, 3) as usize;
        let mut it = cpool.into_iter();
        for _ in 0..k1 {
            let sz = rng.range(1, 4) as usize;
            let gl: Vec<u16> = it.by_ref().take(sz).collect();
            p.add_class1(gl);
        }
        let mut pool2 = glyph_run(rng, 20).0;
        rng.shuffle(&mut pool2);
        let mut it = pool2.into_iter();
        for _ in 0..k2 {
            let sz = rng.range(1, 4) as usize;
            let gl: Vec<u16> = it.by_ref().take(sz).collect();
            p.add_class2(gl);
        }
        let (s1, s2) = *rng.pick(&palette);
        for a in 0..k1 {
            for b in 0..k2 {
                if rng.chance(2, 3) {
                    let reps = if rng.chance(1, 8) { 2 } else { 1 };
                    for r in 0..reps {
                        let v = rng.range(-200, 200) as i16 + r;
                        p.classes(a, mk_vrb(s1, v, Some(rng.pick(&devs))), b, mk_vrb(s2, v / 2, None));
                    }
                }
            }
        }
        ncls = (k1, k2);
    }
    if two_builders {
        // a second builder in the same lookup: its subtables come after the first builder's;
        // semantics then depend on the builder order → only compiled=unsplit applies
        p.builders.push(PairPosBuilder::default());
        p.exact = false;
        for _ in 0..rng.range(1, 10) {
            one(&mut p, rng);
        }
    }
    p.desc = format!(
        "tiny-pair{{pairs={} classes={}x{} builders={} palette={:?}}}",
        p.glyph.len(),
        ncls.0,
        ncls.1,
        p.builders.len(),
        palette
    );
    p
}

/// b. LARGE PairPos format 1: distinct pair sets, ≈ permille/1000 × 64 KiB
///   variant 0 uniform, 1 uneven (one ≈30 KiB set), 2 shared sets, 3 two value formats,
///   4 devices in some rows, 5 one pair set > 64 KiB, 6 runs of identical big pair sets
fn gen_pp1(rng: &mut Rng, permille: u64, variant: u64) -> PairSpec {
    let mut p = PairSpec::new();
    let target = (permille as usize * 65536) / 1000;
    let (sa1, sa2) = *rng.pick(&STYLE_PAIRS[..6]);
    let (sb1, sb2) = if sa1 == VS::XAdv && sa2 == VS::Empty { (VS::XAdvXPla, VS::Empty) } else { (VS::XAdv, VS::Empty) };
    let rs = 2 + vs_size(sa1) + vs_size(sa2);
    let salt = rng.below(60001);
    // pair-set sizes
    let mut sizes: Vec<usize> = vec![];
    let mut bytes = 0usize;
    let vname;
    match variant {
        1 => {
            vname = "uneven";
            let huge = 30000 / rs;
            let mut acc = 2 + huge * rs + 4;
            while acc < target.max(2 + huge * rs + 4000) {
                let n = rng.range(3, 40) as usize;
                sizes.push(n);
                acc += 4 + 2 + n * rs;
            }
            let at = match rng.below(3) {
                0 => 0,
                1 => sizes.len(),
                _ => rng.below(sizes.len() as u64 + 1) as usize,
            };
            sizes.insert(at, huge);
            bytes = acc;
        }
        5 => {
            vname = "giant";
            let giant = (66000 + rng.below(3000) as usize) / rs;
            let nsmall = rng.range(0, 12) as usize;
            for _ in 0..nsmall {
                sizes.push(rng.range(2, 30) as usize);
            }
            let at = match rng.below(3) {
                0 => 0,
                1 => sizes.len(),
                _ => rng.below(sizes.len() as u64 + 1) as usize,
            };
            sizes.insert(at, giant);
            bytes = sizes.iter().map(|n| 6 + n * rs).sum();
        }
        _ => {
            vname = match variant {
                0 => "uniform",
                2 => "shared",
                3 => "two-formats",
                6 => "shared-runs",
                _ => "devices",
            };
            let n2 = if variant == 6 { rng.range(1500, 6000) as usize / rs } else { rng.range(20, 400) as usize };
            while bytes < target {
                let n = (n2 + rng.below(4) as usize).saturating_sub(rng.below(4) as usize).max(1);
                sizes.push(n);
                bytes += 4 + 2 + n * rs;
            }
        }
    }
    let n1 = sizes.len();
    let maxn2 = *sizes.iter().max().unwrap();
    let (g1s, l1) = glyph_run(rng, n1);
    let extra = rng.below(200) as usize;
    let (pool2, l2) = glyph_run(rng, (maxn2 + extra).min(60000));
    let devs: Vec<wl::Device> = (0..24).map(|_| mk_dev(rng)).collect();
    // row → (value row id, second-glyph window start); shared rows reuse an earlier row's data
    let mut rowdata: Vec<(usize, usize)> = Vec::with_capacity(n1);
    for i in 0..n1 {
        let off = rng.below((pool2.len() - sizes[i]) as u64 + 1) as usize;
        if (variant == 2 && i > 0 && rng.chance(2, 5)) || (variant == 6 && i > 0 && rng.chance(1, 2)) {
            let j = if variant == 6 || rng.chance(1, 2) { i - 1 } else { rng.below(i as u64) as usize };
            sizes[i] = sizes[j];
            rowdata.push(rowdata[j]);
            continue;
        }
        rowdata.push((i, off));
    }
    for i in 0..n1 {
        let (vi, off) = rowdata[i];
        let row_style = rng.below(3); // for two-formats: 0 = A, 1 = B, 2 = mixed
        let dev_row = variant == 4 && rng.chance(3, 10);
        for j in 0..sizes[i] {
            let g2 = pool2[off + j];
            let v = val(vi, j, salt);
            let (v1, v2) = if variant == 3 && (row_style == 1 || (row_style == 2 && j % 2 == 1)) {
                (mk_vrb(sb1, v, None), mk_vrb(sb2, v ^ 1, None))
            } else if dev_row {
                let d = &devs[(vi * 7 + j) % devs.len()];
                (mk_vrb(VS::XAdvDev, v, Some(d)), mk_vrb(sa2, v ^ 1, None))
            } else {
                (mk_vrb(sa1, v, None), mk_vrb(sa2, v ^ 1, None))
            };
            p.pair(g1s[i], v1, g2, v2);
        }
    }
    p.desc = format!(
        "pp1{{{vname} n1={n1} n2={}..{} rs={rs} styles={:?}/{:?} g1={l1}:{}..{} g2={l2} est={bytes}}}",
        sizes.iter().min().unwrap(),
        maxn2,
        sa1,
        sa2,
        g1s[0],
        g1s[n1 - 1]
    );
    p
}

/// c. LARGE PairPos format 2: K1 × K2 classes, ≈ permille/1000 × 64 KiB of class records
///   variant 0 plain, 1 devices in some cells, 2 glyph pairs + classes, 3 overlapping class1
///   sets (several class subtables; only compiled=unsplit applies), 4 many small class1 records
///   with class1 glyphs scattered over one contiguous glyph range
fn gen_pp2(rng: &mut Rng, permille: u64, variant: u64) -> PairSpec {
    let mut p = PairSpec::new();
    let target = (permille as usize * 65536) / 1000;
    let (s1, s2) = *rng.pick(&[
        (VS::XAdv, VS::Empty),
        (VS::XAdv, VS::Empty),
        (VS::XAdvXPla, VS::Empty),
        (VS::XAdv, VS::XAdv),
        (VS::XAdvXPla, VS::XAdv),
        (VS::All4, VS::Empty),
    ]);
    let with_dev = variant == 1;
    let rs = vs_size(s1) + vs_size(s2) + if with_dev { 2 } else { 0 };
    let fine = variant == 4;
    let mut k2 = if fine { rng.range(6, 24) } else { rng.range(30, 300) } as usize;
    let mut k1 = target / ((k2 + 1) * rs);
    if k1 < 12 {
        k2 = (target / (12 * rs)).clamp(8, 300);
        k1 = target / ((k2 + 1) * rs);
    }
    let k1max = if fine { 5000 } else { 700 };
    if k1 > k1max {
        k2 = (target / (k1max * rs)).max(k2);
        k1 = target / ((k2 + 1) * rs);
    }
    let k1 = k1.clamp(2, k1max + 200);
    let fill = *rng.pick(&[30u64, 60, 100]);
    let salt = rng.below(60001);
    let size_of = |rng: &mut Rng| -> usize {
        if rng.chance(1, 2) {
            1
        } else {
            rng.range(2, 6) as usize
        }
    };
    let sz1: Vec<usize> = (0..k1).map(|_| size_of(rng)).collect();
    let sz2: Vec<usize> = (0..k2).map(|_| size_of(rng)).collect();
    let (mut pool1, l1) = if fine {
        let mode = *rng.pick(&[0u64, 1, 5]);
        glyph_run_m(rng, sz1.iter().sum(), mode)
    } else {
        glyph_run(rng, sz1.iter().sum())
    };
    let (mut pool2, l2) = glyph_run(rng, sz2.iter().sum());
    let scattered1 = fine || rng.chance(1, 2);
    let scattered2 = rng.chance(1, 2);
    if scattered1 {
        rng.shuffle(&mut pool1);
    }
    if scattered2 {
        rng.shuffle(&mut pool2);
    }
    let mut it = pool1.iter().copied();
    for n in &sz1 {
        let gl: Vec<u16> = it.by_ref().take(*n).collect();
        p.add_class1(gl);
    }
    let mut it = pool2.iter().copied();
    for n in &sz2 {
        let gl: Vec<u16> = it.by_ref().take(*n).collect();
        p.add_class2(gl);
    }
    let devs: Vec<wl::Device> = (0..16).map(|_| mk_dev(rng)).collect();
    // glyph pairs first (they end up in format-1 subtables ahead of the class subtables)
    let mut npairs = 0;
    if variant == 2 {
        npairs = rng.range(200, 3000) as usize;
        let (ps1, ps2) = *rng.pick(&STYLE_PAIRS[..6]);
        for k in 0..npairs {
            let g1 = if rng.chance(1, 2) { *rng.pick(&pool1) } else { rng.next() as u16 };
            let g2 = if rng.chance(2, 3) { *rng.pick(&pool2) } else { rng.next() as u16 };
            let v = val(k, 3, salt);
            p.pair(g1, mk_vrb(ps1, v, None), g2, mk_vrb(ps2, v ^ 3, None));
        }
    }
    // overlapping class1 sets, spliced into the insertion order
    let mut order: Vec<usize> = (0..k1).collect();
    rng.shuffle(&mut order);
    let mut n_overlap = 0;
    if variant == 3 {
        n_overlap = rng.range(1, 4) as usize;
        p.exact = false;
        for _ in 0..n_overlap {
            let victim = rng.below(k1 as u64) as usize;
            let mut gl = vec![*rng.pick(&p.c1_sets[victim])];
            gl.push(rng.next() as u16);
            let id = p.add_class1(gl);
            let at = rng.below(order.len() as u64 + 1) as usize;
            order.insert(at, id);
        }
    }
    let mut ncells = 0usize;
    for a in order {
        let mut any = false;
        for b in 0..k2 {
            if fill < 100 && !rng.chance(fill, 100) && !(b == k2 - 1 && !any) {
                continue;
            }
            any = true;
            ncells += 1;
            let v = val(a, b, salt);
            let r1 = if with_dev && rng.chance(1, 50) {
                // x_advance + device on top of the regular fields
                let d = &devs[(a + b) % devs.len()];
                mk_vrb(s1, v, None).with_x_advance(v).with_x_advance_device(d.clone())
            } else {
                mk_vrb(s1, v, None)
            };
            p.classes(a, r1, b, mk_vrb(s2, v ^ 5, None));
        }
    }
    p.desc = format!(
        "pp2{{v{variant} k1={k1}+{n_overlap} k2={k2} rs={rs} styles={:?}/{:?} fill={fill}% cells={ncells} pairs={npairs} \
         c1={l1}{} c2={l2}{} est={}}}",
        s1,
        s2,
        if scattered1 { "/scattered" } else { "/runs" },
        if scattered2 { "/scattered" } else { "/runs" },
        k1 * (k2 + 1) * rs
    );
    p
}

/// d. MarkToBase: M marks in C classes, B bases, distinct anchors ≈ permille/1000 × 64 KiB
///   variant 0 plain, 1 with null anchors, 2 with contour points / devices / re-inserts,
///   3 shared anchors, 4 dense and nearly empty classes side by side,
///   5 EVERY anchor (mark and base) with an x and a y device, all pairwise distinct (Device
///     tables of three delta formats and delta sets → variation indices),
///   6 every anchor with its own contour point; a quarter with only an x device, a quarter with
///     only a y device (the contour point is then dropped, as documented)
fn gen_mb(rng: &mut Rng, permille: u64, variant: u64) -> MarkSpec {
    let mut m = MarkSpec::new();
    let target = (permille as usize * 65536) / 1000;
    let tiny = permille == 0;
    let c = if tiny { rng.range(1, 4) } else { rng.range(2, 40) } as usize;
    let fill: u64 = if variant == 1 {
        *rng.pick(&[50u64, 80, 95])
    } else if variant == 4 {
        45
    } else {
        100
    };
    // variant 4: per-class fill
    let class_fill: Vec<u64> = (0..c).map(|_| if variant == 4 { *rng.pick(&[3u64, 30, 100]) } else { fill }).collect();
    let anchor_bytes = match variant {
        5 => 30,
        6 => 16,
        _ => 8,
    };
    let mut next_dev = 1u32;
    let mut next_pt = 0u16;
    let mut decorate = |rng: &mut Rng, mut a: AnchorBuilder| -> AnchorBuilder {
        match variant {
            5 => {
                a = a.with_x_device(dod_of(next_dev)).with_y_device(dod_of(next_dev + 1));
                next_dev += 2;
            }
            6 => {
                next_pt = next_pt.wrapping_add(1);
                a = a.with_contourpoint(next_pt);
                match rng.below(4) {
                    0 => {
                        a = a.with_x_device(dod_of(next_dev));
                        next_dev += 1;
                    }
                    1 => {
                        a = a.with_y_device(dod_of(next_dev));
                        next_dev += 1;
                    }
                    _ => {}
                }
            }
            _ => {}
        }
        a
    };
    let b = if tiny {
        rng.range(1, 20) as usize
    } else {
        ((target * 100) / (anchor_bytes * c * fill as usize)).clamp(20, 3000)
    };
    let nm = if tiny { rng.range(c as i64, c as i64 + 6) } else { rng.range(c as i64, c as i64 + 150) } as usize;
    let (mut mgl, lm) = glyph_run(rng, nm);
    let (bgl, lb) = glyph_run(rng, b);
    rng.shuffle(&mut mgl);
    let devs: Vec<wl::Device> = (0..8).map(|_| mk_dev(rng)).collect();
    // marks: one per class first (fixes the class ids), the rest skewed towards class 0
    for (i, g) in mgl.iter().enumerate() {
        let k = if i < c {
            i
        } else if rng.chance(1, 2) {
            0
        } else {
            rng.below(c as u64) as usize
        };
        let mut a = AnchorBuilder::new(20000 + i as i16, k as i16);
        if variant == 2 && rng.chance(1, 20) {
            a = a.with_contourpoint(rng.below(500) as u16);
        }
        if variant == 2 && rng.chance(1, 25) {
            a = a.with_y_device(rng.pick(&devs).clone());
        }
        if variant >= 5 {
            a = decorate(rng, a);
        }
        m.mark(*g, k, a);
        if variant == 2 && rng.chance(1, 30) {
            // same mark, same class, new anchor: the last one wins
            m.mark(*g, k, AnchorBuilder::new(-20000 - i as i16, k as i16));
        }
    }
    let mut n_anchor = 0usize;
    for (bi, g) in bgl.iter().enumerate() {
        let forced = rng.below(c as u64) as usize;
        for k in 0..c {
            if class_fill[k] < 100 && k != forced && !rng.chance(class_fill[k], 100) {
                continue;
            }
            n_anchor += 1;
            let (x, y) = if variant == 3 && rng.chance(1, 3) {
                ((bi % 17) as i16, (k % 3) as i16) // few distinct → shared anchor tables
            } else {
                (bi as i16 - 1500, (k as i16) * 40 + (bi % 7) as i16 + 100)
            };
            let mut a = AnchorBuilder::new(x, y);
            if variant == 2 {
                if rng.chance(1, 40) {
                    a = a.with_contourpoint(rng.below(300) as u16);
                }
                if rng.chance(1, 40) {
                    a = a.with_x_device(rng.pick(&devs).clone());
                }
                if rng.chance(1, 60) {
                    a = a.with_y_device(rng.pick(&devs).clone());
                }
            }
            if variant >= 5 {
                a = decorate(rng, a);
            }
            m.base(*g, k, a);
            if variant == 2 && rng.chance(1, 50) {
                m.base(*g, k, AnchorBuilder::new(x.wrapping_add(9000), y));
            }
        }
    }
    // bytes of the distinct anchor + device / variation-index tables of the heaviest mark class:
    // split_mark_to_base only cuts BETWEEN classes, a class above 64 KiB cannot be made to fit
    let dev_size = |d: &Dev| -> usize {
        match d {
            Dev::Device { deltas, .. } => {
                let bits = if deltas.iter().all(|v| (-2..=1).contains(v)) {
                    2
                } else if deltas.iter().all(|v| (-8..=7).contains(v)) {
                    4
                } else {
                    8
                };
                6 + 2 * ((deltas.len() * bits + 15) / 16)
            }
            Dev::None => 0,
            _ => 6,
        }
    };
    let maxclass = (0..c)
        .map(|k| {
            let mut anchors: BTreeMap<String, usize> = BTreeMap::new();
            let mut devices: BTreeMap<String, usize> = BTreeMap::new();
            for a in m.bases.values().filter_map(|row| row.get(&k)) {
                let has_dev = a.xd != Dev::None || a.yd != Dev::None;
                anchors.insert(format!("{a:?}"), if has_dev { 10 } else if a.pt.is_some() { 8 } else { 6 });
                for d in [&a.xd, &a.yd] {
                    if *d != Dev::None {
                        devices.insert(d.show(), dev_size(d));
                    }
                }
            }
            anchors.values().sum::<usize>() + devices.values().sum::<usize>()
        })
        .max()
        .unwrap_or(0);
    m.desc = format!(
        "mb{{v{variant} classes={c} marks={nm}:{lm} bases={b}:{lb} fill={fill}% anchors={n_anchor} est={} maxclass={maxclass}}}",
        12 + 2 * nm + 2 * b + 10 * nm + 2 + 2 * b * c + 6 * n_anchor
    );
    m
}


/// f. PairPos whose value records carry ALL value-format fields incl. the four device fields, with
///    pairwise DISTINCT device tables / delta sets (distinct per record and per field, so object
///    de-duplication cannot hide a mis-wired offset); permille counts the device tables too
///   variant 0 class pairs, both records all 8 fields in every cell
///   variant 1 class pairs, random field masks per record (record 1 only / record 2 only / both),
///             per-cell random subsets of the device fields (null offsets in between), empty cells
///   variant 2 glyph pairs, both records all 8 fields
///   variant 3 glyph pairs, a palette of field masks (several format-1 subtables), uneven rows
///   variant 4 class pairs as variant 0 + glyph-pair exceptions (devices / zeros / scalars) for
///             glyphs of those classes
fn gen_pairdev(rng: &mut Rng, permille: u64, variant: u64) -> PairSpec {
    let mut p = PairSpec::new();
    let tiny = permille == 0;
    let target = (permille as usize * 65536) / 1000;
    let mut next = 1u32 + (rng.below(1000) as u32) * 2;
    let salt = rng.below(60001);
    let class_based = matches!(variant, 0 | 1 | 4);
    let mut n_cells = 0usize;
    let masks_desc;
    if class_based {
        let (sm1, dm1, sm2, dm2): (u8, u8, u8, u8) = if variant == 1 {
            match rng.below(4) {
                0 => (rng.below(16) as u8, 0, rng.below(16) as u8, rng.range(1, 15) as u8),
                1 => (rng.below(16) as u8, rng.range(1, 15) as u8, rng.below(16) as u8, 0),
                _ => (rng.below(16) as u8, rng.range(1, 15) as u8, rng.below(16) as u8, rng.range(1, 15) as u8),
            }
        } else {
            (15, 15, 15, 15)
        };
        masks_desc = format!("{sm1:x}.{dm1:x}/{sm2:x}.{dm2:x}");
        let bits = |m: u8| m.count_ones() as usize;
        let cell_est = 2 * (bits(sm1 | dm1) + bits(dm1) + bits(sm2 | dm2) + bits(dm2)) + 8 * (bits(dm1) + bits(dm2));
        let k2 = rng.range(1, 7) as usize;
        // a class-1 record: the class-0 column holds an empty record (null offsets, no device tables)
        let rec_bytes = 2 * (bits(sm1 | dm1) + bits(dm1) + bits(sm2 | dm2) + bits(dm2));
        let row_est = k2 * cell_est + rec_bytes + 6;
        let k1 = if tiny { rng.range(1, 4) as usize } else { (target / row_est).clamp(2, 2500) };
        let sz1: Vec<usize> = (0..k1).map(|_| rng.range(1, 3) as usize).collect();
        let sz2: Vec<usize> = (0..k2).map(|_| rng.range(1, 2) as usize).collect();
        let (mut pool1, _) = glyph_run(rng, sz1.iter().sum());
        let (mut pool2, _) = glyph_run(rng, sz2.iter().sum());
        if rng.chance(1, 2) {
            rng.shuffle(&mut pool1);
        }
        if rng.chance(1, 2) {
            rng.shuffle(&mut pool2);
        }
        let mut it = pool1.iter().copied();
        for n in &sz1 {
            let gl: Vec<u16> = it.by_ref().take(*n).collect();
            p.add_class1(gl);
        }
        let mut it = pool2.iter().copied();
        for n in &sz2 {
            let gl: Vec<u16> = it.by_ref().take(*n).collect();
            p.add_class2(gl);
        }
        // glyph-pair exceptions first or last (the builder always emits them first)
        let exceptions = |p: &mut PairSpec, rng: &mut Rng, next: &mut u32| {
            let n = if tiny { rng.range(1, 6) } else { rng.range(50, 300) } as usize;
            for k in 0..n {
                let g1 = if rng.chance(4, 5) { *rng.pick(&pool1) } else { rng.next() as u16 };
                let g2 = if rng.chance(4, 5) { *rng.pick(&pool2) } else { rng.next() as u16 };
                let v = val(k, 7, salt);
                let (a, b) = match rng.below(4) {
                    0 => (mk_vrb(VS::XAdv, 0, None), mk_vrb(VS::Empty, 0, None)),
                    1 => (mk_full(v, 15, 15, next), mk_full(v ^ 9, 15, 15, next)),
                    2 => (mk_full(0, 4, 4, next), mk_full(0, 0, 2, next)),
                    _ => (mk_vrb(VS::All4, v, None), mk_vrb(VS::XAdv, v ^ 3, None)),
                };
                p.pair(g1, a, g2, b);
            }
        };
        let exc_first = rng.chance(1, 2);
        if variant == 4 && exc_first {
            exceptions(&mut p, rng, &mut next);
        }
        let mut order: Vec<usize> = (0..k1).collect();
        rng.shuffle(&mut order);
        for a in order {
            let mut any = false;
            for b in 0..k2 {
                if variant == 1 && rng.chance(1, 10) && !(b == k2 - 1 && !any) {
                    continue;
                }
                any = true;
                let (c1, c2) = if variant == 1 {
                    let sub = |rng: &mut Rng, m: u8| (0..4).fold(0u8, |acc, k| if m >> k & 1 == 1 && rng.chance(7, 10) { acc | 1 << k } else { acc });
                    (sub(rng, dm1), sub(rng, dm2))
                } else {
                    (dm1, dm2)
                };
                let v = val(a, b, salt);
                n_cells += 1;
                p.classes(a, mk_full(v, sm1, c1, &mut next), b, mk_full(v ^ 5, sm2, c2, &mut next));
            }
        }
        if variant == 4 && !exc_first {
            exceptions(&mut p, rng, &mut next);
        }
        p.desc = format!(
            "pairdev{{v{variant} class k1={k1} k2={k2} masks(scalars.devices)={masks_desc} cells={n_cells} pairs={} devices/deltas={} est={}}}",
            p.glyph.len(),
            next,
            k1 * row_est
        );
    } else {
        let palette: Vec<(u8, u8, u8, u8)> = if variant == 2 {
            vec![(15, 15, 15, 15)]
        } else {
            (0..rng.range(2, 4)).map(|_| (rng.below(16) as u8, rng.below(16) as u8, rng.below(16) as u8, rng.below(16) as u8)).chain([(4, 4, 0, 8)]).collect()
        };
        masks_desc = palette.iter().map(|m| format!("{:x}.{:x}/{:x}.{:x}", m.0, m.1, m.2, m.3)).collect::<Vec<_>>().join(",");
        let bits = |m: u8| m.count_ones() as usize;
        let cell_est = 2 + palette
            .iter()
            .map(|m| 2 * (bits(m.0 | m.1) + bits(m.1) + bits(m.2 | m.3) + bits(m.3)) + 8 * (bits(m.1) + bits(m.3)))
            .sum::<usize>()
            / palette.len();
        let total = if tiny { rng.range(1, 12) as usize } else { target / cell_est };
        let maxrow = if variant == 3 { 40 } else { 8 };
        let mut sizes = vec![];
        let mut acc = 0;
        while acc < total {
            let n = rng.range(1, maxrow) as usize;
            sizes.push(n);
            acc += n;
        }
        let (g1s, _) = glyph_run(rng, sizes.len());
        let extra2 = rng.below(30) as usize;
        let (pool2, _) = glyph_run(rng, maxrow as usize + extra2);
        for (i, n) in sizes.iter().enumerate() {
            let off = rng.below((pool2.len() - n) as u64 + 1) as usize;
            for j in 0..*n {
                let (sm1, dm1, sm2, dm2) = *rng.pick(&palette);
                let v = val(i, j, salt);
                n_cells += 1;
                p.pair(g1s[i], mk_full(v, sm1, dm1, &mut next), pool2[off + j], mk_full(v ^ 1, sm2, dm2, &mut next));
            }
        }
        p.desc = format!(
            "pairdev{{v{variant} glyph n1={} pairs={n_cells} masks(scalars.devices)={masks_desc} devices/deltas={} est={}}}",
            sizes.len(),
            next,
            n_cells * cell_est
        );
    }
    p
}

/// the value-record pairs an exception / a class rule may carry: all-zero in several encodings,
/// empty value formats, partially zero, zero scalar + device, non-zero
fn overlap_value(rng: &mut Rng, next: &mut u32) -> (ValueRecordBuilder, ValueRecordBuilder, &'static str) {
    let v = rng.range(-300, 300) as i16;
    let nz = if v == 0 { 17 } else { v };
    match rng.below(14) {
        0 | 1 => (mk_vrb(VS::XAdv, 0, None), mk_vrb(VS::Empty, 0, None), "xadv0/empty"),
        2 => (mk_vrb(VS::XAdv, 0, None), mk_vrb(VS::XAdv, 0, None), "xadv0/xadv0"),
        3 => (mk_full(0, 15, 0, next).with_y_placement(0).with_x_advance(0).with_y_advance(0), mk_vrb(VS::Empty, 0, None), "all4-0/empty"),
        4 => (mk_vrb(VS::Empty, 0, None), mk_vrb(VS::Empty, 0, None), "empty/empty"),
        5 => (mk_vrb(VS::YPla, 0, None), mk_vrb(VS::YPla, 0, None), "ypla0/ypla0"),
        6 => (mk_vrb(VS::XAdvXPla, 0, None), mk_vrb(VS::Empty, 0, None), "xadv0+xpla1/empty"),
        7 => (mk_vrb(VS::XAdv, 0, None), mk_vrb(VS::XAdv, nz, None), "xadv0/xadvN"),
        8 => (mk_vrb(VS::Empty, 0, None), mk_vrb(VS::XAdv, 0, None), "empty/xadv0"),
        9 => (mk_full(0, 4, 4, next).with_x_advance(0), mk_vrb(VS::Empty, 0, None), "xadv0+dev/empty"),
        10 | 11 => (mk_vrb(VS::XAdv, nz, None), mk_vrb(VS::Empty, 0, None), "xadvN/empty"),
        12 => (mk_vrb(VS::All4, nz, None), mk_vrb(VS::XAdvXPla, nz, None), "all4N/xadvN+xpla"),
        _ => (mk_full(nz, 15, 15, next), mk_full(nz ^ 3, 5, 10, next), "full-dev/partial-dev"),
    }
}

/// g. exception-before-rule patterns: glyph pairs OVERLAPPING class-pair rules for the same glyphs
///    (`pos A V 0; pos @A @V -50;`), zero-valued class cells, empty value formats, pairs and
///    cells repeated with other values (first glyph pair wins, last class cell wins)
///   variant 0 glyph pairs inserted before the class rules, 1 after, 2 interleaved,
///   3 a class matrix large enough to be split, exceptions all over it
fn gen_overlap(rng: &mut Rng, variant: u64) -> PairSpec {
    let mut p = PairSpec::new();
    let mut next = 1u32;
    let big = variant == 3;
    let (k1, k2) = if big { (rng.range(700, 1100) as usize, rng.range(40, 60) as usize) } else { (rng.range(1, 6) as usize, rng.range(1, 5) as usize) };
    let sz = |rng: &mut Rng| if big { rng.range(1, 2) } else { rng.range(1, 4) } as usize;
    let sz1: Vec<usize> = (0..k1).map(|_| sz(rng)).collect();
    let sz2: Vec<usize> = (0..k2).map(|_| sz(rng)).collect();
    let (mut pool1, _) = glyph_run(rng, sz1.iter().sum());
    // class-2 glyphs may coincide with class-1 glyphs (A A pairs)
    let (mut pool2, _) = if !big && rng.chance(1, 3) { (pool1.clone(), "") } else { glyph_run(rng, sz2.iter().sum::<usize>().max(1)) };
    rng.shuffle(&mut pool1);
    rng.shuffle(&mut pool2);
    while pool2.len() < sz2.iter().sum::<usize>() {
        let g = rng.next() as u16;
        if !pool2.contains(&g) {
            pool2.push(g);
        }
    }
    let mut it = pool1.iter().copied();
    for n in &sz1 {
        let gl: Vec<u16> = it.by_ref().take(*n).collect();
        p.add_class1(gl);
    }
    let mut it = pool2.iter().copied();
    for n in &sz2 {
        let gl: Vec<u16> = it.by_ref().take(*n).collect();
        p.add_class2(gl);
    }
    enum Op {
        Pair(u16, u16),
        Cell(usize, usize),
    }
    let mut pair_ops = vec![];
    let npairs = if big { rng.range(300, 900) } else { rng.range(3, 40) } as usize;
    for _ in 0..npairs {
        let g1 = if rng.chance(5, 6) { *rng.pick(&pool1) } else { rng.next() as u16 };
        let g2 = if rng.chance(5, 6) { *rng.pick(&pool2) } else { rng.next() as u16 };
        pair_ops.push(Op::Pair(g1, g2));
        if rng.chance(1, 5) {
            pair_ops.push(Op::Pair(g1, g2)); // repeated with another value: the first one wins
        }
    }
    let mut cell_ops = vec![];
    let mut rows: Vec<usize> = (0..k1).collect();
    rng.shuffle(&mut rows);
    for a in rows {
        let mut any = false;
        for b in 0..k2 {
            if !big && rng.chance(1, 4) && !(b == k2 - 1 && !any) {
                continue; // cell without rule
            }
            any = true;
            cell_ops.push(Op::Cell(a, b));
            if !big && rng.chance(1, 8) {
                cell_ops.push(Op::Cell(a, b)); // repeated: the last one wins
            }
        }
    }
    let ops: Vec<Op> = match variant {
        0 | 3 => pair_ops.into_iter().chain(cell_ops).collect(),
        1 => cell_ops.into_iter().chain(pair_ops).collect(),
        _ => {
            // interleave, keeping the relative order within each kind
            let mut out = vec![];
            let (mut a, mut b) = (pair_ops.into_iter().peekable(), cell_ops.into_iter().peekable());
            while a.peek().is_some() || b.peek().is_some() {
                let take_a = b.peek().is_none() || (a.peek().is_some() && rng.chance(1, 2));
                out.push(if take_a { a.next().unwrap() } else { b.next().unwrap() });
            }
            out
        }
    };
    let mut kinds: BTreeMap<&'static str, usize> = BTreeMap::new();
    let salt = rng.below(60001);
    for op in ops {
        match op {
            Op::Pair(g1, g2) => {
                let (a, b, k) = overlap_value(rng, &mut next);
                *kinds.entry(k).or_insert(0) += 1;
                p.pair(g1, a, g2, b);
            }
            Op::Cell(a, b) => {
                if big {
                    // one value format for the whole matrix (otherwise the records get huge)
                    let v = if rng.chance(1, 10) { 0 } else { val(a, b, salt) };
                    p.classes(a, mk_vrb(VS::XAdv, v, None), b, mk_vrb(VS::Empty, 0, None));
                } else {
                    let (x, y, _) = overlap_value(rng, &mut next);
                    p.classes(a, x, b, y);
                }
            }
        }
    }
    let kinds: Vec<String> = kinds.iter().map(|(k, n)| format!("{k}:{n}")).collect();
    p.desc = format!(
        "overlap{{v{variant} k1={k1} k2={k2} cells={} pairs={} pair-kinds=[{}] c1={:?} c2={:?}}}",
        p.cells.len(),
        p.glyph.len(),
        kinds.join(" "),
        if big { vec![] } else { p.c1_sets.clone() },
        if big { vec![] } else { p.c2_sets.clone() }
    );
    p
}

/// h. one Gpos holding a device-laden PairPos, a MarkToBase with anchor devices and an overlap
///    lookup (extension promotion is decided per lookup; the variation store is shared)
fn gen_multi_dev(rng: &mut Rng, permille: u64, variant: u64) -> Vec<Spec> {
    let f = |rng: &mut Rng| permille * (50 + rng.below(81)) / 100;
    let (fa, fb) = (f(rng), f(rng).max(100));
    let mut specs = vec![
        Spec::Pair(gen_pairdev(rng, fa, variant % 5)),
        Spec::Mark(gen_mb(rng, fb, 5 + variant % 2)),
        Spec::Pair(gen_overlap(rng, variant % 3)),
    ];
    if variant % 2 == 1 {
        let fc = f(rng);
        specs.push(Spec::Pair(gen_pairdev(rng, fc, (variant + 2) % 5)));
    }
    rng.shuffle(&mut specs);
    specs
}

/// Deterministic scenarios (no random choice): the smallest inputs found for known defects.
/// `n` scales the scenario (0 = the default, minimal failing size).
///   variant 0: MarkToBase, 10 classes: 5 with an anchor on every base, 5 without any base anchor
///   variant 1: PairPos format 2, class1 glyphs consecutive, 2-glyph classes interleaved with
///              1-glyph classes (class ids are ordered by size, so no class-id range is contiguous);
///              n = number of class2 sets
fn gen_fixed(n: u64, variant: u64) -> Vec<Spec> {
    match variant {
        0 => {
            let b = if n == 0 { 1400 } else { n as usize };
            let (c, dense) = (10usize, 5usize);
            let mut m = MarkSpec::new();
            for k in 0..c {
                m.mark(10 + k as u16, k, AnchorBuilder::new(k as i16, 1));
            }
            for bi in 0..b {
                for k in 0..dense {
                    m.base(100 + bi as u16, k, AnchorBuilder::new(bi as i16, 10 + k as i16));
                }
            }
            m.desc = format!(
                "fixed-mb{{marks 10..={} one per class c0..c{}; bases 100..={}: anchor (i,10+k) for classes k<{dense} only}}",
                9 + c,
                c - 1,
                99 + b
            );
            vec![Spec::Mark(m)]
        }
        _ => {
            let k2 = if n == 0 { 60 } else { n as usize };
            let k1 = 300usize;
            let mut p = PairSpec::new();
            // class1 glyphs 100..=549 are consecutive: [single][pair pair][single][pair pair]…
            // (class ids: the 150 pairs first, then the 150 singles — both scattered)
            for i in 0..k1 / 2 {
                let g = 100 + i as u16 * 3;
                p.add_class1(vec![g + 1, g + 2]);
            }
            for i in 0..k1 / 2 {
                p.add_class1(vec![100 + i as u16 * 3]);
            }
            for j in 0..k2 {
                p.add_class2(vec![40000 + 4 * j as u16]);
            }
            for a in 0..k1 {
                for b in 0..k2 {
                    p.classes(a, mk_vrb(VS::All4, val(a, b, 0), None), b, mk_vrb(VS::Empty, 0, None));
                }
            }
            p.desc = format!(
                "fixed-pp2{{class1: 150 sets [101+3i,102+3i] then 150 sets [100+3i] (glyphs 100..=549 consecutive); \
                 class2: {k2} sets [40000+4j]; every cell (a,b): all four values from val(a,b)}}"
            );
            vec![Spec::Pair(p)]
        }
    }
}

/// e. several medium lookups in one Gpos (extension promotion is decided per lookup)
fn gen_multi(rng: &mut Rng, permille: u64, variant: u64) -> Vec<Spec> {
    let n = 2 + (variant % 2) as usize;
    let mut specs: Vec<Spec> = vec![];
    // always one PairPos and one MarkToBase, the rest random
    let mut kinds: Vec<u64> = vec![rng.below(2), 2];
    while kinds.len() < n {
        kinds.push(rng.below(4));
    }
    rng.shuffle(&mut kinds);
    for k in kinds {
        // sizes around permille, individually jittered 50 % … 130 %
        let f = permille * (50 + rng.below(81)) / 100;
        let v = rng.below(60);
        specs.push(match k {
            0 => Spec::Pair(gen_pp1(rng, f, v % 5)),
            1 => Spec::Pair(gen_pp2(rng, f, v % 3)),
            2 => Spec::Mark(gen_mb(rng, f.max(100), v % 4)),
            _ => Spec::Pair(gen_tiny_pair(rng, v % 3)),
        });
    }
    specs
}

// ---------------------------------------------------------------------------------------
// probes
// ---------------------------------------------------------------------------------------

fn around(g: u16) -> [u16; 3] {
    [g.wrapping_sub(1), g, g.wrapping_add(1)]
}

fn cov_ends(c: &rl::CoverageTable) -> Vec<u16> {
    let mut it = c.iter();
    match it.next() {
        None => vec![],
        Some(f) => {
            let l = it.last().unwrap_or(f);
            vec![f.to_u16(), l.to_u16()]
        }
    }
}

/// second glyphs worth trying together with first glyph `g1`
fn g2s_for(p: &PairSpec, rng: &mut Rng, g1: u16) -> Vec<u16> {
    let mut v = vec![];
    let r: Vec<u16> = p.glyph.range((g1, 0)..=(g1, 0xFFFF)).map(|(k, _)| k.1).collect();
    if !r.is_empty() {
        let (f, l) = (r[0], r[r.len() - 1]);
        v.extend([f, l, *rng.pick(&r), f.wrapping_sub(1), l.wrapping_add(1)]);
    }
    if !p.c2_sets.is_empty() {
        for _ in 0..3 {
            let b = rng.pick(&p.c2_sets);
            v.push(*rng.pick(b));
        }
    }
    v.extend([rng.next() as u16, 0, 0xFFFF]);
    v
}

fn pair_probes(rng: &mut Rng, p: &PairSpec, c: &CLookup) -> Vec<(u16, u16)> {
    let mut set: BTreeSet<(u16, u16)> = BTreeSet::new();
    // rule pairs: all, or a sample
    let keys: Vec<(u16, u16)> = p.glyph.keys().copied().collect();
    if keys.len() <= 3000 {
        set.extend(keys.iter().copied());
    } else {
        for _ in 0..2000 {
            set.insert(*rng.pick(&keys));
        }
    }
    let cells: Vec<(usize, usize)> = p.cells.keys().copied().collect();
    if cells.len() <= 3000 {
        for (a, b) in &cells {
            set.insert((*rng.pick(&p.c1_sets[*a]), *rng.pick(&p.c2_sets[*b])));
        }
    } else {
        for _ in 0..2000 {
            let (a, b) = *rng.pick(&cells);
            set.insert((*rng.pick(&p.c1_sets[a]), *rng.pick(&p.c2_sets[b])));
        }
    }
    // first and last pair set
    if let (Some(f), Some(l)) = (keys.first(), keys.last()) {
        for g1 in [f.0, l.0] {
            for (k, _) in p.glyph.range((g1, 0)..=(g1, 0xFFFF)).take(60) {
                set.insert(*k);
            }
            for (k, _) in p.glyph.range((g1, 0)..=(g1, 0xFFFF)).rev().take(20) {
                set.insert(*k);
            }
        }
    }
    // first and last class (all members) against first / last / random class2
    if !p.c1_sets.is_empty() && !p.c2_sets.is_empty() {
        let (n1, n2) = (p.c1_sets.len(), p.c2_sets.len());
        for a in [0, n1 - 1] {
            for b in [0, n2 - 1, rng.below(n2 as u64) as usize] {
                for g1 in &p.c1_sets[a] {
                    for g2 in &p.c2_sets[b] {
                        set.insert((*g1, *g2));
                    }
                }
            }
        }
    }
    // small class sets: every (class-1 glyph, class-2 glyph) combination and every class-1 glyph
    // with glyphs outside all class-2 sets; every glyph-rule glyph against every class-2 glyph
    let n1g: usize = p.c1_sets.iter().map(|x| x.len()).sum();
    let n2g: usize = p.c2_sets.iter().map(|x| x.len()).sum();
    if n1g > 0 && n1g * (n2g + 4) <= 6000 {
        for a in &p.c1_sets {
            for g1 in a {
                for b in &p.c2_sets {
                    for g2 in b {
                        set.insert((*g1, *g2));
                    }
                }
                for g2 in [0u16, 0xFFFF, rng.next() as u16, g1.wrapping_add(1)] {
                    set.insert((*g1, g2));
                }
            }
        }
        if keys.len() * n2g <= 6000 {
            for (g1, _) in &keys {
                for b in &p.c2_sets {
                    for g2 in b {
                        set.insert((*g1, *g2));
                    }
                }
            }
        }
    }
    // neighbours of every compiled subtable boundary
    for sub in &c.subs {
        let ends = match sub {
            CSub::P1 { cov, .. } | CSub::P2 { cov, .. } => cov_ends(cov),
            _ => vec![],
        };
        for e in ends {
            for g1 in around(e) {
                for g2 in g2s_for(p, rng, g1) {
                    set.insert((g1, g2));
                }
            }
        }
    }
    // non-rule pairs
    let firsts: Vec<u16> = {
        let mut f: BTreeSet<u16> = keys.iter().map(|k| k.0).collect();
        f.extend(p.c1_of.keys().copied());
        f.into_iter().collect()
    };
    for i in 0..300 {
        let g1 = match i % 4 {
            0 | 1 if !firsts.is_empty() => *rng.pick(&firsts),
            2 => *rng.pick(&[0u16, 0xFFFF, 1, 0xFFFE]),
            _ => rng.next() as u16,
        };
        let g2 = match (i / 4) % 4 {
            0 => *rng.pick(&[0u16, 0xFFFF]),
            1 if !keys.is_empty() => rng.pick(&keys).1,
            _ => rng.next() as u16,
        };
        set.insert((g1, g2));
    }
    set.into_iter().collect()
}

fn mark_probes(rng: &mut Rng, m: &MarkSpec, c: &CLookup) -> Vec<(u16, u16)> {
    let mut set: BTreeSet<(u16, u16)> = BTreeSet::new();
    let marks: Vec<u16> = m.marks.keys().copied().collect();
    let bases: Vec<u16> = m.bases.keys().copied().collect();
    let mut by_class: Vec<Vec<u16>> = vec![vec![]; m.n_classes];
    for (g, (k, _)) in &m.marks {
        by_class[*k].push(*g);
    }
    // rules: every (base, class) anchor with a random mark of that class — all or a sample
    let n_rules: usize = m.bases.values().map(|v| v.len()).sum();
    let mut null_cells: Vec<(u16, usize)> = vec![];
    for (b, anchors) in &m.bases {
        for k in 0..m.n_classes {
            if by_class[k].is_empty() {
                continue;
            }
            if anchors.contains_key(&k) {
                if n_rules <= 3000 || rng.below(n_rules as u64) < 2000 {
                    set.insert((*rng.pick(&by_class[k]), *b));
                }
            } else {
                null_cells.push((*b, k));
            }
        }
    }
    // bases without an anchor for the mark's class
    for _ in 0..300.min(null_cells.len() * 2) {
        let (b, k) = *rng.pick(&null_cells);
        set.insert((*rng.pick(&by_class[k]), b));
    }
    // first / last mark of every class, first / last base
    if !bases.is_empty() {
        let bsel = [bases[0], bases[bases.len() - 1], *rng.pick(&bases)];
        for ms in &by_class {
            if let (Some(f), Some(l)) = (ms.first(), ms.last()) {
                for b in bsel {
                    set.insert((*f, b));
                    set.insert((*l, b));
                }
            }
        }
        if !marks.is_empty() {
            for mk in [marks[0], marks[marks.len() - 1]] {
                for _ in 0..20 {
                    set.insert((mk, *rng.pick(&bases)));
                }
            }
        }
    }
    // boundaries of every compiled subtable
    for sub in &c.subs {
        if let CSub::MB { mcov, bcov, .. } = sub {
            for e in cov_ends(mcov) {
                for mk in around(e) {
                    for b in cov_ends(bcov) {
                        for bb in around(b) {
                            set.insert((mk, bb));
                        }
                    }
                    if !bases.is_empty() {
                        for _ in 0..4 {
                            set.insert((mk, *rng.pick(&bases)));
                        }
                    }
                }
            }
        }
    }
    // absent glyphs
    for i in 0..200 {
        let mk = match i % 4 {
            0 | 1 if !marks.is_empty() => *rng.pick(&marks),
            2 => *rng.pick(&[0u16, 0xFFFF]),
            _ => rng.next() as u16,
        };
        let b = match (i / 4) % 3 {
            0 if !bases.is_empty() => *rng.pick(&bases),
            1 => *rng.pick(&[0u16, 0xFFFF]),
            _ => rng.next() as u16,
        };
        set.insert((mk, b));
    }
    set.into_iter().collect()
}

// ---------------------------------------------------------------------------------------
// one scenario: build → compile → read back → walk → oracles
// ---------------------------------------------------------------------------------------

const MAX_REPORTS: usize = 3;

struct Reporter {
    reported: BTreeMap<&'static str, usize>,
}

impl Reporter {
    /// per scenario and oracle: every success and the first few failures are recorded
    fn check(&mut self, s: &mut Session, name: &'static str, ok: bool, input: impl FnOnce() -> String, detail: impl FnOnce() -> String) {
        s.count(&format!("e2e:checks:{name}"));
        if ok {
            s.oracle(name, true, String::new, String::new);
            return;
        }
        let n = self.reported.entry(name).or_insert(0);
        *n += 1;
        if *n <= MAX_REPORTS {
            s.oracle(name, false, input, detail);
        } else {
            s.count(&format!("e2e:further-failures-same-scenario:{name}"));
        }
    }
}

fn strip<T>(r: &Result<Option<(usize, T)>, String>) -> Result<Option<&T>, &String> {
    match r {
        Ok(o) => Ok(o.as_ref().map(|x| &x.1)),
        Err(e) => Err(e),
    }
}

fn where_<T>(r: &Result<Option<(usize, T)>, String>) -> String {
    match r {
        Ok(Some((i, _))) => format!("@subtable {i}"),
        Ok(None) => String::new(),
        Err(e) => format!("ERROR {e}"),
    }
}

fn check_pair(s: &mut Session, rng: &mut Rng, rep: &mut Reporter, tag: &str, li: usize, p: &PairSpec, l: &wl::Lookup<wg::PairPos>, c: &CLookup, ivs: &IvsCtx) {
    let usubs: Vec<USub> = l.subtables.iter().map(|st| usub_pair(st)).collect();
    let u1 = usubs.iter().filter(|u| matches!(u, USub::P1 { .. })).count();
    let u2 = usubs.len() - u1;
    let c1 = c.subs.iter().filter(|u| matches!(u, CSub::P1 { .. })).count();
    let c2 = c.subs.iter().filter(|u| matches!(u, CSub::P2 { .. })).count();
    for u in &usubs {
        match u {
            USub::P1 { t, .. } => s.count(&format!("e2e:unsplit-pairpos1-coverage-format:{}", cov_fmt(&t.coverage))),
            USub::P2 { t, .. } => s.count(&format!("e2e:unsplit-pairpos2-coverage-format:{}", cov_fmt(&t.coverage))),
            _ => {}
        }
    }
    if c.subs.len() > usubs.len() {
        s.count("split-triggered");
        let dev = rg::ValueFormat::ANY_DEVICE_OR_VARIDX;
        if c1 > u1 {
            s.count("split-triggered:pairpos1");
            if c.subs.iter().any(|x| matches!(x, CSub::P1 { t, .. } if t.value_format1().intersects(dev) && t.value_format2().intersects(dev))) {
                s.count("split-triggered:pairpos1:devices-in-both-records");
            }
        }
        if c2 > u2 {
            s.count("split-triggered:pairpos2");
            if c.subs.iter().any(|x| matches!(x, CSub::P2 { t, .. } if t.value_format1().intersects(dev) && t.value_format2().intersects(dev))) {
                s.count("split-triggered:pairpos2:devices-in-both-records");
            }
        }
    } else {
        s.count("no-split");
    }
    let input = |g1: u16, g2: u16| format!("{tag} lookup {li} {} pair=({g1},{g2})", p.desc);
    rep.check(
        s,
        "e2e:subtable-sizes-fit",
        c.eff_type == 2 && c1 >= u1 && c2 >= u2,
        || format!("{tag} lookup {li} {}", p.desc),
        || format!("type {} (raw {}), compiled subtables f1={c1} f2={c2}, unsplit f1={u1} f2={u2}", c.eff_type, c.raw_type),
    );
    let probes = pair_probes(rng, p, c);
    s.count(&format!("e2e:pair-probes:{}", bucket(probes.len())));
    for (g1, g2) in probes {
        let rc = walk_pair_c(&c.subs, g1, g2);
        let ru = walk_pair_u(&usubs, g1, g2);
        let ok = match (strip(&rc), strip(&ru)) {
            (Ok(a), Ok(b)) => a == b,
            _ => false,
        };
        match &rc {
            Ok(Some(_)) => s.count("e2e:pair-probe:match"),
            Ok(None) => s.count("e2e:pair-probe:nothing"),
            Err(_) => s.count("e2e:pair-probe:error"),
        }
        rep.check(
            s,
            "e2e-pairpos:compiled=unsplit",
            ok,
            || input(g1, g2),
            || {
                format!(
                    "compiled {} {} ; unsplit {} {}",
                    strip(&rc).map(|o| show_pv(&o.cloned())).unwrap_or_default(),
                    where_(&rc),
                    strip(&ru).map(|o| show_pv(&o.cloned())).unwrap_or_default(),
                    where_(&ru)
                )
            },
        );
        if p.exact {
            // STRICT: the full resolved value (four scalars + the contents of the four device /
            // variation-index tables, per record) of the first matching subtable, and `nothing`
            // exactly where no rule applies (an explicit all-zero rule is a match, not `nothing`)
            let exp = p.expected(g1, g2);
            let got = strip(&rc).map(|o| ivs.pv(&o.cloned()));
            let ok = matches!(&got, Ok(g) if *g == exp);
            match &exp {
                None => s.count("e2e:pair-expected:nothing"),
                Some((a, b)) if a.is_zero() && b.is_zero() => {
                    if p.glyph.contains_key(&(g1, g2)) {
                        s.count("e2e:pair-expected:explicit-zero-glyph-pair");
                        if p.c1_of.contains_key(&g1) {
                            s.count("e2e:pair-expected:explicit-zero-glyph-pair-shadowing-class-rule");
                        }
                    } else {
                        s.count("e2e:pair-expected:zero-class-cell");
                    }
                }
                Some((a, b)) => {
                    let nd = a.d.iter().chain(b.d.iter()).filter(|d| **d != Dev::None).count();
                    s.count(&format!("e2e:pair-expected:value-with-{nd}-devices"));
                    if a.d.iter().any(|d| *d != Dev::None) && b.d.iter().any(|d| *d != Dev::None) {
                        s.count("e2e:pair-expected:devices-in-both-records");
                    }
                }
            }
            rep.check(
                s,
                "e2e-pairpos:compiled=input-rules",
                ok,
                || input(g1, g2),
                || {
                    format!(
                        "compiled {} {} ; input rules say {} (glyph rule: {}, class1: {:?}, class2: {:?})",
                        got.as_ref().map(show_pv).unwrap_or_default(),
                        where_(&rc),
                        show_pv(&exp),
                        p.glyph.contains_key(&(g1, g2)),
                        p.c1_of.get(&g1),
                        p.c2_of.get(&g2)
                    )
                },
            );
        }
    }
}

fn check_mark(s: &mut Session, rng: &mut Rng, rep: &mut Reporter, tag: &str, li: usize, m: &MarkSpec, l: &wl::Lookup<wg::MarkBasePosFormat1>, c: &CLookup, ivs: &IvsCtx) {
    let usubs: Vec<USub> = l
        .subtables
        .iter()
        .map(|t| USub::MB { t, mcov: cov_index(&t.mark_coverage), bcov: cov_index(&t.base_coverage) })
        .collect();
    if c.subs.len() > usubs.len() {
        s.count("split-triggered");
        s.count("split-triggered:markbase");
    } else {
        s.count("no-split");
    }
    let input = |mk: u16, b: u16| format!("{tag} lookup {li} {} (mark,base)=({mk},{b})", m.desc);
    rep.check(
        s,
        "e2e:subtable-sizes-fit",
        c.eff_type == 4 && c.subs.len() >= usubs.len(),
        || format!("{tag} lookup {li} {}", m.desc),
        || format!("type {} (raw {}), compiled subtables {}, unsplit {}", c.eff_type, c.raw_type, c.subs.len(), usubs.len()),
    );
    let probes = mark_probes(rng, m, c);
    s.count(&format!("e2e:mark-probes:{}", bucket(probes.len())));
    for (mk, b) in probes {
        let rc = walk_mb_c(&c.subs, mk, b);
        let ru = walk_mb_u(&usubs, mk, b);
        let exp = m.expected(mk, b);
        match &rc {
            Ok(Some(_)) => s.count("e2e:mark-probe:match"),
            Ok(None) => s.count("e2e:mark-probe:nothing"),
            Err(_) => s.count("e2e:mark-probe:error"),
        }
        let ok_u = match (strip(&rc), strip(&ru)) {
            (Ok(a), Ok(b)) => a == b,
            _ => false,
        };
        let ok_e = matches!(strip(&rc), Ok(g) if ivs.mb(&g.cloned()) == exp);
        if let Some((ma, ba)) = &exp {
            let nd = [&ma.xd, &ma.yd, &ba.xd, &ba.yd].iter().filter(|d| ***d != Dev::None).count();
            s.count(&format!("e2e:mark-expected:anchors-with-{nd}-devices"));
            if ma.pt.is_some() || ba.pt.is_some() {
                s.count("e2e:mark-expected:contour-point");
            }
        }
        let detail = |other: String| {
            format!(
                "compiled {} {} ; {other} (mark class {:?}, base has classes {:?})",
                strip(&rc).map(|o| show_mb(&o.cloned())).unwrap_or_default(),
                where_(&rc),
                m.marks.get(&mk).map(|x| x.0),
                m.bases.get(&b).map(|x| x.keys().copied().collect::<Vec<_>>())
            )
        };
        rep.check(s, "e2e-markbase:compiled=unsplit", ok_u, || input(mk, b), || {
            detail(format!("unsplit {} {}", strip(&ru).map(|o| show_mb(&o.cloned())).unwrap_or_default(), where_(&ru)))
        });
        rep.check(s, "e2e-markbase:compiled=input-rules", ok_e, || input(mk, b), || {
            detail(format!("input rules say {}", show_mb(&exp)))
        });
    }
}

fn cov_fmt(c: &wl::CoverageTable) -> u8 {
    match c {
        wl::CoverageTable::Format1(_) => 1,
        wl::CoverageTable::Format2(_) => 2,
    }
}

fn bucket(n: usize) -> &'static str {
    match n {
        0..=99 => "<100",
        100..=999 => "100-999",
        1000..=2999 => "1000-2999",
        _ => ">=3000",
    }
}

fn clip(s: String) -> String {
    if s.len() > 400 {
        let mut e = 400;
        while !s.is_char_boundary(e) {
            e -= 1;
        }
        format!("{}…", &s[..e])
    } else {
        s
    }
}

fn run_scenario(s: &mut Session, rng: &mut Rng, kind: &str, tag: &str, mut specs: Vec<Spec>) {
    let t0 = std::time::Instant::now();
    s.count(&format!("e2e:scenario:{kind}"));
    s.count(&format!("e2e:lookups-per-gpos:{}", specs.len()));
    let descs: Vec<String> = specs.iter().map(|x| x.desc().to_string()).collect();
    let input = || format!("{tag} lookups=[{}]", descs.join(" | "));
    let mut rep = Reporter { reported: BTreeMap::new() };
    // 1. the real builders → unsplit subtables → Gpos
    let built = catch(|| {
        let mut vs = VariationStoreBuilder::new(2);
        let mut lookups: Vec<wg::PositionLookup> = vec![];
        for sp in specs.iter_mut() {
            match sp {
                Spec::Pair(p) => {
                    let lb = LookupBuilder::new_with_lookups(wl::LookupFlag::empty(), None, std::mem::take(&mut p.builders));
                    lookups.push(wg::PositionLookup::Pair(lb.build(&mut vs)));
                }
                Spec::Mark(m) => {
                    let lb = LookupBuilder::new_with_lookups(wl::LookupFlag::empty(), None, vec![std::mem::take(&mut m.builder)]);
                    lookups.push(wg::PositionLookup::MarkToBase(lb.build(&mut vs)));
                }
            }
        }
        let mut gpos = wg::Gpos::new(Default::default(), Default::default(), wg::PositionLookupList::new(lookups));
        // delta sets → item variation store; pending variation indices → final (outer, inner)
        let ivs = if vs.is_empty() {
            None
        } else {
            let (store, remap) = vs.build();
            gpos.remap_variation_indices(&remap);
            Some(write_fonts::dump_table(&store).map_err(|e| format!("{e}")))
        };
        (gpos, ivs)
    });
    let (gpos, ivs) = match built {
        Ok((g, None)) => (g, IvsCtx { bytes: None }),
        Ok((g, Some(Ok(b)))) => {
            s.count("e2e:with-variation-store");
            (g, IvsCtx { bytes: Some(b) })
        }
        Ok((_, Some(Err(e)))) => {
            rep.check(s, "gpos-compiles", false, input, || clip(format!("item variation store: {e}")));
            return;
        }
        Err(e) => {
            rep.check(s, "gpos-compiles", false, input, || clip(format!("builder panicked: {e}")));
            return;
        }
    };
    let t1 = t0.elapsed();
    // 2. compile (graph packing, splitting, extension promotion)
    let bytes = match catch(|| write_fonts::dump_table(&gpos)) {
        Ok(Ok(b)) => {
            rep.check(s, "gpos-compiles", true, String::new, String::new);
            b
        }
        Ok(Err(e)) => {
            if std::env::var("C16_E2E_VERBOSE").is_ok() {
                // which offset overflows (diagnostic only)
                let mut g = write_fonts::verif_hooks::VGraph::from_table(&gpos);
                let ok = g.pack_objects();
                let objs: BTreeMap<u64, write_fonts::verif_hooks::ObjView> = g.objects().into_iter().map(|o| (o.id, o)).collect();
                eprintln!("pack_objects={ok} objects={}", objs.len());
                for (p, c, dist, w) in g.find_overflows() {
                    let (po, co) = (&objs[&p], &objs[&c]);
                    eprintln!(
                        "overflow: parent {} ({} bytes, {} links, pos {} space {}) -> child {} ({} bytes, pos {} space {}, {} parents) distance {dist} width {w}",
                        po.type_name, po.bytes.len(), po.links.len(), po.position, po.space, co.type_name, co.bytes.len(), co.position, co.space, co.parents.len()
                    );
                    let kids: usize = po.links.iter().map(|l| objs[&l.2].bytes.len()).sum();
                    let mut distinct: Vec<u64> = po.links.iter().map(|l| l.2).collect();
                    distinct.sort();
                    distinct.dedup();
                    let dk: usize = distinct.iter().map(|id| objs[id].bytes.len()).sum();
                    let shared = distinct.iter().filter(|id| objs[id].parents.len() > 1).count();
                    eprintln!("  parent children bytes {kids} (distinct {dk}, {} distinct objects, {shared} with >1 parent)", distinct.len());
                }
                for o in objs.values().filter(|o| o.type_name.contains("Lookup") || o.type_name.contains("GPOS")) {
                    eprintln!("  {} id {} bytes {} links {} pos {} space {}", o.type_name, o.id, o.bytes.len(), o.links.len(), o.position, o.space);
                }
            }
            s.count(&format!("e2e:compile-failed:{kind}"));
            rep.check(s, "gpos-compiles", false, input, || clip(format!("dump_table error: {e}")));
            return;
        }
        Err(e) => {
            s.count(&format!("e2e:compile-failed:{kind}"));
            rep.check(s, "gpos-compiles", false, input, || clip(format!("dump_table panicked: {e}")));
            return;
        }
    };
    let t2 = t0.elapsed();
    s.count(match bytes.len() {
        0..=65535 => "e2e:bytes<=64K",
        65536..=131071 => "e2e:bytes>64K",
        131072..=196607 => "e2e:bytes>128K",
        _ => "e2e:bytes>192K",
    });
    // 3. read back
    let comp = match read_compiled(&bytes) {
        Ok(c) => c,
        Err(e) => {
            rep.check(s, "e2e:subtable-sizes-fit", false, input, || e);
            return;
        }
    };
    let wlookups = &gpos.lookup_list.lookups;
    rep.check(s, "e2e:subtable-sizes-fit", comp.len() == wlookups.len(), input, || {
        format!("{} lookups read back, {} written", comp.len(), wlookups.len())
    });
    if comp.len() != wlookups.len() {
        return;
    }
    for (li, c) in comp.iter().enumerate() {
        if c.raw_type == 9 {
            s.count("extension-promoted");
        } else {
            s.count("not-promoted");
        }
        for (si, sub) in c.subs.iter().enumerate() {
            let r = structure_check(sub);
            rep.check(s, "e2e:subtable-sizes-fit", r.is_ok(), input, || {
                format!("lookup {li} subtable {si}: {}", r.clone().err().unwrap_or_default())
            });
        }
    }
    // 4./5. walk and compare
    for (li, sp) in specs.iter().enumerate() {
        match (sp, &*wlookups[li]) {
            (Spec::Pair(p), wg::PositionLookup::Pair(l)) => check_pair(s, rng, &mut rep, tag, li, p, l, &comp[li], &ivs),
            (Spec::Mark(m), wg::PositionLookup::MarkToBase(l)) => check_mark(s, rng, &mut rep, tag, li, m, l, &comp[li], &ivs),
            _ => unreachable!(),
        }
    }
    if std::env::var("C16_E2E_VERBOSE").is_ok() {
        let subs: Vec<String> = comp.iter().map(|c| format!("t{}x{}", c.raw_type, c.subs.len())).collect();
        eprintln!(
            "{tag} bytes={} lookups=[{}] build={:.2}s compile={:.2}s check={:.2}s  {}",
            bytes.len(),
            subs.join(" "),
            t1.as_secs_f64(),
            (t2 - t1).as_secs_f64(),
            (t0.elapsed() - t2).as_secs_f64(),
            descs.join(" | ")
        );
    }
}


// ---------------------------------------------------------------------------------------
// PairPosBuilder glyph pairs against the builder model (`pairs.build`)
// ---------------------------------------------------------------------------------------

fn render_cov_w(c: &wl::CoverageTable) -> String {
    match c {
        wl::CoverageTable::Format1(t) => {
            let v: Vec<u16> = t.glyph_array.iter().map(|g| g.to_u16()).collect();
            format!("1 {}", join(&v))
        }
        wl::CoverageTable::Format2(t) => {
            let mut v: Vec<u16> = vec![];
            for r in &t.range_records {
                v.extend([r.start_glyph_id.to_u16(), r.end_glyph_id.to_u16(), r.start_coverage_index]);
            }
            format!("2 {}", join(&v))
        }
    }
}

/// `insert_pair` rule sequences (zero / partially zero / empty-format / device values, repeated
/// pairs) → the real `PairPosBuilder` → its format-1 subtables (coverage, pair sets with the id of
/// the rule each record came from) versus `buildGlyphPairs (GlyphPairs.ofRules rules)`.
pub fn run_pairs_build(cfg: &Config, s: &mut Session, rng: &mut Rng) {
    let n_cases = if cfg.thorough() { 1500 } else { 200 };
    for _ in 0..n_cases {
        let npool = rng.range(1, 12) as usize;
        let pool: Vec<u16> = if rng.chance(1, 2) { glyph_run(rng, npool).0 } else { (0..npool).map(|_| rng.next() as u16).collect() };
        let n = rng.range(1, 30) as usize;
        let mut next = 1u32;
        let mut rules: Vec<(u16, u16, u32, PV)> = vec![];
        let mut b = PairPosBuilder::default();
        for _ in 0..n {
            let (g1, g2) = (*rng.pick(&pool), *rng.pick(&pool));
            let (v1, v2, kind) = overlap_value(rng, &mut next);
            s.count(&format!("pairs.build:value:{kind}"));
            let key = (v1.format().bits() as u32) * 65536 + v2.format().bits() as u32;
            rules.push((g1, g2, key, (vr_b(&v1), vr_b(&v2))));
            b.insert_pair(g16(g1), v1, g16(g2), v2);
        }
        let req: Vec<String> = rules.iter().enumerate().map(|(i, r)| format!("{} {} {} {i}", r.0, r.1, r.2)).collect();
        let built = catch(|| {
            let mut vs = VariationStoreBuilder::new(2);
            b.build(&mut vs)
        });
        let resp = match built {
            Err(_) => "trap".to_string(),
            Ok(subs) => {
                let mut parts = vec![];
                let mut recs: Vec<(Option<u16>, u16, Option<usize>)> = vec![];
                for st in &subs {
                    let wg::PairPos::Format1(t) = st else {
                        parts.push("format2?".into());
                        continue;
                    };
                    let firsts: Vec<u16> = t.coverage.iter().map(|g| g.to_u16()).collect();
                    let mut sets = vec![];
                    for (i, ps) in t.pair_sets.iter().enumerate() {
                        let g1 = firsts.get(i).copied();
                        let mut v: Vec<String> = vec![];
                        for r in &ps.pair_value_records {
                            let g2 = r.second_glyph.to_u16();
                            // pending variation indices are compared through the builder-side value
                            let got = (vr_w_pending(&r.value_record1), vr_w_pending(&r.value_record2));
                            let id = rules.iter().position(|x| Some(x.0) == g1 && x.1 == g2 && pending_eq(&x.3, &got));
                            recs.push((g1, g2, id));
                            let id = id.map(|i| i.to_string()).unwrap_or("?".into());
                            v.push(format!("{g2} {id}"));
                        }
                        sets.push(v.join(" "));
                    }
                    parts.push(format!("{} ; {}", render_cov_w(&t.coverage), sets.join(" , ")));
                }
                // model-independent: every rule's pair is present with the FIRST rule's value
                let mut ok = true;
                let mut why = String::new();
                for (i, r) in rules.iter().enumerate() {
                    let first = rules.iter().position(|x| x.0 == r.0 && x.1 == r.1).unwrap_or(i);
                    let all = recs.iter().filter(|x| x.0 == Some(r.0) && x.1 == r.1).count();
                    let hits = recs.iter().filter(|x| x.0 == Some(r.0) && x.1 == r.1 && x.2 == Some(first)).count();
                    if hits != 1 || all != 1 {
                        ok = false;
                        why = format!("pair ({}, {}): {all} records, {hits} with the value of its first rule (rule {first})", r.0, r.1);
                        break;
                    }
                }
                s.oracle("pairs.build:every-pair-kept-with-first-value", ok, || req.join(" "), || format!("{why}; built: {}", parts.join(" | ")));
                if parts.is_empty() {
                    "-".to_string()
                } else {
                    parts.join(" | ")
                }
            }
        };
        s.case("pairs.build", format!("pairs.build {}", req.join(" ")), resp);
    }
}

/// like `vr_w`, but a pending variation index is `Dev::Bad("pending")`: only its presence counts
fn vr_w_pending(v: &wg::ValueRecord) -> VR {
    vr_w(v)
}

/// equality of a builder-side value (delta sets resolved to `Dev::Deltas`) with a built record
/// whose variation indices are still pending: scalars, Device tables and the PRESENCE of a
/// variation index per field
fn pending_eq(rule: &PV, got: &PV) -> bool {
    let one = |a: &VR, b: &VR| {
        a.v == b.v
            && a.d.iter().zip(b.d.iter()).all(|(x, y)| match (x, y) {
                (Dev::Deltas(_), Dev::Bad(_)) => true,
                (x, y) => x == y,
            })
    };
    one(&rule.0, &got.0) && one(&rule.1, &got.1)
}

/// every scenario is a function of (kind, permille, variant, rng state)
fn one(s: &mut Session, rng: &mut Rng, kind: &str, permille: u64, variant: u64) {
    let tag = format!("e2e[{kind}:{permille}:{variant}:{:#x}]", rng.0);
    let specs = match kind {
        "tiny-pair" => vec![Spec::Pair(gen_tiny_pair(rng, variant))],
        "tiny-markbase" => vec![Spec::Mark(gen_mb(rng, 0, variant))],
        "pairpos1" => vec![Spec::Pair(gen_pp1(rng, permille, variant))],
        "pairpos2" => vec![Spec::Pair(gen_pp2(rng, permille, variant))],
        "markbase" => vec![Spec::Mark(gen_mb(rng, permille, variant))],
        "multi" => gen_multi(rng, permille, variant),
        "pairdev" => vec![Spec::Pair(gen_pairdev(rng, permille, variant))],
        "overlap" => vec![Spec::Pair(gen_overlap(rng, variant))],
        "markdev" => vec![Spec::Mark(gen_mb(rng, permille, 5 + variant % 2))],
        "multi-dev" => gen_multi_dev(rng, permille, variant),
        "fixed" => gen_fixed(permille, variant),
        _ => return,
    };
    let kind_v = match kind {
        "pairpos1" if variant == 5 => "pairpos1-giant-set".to_string(),
        _ => kind.to_string(),
    };
    run_scenario(s, rng, &kind_v, &tag, specs);
}

pub fn run(cfg: &Config, s: &mut Session, rng: &mut Rng) {
    if let Ok(r) = std::env::var("C16_E2E_REPLAY") {
        // kind:permille:variant:0xSTATE
        let f: Vec<&str> = r.split(':').collect();
        if f.len() == 4 {
            let st = u64::from_str_radix(f[3].trim_start_matches("0x"), 16).unwrap_or(0);
            let mut r2 = Rng(st);
            one(s, &mut r2, f[0], f[1].parse().unwrap_or(1000), f[2].parse().unwrap_or(0));
        }
        return;
    }
    let rounds = if cfg.thorough() { 24 } else { 4 };
    let t0 = std::time::Instant::now();
    // deterministic minimal inputs of known defects (regression checks once those are fixed)
    one(s, rng, "fixed", 0, 0);
    one(s, rng, "fixed", 0, 1);
    for round in 0..rounds {
        for i in 0..20 {
            one(s, rng, "tiny-pair", 0, i % 4);
        }
        for i in 0..8 {
            one(s, rng, "tiny-markbase", 0, i % 4);
        }
        // sizes from just below the 16-bit limit up to ≈ 4 × 64 KiB; later rounds jitter ±10 %
        let j = |rng: &mut Rng, p: u64| if round == 0 { p } else { p * (90 + rng.below(21)) / 100 };
        for (p, v) in
            [(900, 0), (990, 3), (1030, 0), (1100, 2), (1400, 1), (1800, 4), (2300, 3), (2800, 6), (3300, 2), (4000, 1), (3100, 6), (3800, 0)]
        {
            let p = j(rng, p);
            one(s, rng, "pairpos1", p, v);
        }
        one(s, rng, "pairpos1", 0, 5);
        for (p, v) in
            [(900, 0), (1000, 2), (1050, 0), (1300, 1), (1700, 3), (2200, 0), (2700, 2), (3200, 1), (3600, 3), (4000, 0), (1200, 4), (2600, 4)]
        {
            let p = j(rng, p);
            one(s, rng, "pairpos2", p, v);
        }
        for (p, v) in
            [(900, 0), (1000, 1), (1050, 2), (1300, 3), (1700, 1), (2200, 2), (2700, 0), (3200, 4), (3600, 2), (4000, 0), (2000, 4), (1500, 3)]
        {
            let p = j(rng, p);
            one(s, rng, "markbase", p, v);
        }
        for (p, v) in [(500, 0), (700, 1), (900, 0), (900, 1), (1200, 0), (1500, 1)] {
            let p = j(rng, p);
            one(s, rng, "multi", p, v);
        }
    }
    // device-laden value records / anchors and exception-before-rule patterns (added later: kept
    // after the older scenarios so that their random stream is unchanged)
    let rounds2 = if cfg.thorough() { 10 } else { 2 };
    for round in 0..rounds2 {
        let j = |rng: &mut Rng, p: u64| if round == 0 { p } else { p * (90 + rng.below(21)) / 100 };
        for i in 0..10 {
            one(s, rng, "pairdev", 0, i % 5);
        }
        for i in 0..24 {
            one(s, rng, "overlap", 0, i % 3);
        }
        one(s, rng, "overlap", 0, 3);
        for i in 0..4 {
            one(s, rng, "markdev", 0, i % 2);
        }
        for (p, v) in [
            (950, 0), (990, 0), (1010, 0), (1050, 0), (2500, 0), (1000, 1), (1100, 1), (2200, 1), (960, 2), (1000, 2), (1040, 2),
            (2500, 2), (1000, 3), (1200, 3), (3000, 3), (1000, 4), (1500, 4), (4000, 0), (3300, 4), (3700, 1),
        ] {
            let p = j(rng, p);
            one(s, rng, "pairdev", p, v);
        }
        for (p, v) in [(950, 0), (1000, 0), (1100, 0), (2500, 0), (1000, 1), (1200, 1), (3000, 1), (4000, 0)] {
            let p = j(rng, p);
            one(s, rng, "markdev", p, v);
        }
        for (p, v) in [(400, 0), (800, 1), (1200, 2), (1500, 3)] {
            let p = j(rng, p);
            one(s, rng, "multi-dev", p, v);
        }
    }
    // regression inputs of repaired defects, replayed with their recorded generator state:
    // /repo 2b4b586 (ppf2 size estimate at a split point with shared device tables)
    for (kind, p, v, state) in [("pairdev", 3626u64, 1u64, 0xd287079c8ac06fe5u64)] {
        let mut r2 = Rng(state);
        one(s, &mut r2, kind, p, v);
    }
    if std::env::var("C16_E2E_VERBOSE").is_ok() {
        eprintln!("e2e total {:.1}s", t0.elapsed().as_secs_f64());
    }
}
