//! `split_pair_pos_format_1` as a whole (size heuristic + split loop + split_coverage) against the
//! model (`ppf1.run`): a GPOS table with one PairPos format 1 subtable is turned into the packing
//! graph (hook `verif_hooks::VGraph::from_table`), the object sizes the heuristic will see are read
//! off the graph, `pack_objects` runs, and the subtables found under the lookup afterwards (their
//! coverage tables and pair-set object ids) are compared with the model's prediction.
use fv_harness::common::*;
use font_types::GlyphId16;
use read_fonts::tables::layout as rl;
use read_fonts::{FontData, FontRead};
use std::collections::BTreeMap;
use write_fonts::tables::gpos as wg;
use write_fonts::tables::layout as wl;
use write_fonts::verif_hooks::{ObjView, VGraph};

pub struct Scenario {
    pub name: &'static str,
    /// first glyphs (strictly increasing)
    pub firsts: Vec<u16>,
    /// per first glyph: (content key, number of pair records); equal keys => identical pair sets
    pub sets: Vec<(u16, u16)>,
}

fn make_gpos(sc: &Scenario) -> wg::Gpos {
    let coverage: wl::CoverageTable = sc.firsts.iter().map(|g| GlyphId16::new(*g)).collect();
    let pair_sets = sc
        .sets
        .iter()
        .map(|(key, n)| {
            let v = wg::ValueRecord::new().with_x_advance(*key as i16);
            wg::PairSet::new(
                (0..*n)
                    .map(|g2| wg::PairValueRecord::new(GlyphId16::new(g2), v.clone(), wg::ValueRecord::default()))
                    .collect(),
            )
        })
        .collect();
    let lookup = wg::PositionLookup::Pair(wl::Lookup::new(
        wl::LookupFlag::empty(),
        vec![wg::PairPos::format_1(coverage, pair_sets)],
    ));
    wg::Gpos::new(Default::default(), Default::default(), wl::LookupList::new(vec![lookup]))
}

fn render_cov_bytes(b: &[u8]) -> Option<String> {
    let c = rl::CoverageTable::read(FontData::new(b)).ok()?;
    Some(match c {
        rl::CoverageTable::Format1(t) => {
            let v: Vec<u16> = t.glyph_array().iter().map(|g| g.get().to_u16()).collect();
            format!("1 {}", join(&v))
        }
        rl::CoverageTable::Format2(t) => {
            let mut v: Vec<u16> = vec![];
            for r in t.range_records() {
                v.push(r.start_glyph_id().to_u16());
                v.push(r.end_glyph_id().to_u16());
                v.push(r.start_coverage_index());
            }
            format!("2 {}", join(&v))
        }
    })
}

fn is_lookup(o: &ObjView) -> bool {
    o.type_name == "GPOS2Pair" || o.type_name == "GPOS9Extension"
}

pub fn scenario_case(s: &mut Session, sc: &Scenario) {
    let gpos = make_gpos(sc);
    // does the plain sort already fit?  (then no split is attempted)
    let fits = catch(|| VGraph::from_table(&gpos).basic_sort());
    let mut g = VGraph::from_table(&gpos);
    let before: BTreeMap<u64, ObjView> = g.objects().into_iter().map(|o| (o.id, o)).collect();
    let Some(lookup) = before.values().find(|o| is_lookup(o)) else {
        s.oracle("ppf1:lookup-found", false, || sc.name.to_string(), || "no lookup object".into());
        return;
    };
    let lookup_id = lookup.id;
    let sub = &before[&lookup.links[0].2];
    let cov = &before[&sub.links[0].2];
    let Some(cov_txt) = render_cov_bytes(&cov.bytes) else { return };
    let mut idmap: BTreeMap<u64, usize> = BTreeMap::new();
    // packing may later duplicate shared pair sets (new object ids, same bytes): identify by content
    let mut by_content: BTreeMap<Vec<u8>, usize> = BTreeMap::new();
    let mut flat: Vec<usize> = vec![];
    for l in sub.links.iter().skip(1) {
        let ps = &before[&l.2];
        let next = idmap.len() + 1;
        let id = *idmap.entry(l.2).or_insert(next);
        by_content.insert(ps.bytes.clone(), id);
        let size = ps.bytes.len() + ps.links.iter().map(|c| before[&c.2].bytes.len()).sum::<usize>();
        flat.push(id);
        flat.push(size);
    }
    let total: usize = sub.bytes.len() + cov.bytes.len() + idmap.keys().map(|id| before[id].bytes.len()).sum::<usize>();
    let req = format!("ppf1.run {} | {} | {}", cov_txt, cov.bytes.len(), join(&flat));
    match fits {
        Ok(true) => {
            s.count("ppf1:fits-without-split");
            return;
        }
        Ok(false) => {}
        Err(_) => {
            s.oracle("ppf1:basic_sort-does-not-panic", false, || req.clone(), || "panic".into());
            return;
        }
    }
    let packed = catch(|| g.pack_objects());
    let describe = || format!("{}: {} pair sets, subtable+children {} bytes; {}", sc.name, sc.sets.len(), total, if req.len() > 600 { format!("{}…", &req[..600]) } else { req.clone() });
    let resp = match packed {
        Err(msg) => {
            s.count("ppf1:split-trap");
            s.oracle("ppf1:split-does-not-panic", false, describe, || msg.clone());
            "trap".to_string()
        }
        Ok(ok) => {
            let after: BTreeMap<u64, ObjView> = g.objects().into_iter().map(|o| (o.id, o)).collect();
            let lk = &after[&lookup_id];
            let mut parts: Vec<String> = vec![];
            let mut points: Vec<usize> = vec![];
            let mut acc = 0usize;
            for l in &lk.links {
                let mut st = &after[&l.2];
                if st.type_name.starts_with("Extension") {
                    st = &after[&st.links[0].2];
                }
                let c = &after[&st.links[0].2];
                let ids: Vec<usize> = st.links.iter().skip(1).map(|p| by_content.get(&after[&p.2].bytes).copied().unwrap_or(0)).collect();
                acc += ids.len();
                points.push(acc);
                parts.push(format!("{} ; {}", render_cov_bytes(&c.bytes).unwrap_or("unreadable".into()), join(&ids)));
            }
            if lk.type_name == "GPOS9Extension" {
                s.count("ppf1:extension-promoted");
            }
            s.oracle("ppf1:packs", ok, describe, || "pack_objects returned false".into());
            if parts.len() <= 1 {
                s.count("ppf1:overflow-but-no-split-point");
                "none".to_string()
            } else {
                s.count("ppf1:split-triggered");
                s.count(&format!("ppf1:split-into-{}", parts.len().min(6)));
                format!("{} | {}", join(&points), parts.join(" | "))
            }
        }
    };
    s.case("ppf1.run", req, resp);
}

pub fn gen(rng: &mut Rng, s: &mut Session, thorough: bool) -> Scenario {
    let kind = rng.below(7);
    // total bytes of pair sets aimed at
    let target = *rng.pick(&[40_000usize, 62_000, 66_000, 70_000, 100_000, 131_000, 140_000, 200_000, 262_000]);
    let target = if thorough { target } else { target.min(200_000) };
    let mut sets: Vec<(u16, u16)> = vec![];
    let name: &'static str;
    match kind {
        0 | 1 => {
            name = "uniform";
            let n = rng.range(2, 400) as usize;
            let r = ((target / n).saturating_sub(2) / 4).clamp(1, 16000) as u16;
            for i in 0..n {
                sets.push((i as u16 + 1, r));
            }
        }
        2 => {
            name = "uneven";
            let n = rng.range(2, 300) as usize;
            let avg = ((target / n) / 4).max(1);
            for i in 0..n {
                sets.push((i as u16 + 1, rng.range(1, 2 * avg as i64).min(16000) as u16));
            }
        }
        3 => {
            name = "giants";
            let n = rng.range(3, 60) as usize;
            for i in 0..n {
                let r = if rng.chance(1, 5) { rng.range(6000, 16300) } else { rng.range(1, 300) };
                sets.push((i as u16 + 1, r as u16));
            }
        }
        4 => {
            name = "shared";
            // runs of identical pair sets (deduplicated objects) between distinct ones
            let n = rng.range(4, 200) as usize;
            let r = ((target / n).saturating_sub(2) / 4).clamp(1, 16000) as u16;
            let mut key = 1u16;
            for _ in 0..n {
                if !sets.is_empty() && rng.chance(1, 3) {
                    let k = *rng.pick(&sets);
                    sets.push(k);
                } else {
                    sets.push((key, (r as i64 + rng.range(-1, 1)).max(1) as u16));
                    key += 1;
                }
            }
        }
        5 => {
            name = "boundary";
            // tune the total around 65535: n sets of r records, then nudge the last one
            let n = rng.range(2, 40) as usize;
            let per = 65_535usize / n;
            let r = (per.saturating_sub(4) / 4).max(1) as u16;
            for i in 0..n {
                sets.push((i as u16 + 1, r));
            }
            let d = rng.range(-3, 3);
            let last = sets.last_mut().unwrap();
            last.1 = (last.1 as i64 + d).max(1) as u16;
            if rng.chance(1, 2) {
                sets.push((999, rng.range(1, 3000) as u16));
            }
        }
        _ => {
            name = "first-huge";
            // the first (or an early) pair set alone is close to / above 64 KiB
            let n = rng.range(1, 12) as usize;
            let huge_at = if rng.chance(2, 3) { 0 } else { rng.below(n as u64) as usize };
            for i in 0..n {
                let r = if i == huge_at { rng.range(16_000, 17_500) } else { rng.range(1, 2000) };
                sets.push((i as u16 + 1, r as u16));
            }
        }
    }
    s.count(&format!("ppf1:gen:{name}"));
    // first glyphs
    let n = sets.len();
    let mut firsts: Vec<u16> = vec![];
    let style = rng.below(4);
    let base: u32 = match rng.below(3) {
        0 => 0,
        1 => rng.below(30_000) as u32,
        _ => 0xFFFF - (2 * n as u32 + 40),
    };
    let mut at = base;
    for i in 0..n {
        firsts.push(at.min(0xFFFF) as u16);
        at += match style {
            0 => 1,                                             // one range
            1 => 2,                                             // format 1
            2 => if i % 7 == 6 { 3 } else { 1 },                // several ranges
            _ => if rng.chance(4, 5) { 1 } else { 1 + rng.below(4) as u32 },
        };
    }
    firsts.dedup();
    sets.truncate(firsts.len());
    Scenario { name, firsts, sets }
}

pub fn run(cfg: &Config, s: &mut Session, rng: &mut Rng) {
    let t = cfg.thorough();
    // hand-picked
    let fixed = vec![
        Scenario { name: "fixed:three-30000", firsts: vec![10, 11, 12], sets: vec![(1, 7499), (2, 7499), (3, 7499)] },
        Scenario { name: "fixed:1500x(2 pairs)", firsts: (0..1500).collect(), sets: (0..1500).map(|i| (i + 1, 10)).collect() },
        Scenario { name: "fixed:two-huge-first-at-0-fmt2", firsts: vec![10, 11, 12, 13, 14, 15, 16], sets: vec![(1, 16400), (2, 16400), (3, 5), (4, 5), (5, 5), (6, 5), (7, 5)] },
        Scenario { name: "fixed:two-huge-first-at-0-fmt1", firsts: vec![10, 12, 14], sets: vec![(1, 16400), (2, 16400), (3, 5)] },
        // 181 pair sets of 89 records fill a subtable to exactly 65536 bytes by the heuristic's count
        // (10 + 181*360 + 4 + 2*181), in the first subtable and - through `partial_coverage_size = 6`
        // after a split - in every following one: the split points are 180, 360, 540
        Scenario { name: "fixed:exact-boundary-181x89", firsts: (0..600).map(|i| 2 * i + 7).collect(), sets: (0..600).map(|i| (i + 1, 89)).collect() },
        // a pair set SHARED with the previous piece sits exactly at a split point: the loop sizes it
        // against the previous piece's visited set (0 bytes) and clears the set, so the second piece
        // (A 20002 + C 45482 + D 19602 bytes) is estimated at 65100 bytes
        Scenario {
            name: "fixed:shared-pair-set-at-split-point",
            firsts: (10..28).collect(),
            sets: [(1u16, 5000u16), (2, 11370)].into_iter().chain((0..14).map(|_| (1, 5000))).chain([(3, 11370), (4, 4900)]).collect(),
        },
        // the same, but the under-estimated piece holds the shared pair set + many medium ones and ends with
        // a small one: no large object can be placed last
        Scenario {
            name: "fixed:shared-pair-set-at-split-point/mediums",
            firsts: (10..39).collect(),
            sets: [(1u16, 5000u16), (2, 11370)].into_iter().chain((0..14).map(|_| (1, 5000))).chain((0..12).map(|j| (10 + j, 1250))).chain([(40, 100)]).collect(),
        },
        Scenario {
            name: "fixed:shared-pair-set-at-split-point/small-shared",
            firsts: (10..40).collect(),
            sets: [(1u16, 1500u16), (2, 14870)].into_iter().chain((0..14).map(|_| (1, 1500))).chain((0..13).map(|j| (10 + j, 1240))).chain([(40, 100)]).collect(),
        },
        Scenario { name: "fixed:sparse", firsts: (0..400).map(|i| 3 * i + 1).collect(), sets: (0..400).map(|i| (i + 1, 60)).collect() },
    ];
    for sc in &fixed {
        scenario_case(s, sc);
    }
    for _ in 0..(if t { 600 } else { 70 }) {
        let sc = gen(rng, s, t);
        scenario_case(s, &sc);
    }
}
