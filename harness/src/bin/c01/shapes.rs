//! C01 part `shapes` (stub).
use fv_harness::common::*;

pub fn run(_cfg: &Config, _s: &mut Session) {}
