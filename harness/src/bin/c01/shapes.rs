//! C01 part `shapes`: every generated table reader of read-fonts (`read` / `read_with_args`,
//! the marker's `*_byte_range()` fns, every generated getter) against the Lean evaluation of the
//! DSL program that translate/shapes.py extracted from the same generated source.
//!
//! `gen.rs` (written by the translator on every run) is the dispatch table over the REAL readers.
//! Inputs are feedback-directed: the real reader's own answer (ranges of a successful read) tells
//! where the validation boundary of each table is, and the byte strings are cut exactly at, one
//! before and one after it (and at every inner field boundary), with small / huge / sign-bit count
//! values, for several valuations of the version / flag fields that switch conditional fields.
//!
//! Oracles (model independent): no panic in `read`; no panic in any getter, `min_byte_range`,
//! `min_table_bytes` after a successful read; same observation from an odd-offset copy on another
//! thread (purity); every reported range within the data.
use fv_harness::common::*;
use read_fonts::ReadError;
use std::ops::Range;

#[path = "gen.rs"]
#[allow(unused_variables, clippy::all)]
mod gen;

pub struct Entry {
    pub name: &'static str,
    pub nargs: usize,
    pub arg_sizes: &'static [usize],
    /// (static byte offset, size, raw values on a branch of a version / flag condition) — from the DSL
    pub hints: &'static [(usize, usize, &'static [u64])],
    pub arg_hints: &'static [(usize, &'static [u64])],
    pub read: fn(&[u8], &[u64]) -> String,
    /// `Offset32(off).resolve[_with_args]::<T>(data)`
    pub resolve: fn(&[u8], u32, &[u64]) -> String,
    pub getters: fn(&[u8], &[u64]),
}

/// a read argument from its raw big-endian value (what the parent table would have read)
pub fn mk<T: font_types::Scalar + font_types::FixedSize>(raw: u64) -> T {
    let b = raw.to_be_bytes();
    T::read(&b[8 - T::RAW_BYTE_LEN..]).unwrap()
}

pub fn obs_err(e: ReadError) -> String {
    match e {
        ReadError::OutOfBounds => "err:OutOfBounds".into(),
        ReadError::InvalidArrayLen => "err:InvalidArrayLen".into(),
        other => format!("err:{:?}", other).split(['(', ' ', '{']).next().unwrap().to_string(),
    }
}

pub fn rr(r: Range<usize>) -> String {
    format!("{}..{}", r.start, r.end)
}

pub fn rro(r: Option<Range<usize>>) -> String {
    match r {
        Some(r) => rr(r),
        None => "none".into(),
    }
}

fn biased_byte(rng: &mut Rng) -> u8 {
    match rng.below(20) {
        0..=10 => 0,
        11..=14 => rng.below(5) as u8,
        15 => 0xFF,
        16 => 0x80,
        17 => rng.below(32) as u8,
        _ => rng.next() as u8,
    }
}

fn biased_arg(rng: &mut Rng, size: usize) -> u64 {
    let mask = if size >= 8 { u64::MAX } else { (1u64 << (8 * size)) - 1 };
    let v = match rng.below(12) {
        0 => 0,
        1 => 1,
        2 => 2,
        3 => 3,
        4 => rng.below(16),
        5 => 0xFF,
        6 => 0x100,
        7 => mask,
        8 => mask >> 1,
        9 => (mask >> 1) + 1,
        _ => rng.next(),
    };
    v & mask
}

/// parse "ok a..b none c..d" into the maximal range end
fn max_end(obs: &str) -> Option<usize> {
    if !obs.starts_with("ok") {
        return None;
    }
    let mut m = 0usize;
    for tok in obs.split(' ').skip(1) {
        if let Some((_, b)) = tok.split_once("..") {
            m = m.max(b.parse::<usize>().ok()?);
        }
    }
    Some(m)
}

fn boundaries(obs: &str) -> Vec<usize> {
    let mut v = vec![];
    for tok in obs.split(' ').skip(1) {
        if let Some((a, b)) = tok.split_once("..") {
            if let (Ok(a), Ok(b)) = (a.parse::<usize>(), b.parse::<usize>()) {
                v.push(a);
                v.push(b);
            }
        }
    }
    v.sort();
    v.dedup();
    v
}

struct Stats {
    ok: u64,
    err: u64,
}

fn one_case(
    s: &mut Session,
    e: &Entry,
    bytes: &[u8],
    args: &[u64],
    st: &mut Stats,
    seen: &mut std::collections::HashSet<String>,
    pending_purity: &mut Vec<(Vec<u8>, Vec<u64>, String)>,
) -> Option<String> {
    let mut req = format!("shape {} {}", e.name, hex(bytes));
    for a in args {
        req.push(' ');
        req.push_str(&a.to_string());
    }
    if !seen.insert(req.clone()) {
        return None;
    }
    let r = catch(|| (e.read)(bytes, args));
    s.oracle("shapes.read.no-panic", r.is_ok(), || req.clone(), || format!("{:?}", r.as_ref().err()));
    let obs = match r {
        Ok(o) => o,
        Err(_) => "panic".to_string(),
    };
    if obs.starts_with("ok") {
        st.ok += 1;
        let g = catch(|| (e.getters)(bytes, args));
        s.oracle("shapes.getters.no-panic", g.is_ok(), || req.clone(), || format!("{:?}", g.as_ref().err()));
        let inb = max_end(&obs).map(|m| m <= bytes.len()).unwrap_or(false);
        s.oracle("shapes.ranges-in-bounds", inb, || req.clone(), || obs.clone());
        // the theorem's conclusion (`getterOk` for every getter) evaluated by the model on this input
        s.case("shapes.getters", format!("getters{}", &req[5..]), if g.is_ok() { "ok all".into() } else { "panic".into() });
    } else {
        st.err += 1;
    }
    s.case("shapes.read", req, obs.clone());
    pending_purity.push((bytes.to_vec(), args.to_vec(), obs.clone()));
    Some(obs)
}

pub fn run(cfg: &Config, s: &mut Session) {
    let table = gen::table();
    s.count(&format!("shapes.entries:{}", table.len()));
    s.case("shapes.registry", "extcheck".into(), "ok".into());
    let per = if cfg.thorough() { 400 } else { 40 };
    let mut never_ok: Vec<&str> = vec![];
    let mut never_err: Vec<&str> = vec![];
    for (ei, e) in table.iter().enumerate() {
        let mut rng = Rng::new(cfg.seed.wrapping_mul(0x1_0001).wrapping_add(ei as u64) ^ 0xC01);
        let mut st = Stats { ok: 0, err: 0 };
        let mut seen = std::collections::HashSet::new();
        let mut purity: Vec<(Vec<u8>, Vec<u64>, String)> = vec![];
        for trial in 0..per {
            let args: Vec<u64> = e.arg_sizes.iter().map(|sz| biased_arg(&mut rng, *sz)).collect();
            let len = match rng.below(4) {
                0 => rng.below(12) as usize,
                1 => rng.below(48) as usize,
                2 => rng.below(160) as usize,
                _ => rng.below(400) as usize,
            };
            let mut buf: Vec<u8> = (0..len).map(|_| biased_byte(&mut rng)).collect();
            if trial % 7 == 3 {
                // all-zero header: every count 0, every condition false
                for b in buf.iter_mut().take(24) {
                    *b = 0;
                }
            }
            // version / flag fields that switch conditional fields: values on either side of each condition
            let mut args = args;
            if trial % 4 != 0 {
                for (off, size, vals) in e.hints {
                    if buf.len() < off + size && rng.chance(4, 5) {
                        while buf.len() < off + size {
                            buf.push(biased_byte(&mut rng));
                        }
                    }
                    if buf.len() >= off + size {
                        let v = *rng.pick(vals);
                        let be = v.to_be_bytes();
                        buf[*off..off + size].copy_from_slice(&be[8 - size..]);
                        s.count("shapes.hinted-condition-value");
                    }
                }
                for (ai, vals) in e.arg_hints {
                    args[*ai] = *rng.pick(vals);
                }
            }
            let mut obs = one_case(s, e, &buf, &args, &mut st, &mut seen, &mut purity);
            // grow with zeros until the reader accepts (finds the far side of the boundary)
            if obs.as_deref().map(|o| !o.starts_with("ok")).unwrap_or(false) {
                for target in [len + 64, 1024, 8192, 70_000, 300_000] {
                    if target > 8192 && !(trial % 5 == 0) {
                        break;
                    }
                    let mut big = buf.clone();
                    big.resize(target, 0);
                    let r = catch(|| (e.read)(&big, &args));
                    if let Ok(o) = &r {
                        if o.starts_with("ok") {
                            // only feed moderately sized inputs to the model; larger ones are still
                            // walked through the getters below
                            if target <= 8192 {
                                obs = one_case(s, e, &big, &args, &mut st, &mut seen, &mut purity);
                            } else {
                                let g = catch(|| (e.getters)(&big, &args));
                                s.oracle("shapes.getters.no-panic", g.is_ok(), || format!("{} zeros-extended-to {target} args {:?} {}", e.name, args, hex(&buf)), || format!("{:?}", g.as_ref().err()));
                                obs = Some(o.clone());
                                s.count("shapes.big-ok-not-sent-to-model");
                            }
                            buf = big;
                            break;
                        }
                    } else {
                        s.oracle("shapes.read.no-panic", false, || format!("{} zeros-extended-to {target} args {:?} {}", e.name, args, hex(&buf)), || format!("{:?}", r.as_ref().err()));
                    }
                }
            }
            // cut at / around every boundary the real reader reported
            if let Some(o) = obs {
                if o.starts_with("ok") {
                    let bs = boundaries(&o);
                    let total = bs.last().copied().unwrap_or(0);
                    let mut cuts: Vec<usize> = vec![];
                    for b in &bs {
                        for d in [-1i64, 0, 1] {
                            let c = *b as i64 + d;
                            if c >= 0 {
                                cuts.push(c as usize);
                            }
                        }
                    }
                    cuts.push(total + 2);
                    cuts.push(total + 7);
                    cuts.sort();
                    cuts.dedup();
                    for c in cuts {
                        if c > 9000 {
                            continue;
                        }
                        let mut v = buf.clone();
                        v.resize(c, if trial % 2 == 0 { 0 } else { 0xA5 });
                        one_case(s, e, &v, &args, &mut st, &mut seen, &mut purity);
                    }
                }
            }
        }
        // offset resolution: the same tables reached through an offset from a parent's data
        let n_res = purity.len().min(if cfg.thorough() { 400 } else { 60 });
        for k in 0..n_res {
            let (b, a, _) = &purity[(k * 7919) % purity.len()];
            let pad = match k % 4 { 0 => 1usize, 1 => 2, 2 => 5, _ => 0 };
            let mut parent = vec![0x5Au8; pad];
            parent.extend_from_slice(b);
            let len = parent.len() as u64;
            let off = match rng.below(8) {
                0 => 0u32,
                1 => len as u32,
                2 => len as u32 + 1,
                3 => u32::MAX,
                4 => rng.below(len + 2) as u32,
                _ => pad as u32,
            };
            let mut req = format!("resolve {} {} {}", e.name, hex(&parent), off);
            for x in a {
                req.push(' ');
                req.push_str(&x.to_string());
            }
            let r = catch(|| (e.resolve)(&parent, off, a));
            s.oracle("shapes.resolve.no-panic", r.is_ok(), || req.clone(), || format!("{:?}", r.as_ref().err()));
            s.count(&format!("shapes.resolve:{}", match r.as_deref() { Ok("null") => "null", Ok(o) if o.starts_with("ok") => "ok", Ok(_) => "err", Err(_) => "panic" }));
            s.case("shapes.resolve", req, r.unwrap_or_else(|_| "panic".into()));
        }
        // purity: the same inputs from an odd-offset copy, on another thread
        let read = e.read;
        let again: Vec<String> = std::thread::scope(|sc| {
            sc.spawn(|| {
                purity
                    .iter()
                    .map(|(b, a, _)| {
                        let mut shifted = vec![0xEEu8; b.len() + 1];
                        shifted[1..].copy_from_slice(b);
                        catch(|| read(&shifted[1..], a)).unwrap_or_else(|_| "panic".into())
                    })
                    .collect()
            })
            .join()
            .unwrap()
        });
        for ((b, a, o), o2) in purity.iter().zip(again.iter()) {
            s.oracle("shapes.purity", o == o2, || format!("{} args {:?} {}", e.name, a, hex(b)), || format!("{o} vs {o2}"));
        }
        if st.ok == 0 {
            never_ok.push(e.name);
        }
        if st.err == 0 {
            never_err.push(e.name);
        }
        s.count(&format!("shapes.ok-cases:{}", match st.ok { 0 => "0", 1..=9 => "1..9", 10..=99 => "10..99", _ => "100+" }));
    }
    s.count(&format!("shapes.never-ok:{}", never_ok.len()));
    s.count(&format!("shapes.never-err:{}", never_err.len()));
    if !never_ok.is_empty() {
        s.notes.push(format!("shapes never read successfully by the generator: {}", never_ok.join(",")));
    }
    rec_cases(cfg, s);
}

/// hand-written callees of generated code that the model transcribes (Model/ShapeExt.lean)
fn rec_cases(cfg: &Config, s: &mut Session) {
    use read_fonts::tables::gpos::{ValueFormat, ValueRecord};
    use read_fonts::{ComputeSize, FontData, FontReadWithArgs};
    let mut rng = Rng::new(cfg.seed ^ 0xC01_EC);
    let n = if cfg.thorough() { 20000 } else { 2000 };
    let zeros = vec![0u8; 64];
    for i in 0..n {
        let fmt_raw: u64 = if i < 256 { i as u64 } else if i < 512 { (i as u64 - 256) << 8 | rng.below(256) } else { rng.below(65536) };
        let len = rng.below(20) as usize;
        let fmt: ValueFormat = mk(fmt_raw);
        let r = catch(|| ValueRecord::read_with_args(FontData::new(&zeros[..len]), &fmt).is_ok());
        s.oracle("shapes.rec.no-panic", r.is_ok(), || format!("ValueRecord fmt {fmt_raw} len {len}"), || String::new());
        s.case("shapes.recread", format!("recread ValueRecord {len} {fmt_raw}"), if r.unwrap_or(false) { "1" } else { "0" }.into());
        let sz = catch(|| <ValueRecord as ComputeSize>::compute_size(&fmt));
        s.case("shapes.recsize", format!("recsize ValueRecord {fmt_raw}"), match sz { Ok(Ok(n)) => n.to_string(), Ok(Err(e)) => obs_err(e), Err(_) => "panic".into() });
    }
    {
        use read_fonts::tables::ift::IdDeltaOrLength;
        for off in [0u64, 1, 2, 0xFFFF_FFFF, 0x8000_0000] {
            for len in 0..6usize {
                let o: font_types::Offset32 = mk(off);
                let r = catch(|| IdDeltaOrLength::read_with_args(FontData::new(&zeros[..len]), &o).is_ok());
                s.oracle("shapes.rec.no-panic", r.is_ok(), || format!("IdDeltaOrLength off {off} len {len}"), || String::new());
                s.case("shapes.recread", format!("recread IdDeltaOrLength {len} {off}"), if r.unwrap_or(false) { "1" } else { "0" }.into());
            }
        }
    }
}
