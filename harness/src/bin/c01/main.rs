//! C01 — parsing and traversing untrusted font bytes never panics or hangs.
//!
//! Parts (each in its own module, all run by `main`):
//!  * `shapes`  — table-level correspondence: real generated `read` vs the Lean `run` of the DSL
//!                program the translator extracted from the same source (translate/shapes.py).
//!  * `files`   — whole-file stream: corpus fonts, unmodified / truncated / boundary-valued / flipped,
//!                opened via FileRef/FontRef/CollectionRef and fully traversed; purity (aligned vs
//!                odd-offset copy on another thread).
//!  * `hand`    — direct drivers (own generators, truncation, boundary values, random bytes) for the
//!                hand-written parsers / lookups / iterators, family by family, in child processes
//!                with iteration caps and a watchdog; correspondence with Model/HandRead.lean and
//!                Model/HandIter.lean.
//!  * `iters`   — hand-written iterators (cmap 4/12, packed points/deltas, VarLenArray) vs
//!                Model/ReadIter.lean, with yield/termination bound oracles.
use fv_harness::common::*;

mod files;
mod hand;
mod iters;
mod shapes;

fn run(cfg: &Config, s: &mut Session) {
    let only = std::env::var("C01_ONLY").unwrap_or_default();
    if only.is_empty() || only == "shapes" {
        shapes::run(cfg, s);
    }
    if only.is_empty() || only == "iters" {
        iters::run(cfg, s);
    }
    if only.is_empty() || only == "hand" {
        hand::run(cfg, s);
    }
    if only.is_empty() || only == "files" {
        files::run(cfg, s);
    }
}

fn main() {
    // the `hand` part runs each of its groups in a child process of this same executable
    if let Ok(group) = std::env::var("C01_HAND_CHILD") {
        hand::child_main(&group);
        return;
    }
    fv_harness::main_with("C01", run)
}
