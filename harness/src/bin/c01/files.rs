//! C01 part `files` — whole-file stream + purity (oracles only, no Lean model involved).
//!
//! For every font of /repo/font-test-data/test_data/ttf (plus synthetic TTCs wrapping two of them) a
//! list of byte-string variants is built (unmodified, truncations, directory/offset/count boundary
//! values, table-body header words, random byte flips).  Every variant is opened through
//! `FileRef`, `FontRef`, `CollectionRef` and every table `read_fonts::TableProvider` knows is walked
//! generically through `read_fonts::traversal` (node budget + depth limit), followed by a set of
//! hand-written accessors (cmap mapping/iterators, loca/glyf points/components, name strings, post
//! names, h/v metrics, CFF indices, gvar/cvar tuple deltas).
//!
//! Oracles:
//!  * `file.no-panic`       — the whole observation runs without a panic (strict profile: overflow = panic);
//!    `file.no-panic.glyf-flag-repeat` is the same check, reported separately for the one known site.
//!  * `file.time-bounded`   — one variant's observation finishes within `TIME_BOUND`.
//!  * `file.pure`           — the observation (FNV-64 of the canonical observation stream + node count) is
//!    identical for: 8-byte aligned buffer, second call on the same buffer, copy at an odd address
//!    evaluated on a freshly spawned thread.
//!
//! Replay: an input description reads
//! `font=<name> mutation=<m> sha=<fnv64 of mutated bytes> len=<n>[ hex=<bytes>]` with `<m>` one of
//! `none`, `trunc@N` (keep the first N bytes), `set16@0xOFF=0xV` / `set32@0xOFF=0xV` (big-endian store),
//! `flip[(off,val),...]` (byte stores, in order).  `<name>` is a file of the ttf directory or
//! `ttc[a+b]`: bytes `ttcf`, u16 1, u16 0, u32 2, u32 off_a, u32 off_b, then font a at off_a = 20 and
//! font b at the next multiple of 4 after it, each with the `offset` field of every table record
//! increased by the font's position.
use fv_harness::common::*;
use read_fonts::tables;
use read_fonts::tables::cmap::{CmapSubtable, MapVariant};
use read_fonts::tables::bitmap::{BitmapContent, BitmapData, BitmapLocation, BitmapSize};
use read_fonts::tables::glyf::{Anchor, Glyph, PointFlags};
use read_fonts::tables::layout::{ClassDef, CoverageTable};
use read_fonts::tables::postscript::dict as ps_dict;
use read_fonts::traversal::{FieldType, OffsetType, SomeArray, SomeTable};
use read_fonts::types::{F2Dot14, Fixed, GlyphId, GlyphId16, Point, Tag};
use read_fonts::{CollectionRef, FileRef, FontData, FontRef, ReadError, TableProvider};
use serde_json::json;
use std::cell::RefCell;
use std::collections::BTreeMap;
use std::fmt::Write as _;
use std::sync::atomic::{AtomicUsize, Ordering};
use std::time::{Duration, Instant};

const FONT_DIR: &str = "/repo/font-test-data/test_data/ttf";
const MAX_DEPTH: u32 = 64;
const TIME_BOUND: Duration = Duration::from_secs(20); // generous: a variant normally takes milliseconds; the bound must not fire under machine load
const FNV_OFF: u64 = 0xcbf2_9ce4_8422_2325;
const FNV_PRIME: u64 = 0x0000_0100_0000_01b3;

fn fnv(bytes: &[u8]) -> u64 {
    let mut h = FNV_OFF;
    for b in bytes {
        h ^= *b as u64;
        h = h.wrapping_mul(FNV_PRIME);
    }
    h
}

// ---------------------------------------------------------------------------------------------
// panic site capture

thread_local! {
    static PANIC_SITE: RefCell<Option<String>> = const { RefCell::new(None) };
}

fn take_site() -> String {
    PANIC_SITE.with(|s| s.borrow_mut().take()).unwrap_or_else(|| "?".into())
}

fn install_hook() {
    std::panic::set_hook(Box::new(|info| {
        let site = info
            .location()
            .map(|l| format!("{}:{}", l.file().trim_start_matches("/repo/"), l.line()))
            .unwrap_or_else(|| "?".into());
        PANIC_SITE.with(|s| *s.borrow_mut() = Some(site));
    }));
}

// ---------------------------------------------------------------------------------------------
// error vocabulary

fn tag_str(t: Tag) -> String {
    let b = t.to_be_bytes();
    if b.iter().all(|c| (0x21..0x7f).contains(c) || *c == b' ') {
        b.iter().map(|c| *c as char).collect()
    } else {
        format!("x{:02x}{:02x}{:02x}{:02x}", b[0], b[1], b[2], b[3])
    }
}

fn re_kind(e: &ReadError) -> &'static str {
    match e {
        ReadError::OutOfBounds => "OutOfBounds",
        ReadError::InvalidFormat(_) => "InvalidFormat",
        ReadError::InvalidSfnt(_) => "InvalidSfnt",
        ReadError::InvalidTtc(_) => "InvalidTtc",
        ReadError::InvalidCollectionIndex(_) => "InvalidCollectionIndex",
        ReadError::InvalidArrayLen => "InvalidArrayLen",
        ReadError::ValidationError => "ValidationError",
        ReadError::NullOffset => "NullOffset",
        ReadError::TableIsMissing(_) => "TableIsMissing",
        ReadError::MetricIsMissing(_) => "MetricIsMissing",
        ReadError::MalformedData(_) => "MalformedData",
    }
}

fn re_str(e: &ReadError) -> String {
    match e {
        ReadError::InvalidFormat(n) => format!("InvalidFormat({n})"),
        ReadError::InvalidSfnt(v) => format!("InvalidSfnt({v:#x})"),
        ReadError::InvalidTtc(t) => format!("InvalidTtc({})", tag_str(*t)),
        ReadError::InvalidCollectionIndex(i) => format!("InvalidCollectionIndex({i})"),
        ReadError::TableIsMissing(t) => format!("TableIsMissing({})", tag_str(*t)),
        ReadError::MetricIsMissing(t) => format!("MetricIsMissing({})", tag_str(*t)),
        ReadError::MalformedData(m) => format!("MalformedData({m})"),
        other => re_kind(other).to_string(),
    }
}

/// postscript::Error → variant name only (payloads may hold floats / nested errors).
fn ps_err<E: std::fmt::Debug>(e: &E) -> String {
    let d = format!("{e:?}");
    d.chars().take_while(|c| c.is_ascii_alphanumeric()).collect()
}

// ---------------------------------------------------------------------------------------------
// the observer

#[derive(Default, Clone)]
struct Stats(BTreeMap<String, u64>);

impl Stats {
    fn add(&mut self, k: &str, n: u64) {
        if let Some(v) = self.0.get_mut(k) {
            *v += n;
        } else {
            self.0.insert(k.to_string(), n);
        }
    }
    fn merge(&mut self, o: &Stats) {
        for (k, v) in &o.0 {
            self.add(k, *v);
        }
    }
}

struct Walker {
    h: u64,
    nodes: u64,
    /// absolute node limit currently in force (per-table fair share of `budget`)
    limit: u64,
    budget: u64,
    hit_limit: bool,
    scalar_cap: usize,
    log: Option<String>,
    /// replay mode only: (phase, microseconds, nodes)
    timing: Option<Vec<(String, u64, u64)>>,
    st: Stats,
}

struct Obs {
    hash: u64,
    nodes: u64,
    st: Stats,
    log: Option<String>,
}

const CPS: [u32; 12] = [0, 0x20, 0x41, 0x7f, 0xa0, 0x5d0, 0x3042, 0xffff, 0x10000, 0x1f600, 0x10ffff, 0xffff_ffff];

impl Walker {
    fn new(budget: u64, scalar_cap: usize, log: bool) -> Self {
        Walker {
            h: FNV_OFF,
            nodes: 0,
            limit: budget,
            budget,
            hit_limit: false,
            scalar_cap,
            log: if log { Some(String::new()) } else { None },
            timing: None,
            st: Stats::default(),
        }
    }

    #[inline]
    fn put(&mut self, b: &[u8]) {
        let mut h = self.h;
        for x in b {
            h ^= *x as u64;
            h = h.wrapping_mul(FNV_PRIME);
        }
        self.h = h;
    }

    /// emit a word (type name, field name, error kind …)
    fn s(&mut self, t: &str) {
        self.put(t.as_bytes());
        self.put(&[0xff]);
        if let Some(l) = &mut self.log {
            l.push_str(t);
            l.push(' ');
        }
    }

    /// emit a scalar with a one-letter kind
    #[inline]
    fn n(&mut self, k: char, v: i64) {
        self.put(&[k as u8]);
        self.put(&v.to_le_bytes());
        if let Some(l) = &mut self.log {
            let _ = write!(l, "{k}{v} ");
        }
    }

    fn timed(&mut self, phase: &str, t0: Instant, nodes0: u64) {
        let n = self.nodes - nodes0;
        if let Some(t) = &mut self.timing {
            t.push((phase.to_string(), t0.elapsed().as_micros() as u64, n));
        }
    }

    fn err(&mut self, ctx: &str, e: &ReadError) {
        self.s(&re_str(e));
        self.st.add(&format!("{ctx}:{}", re_kind(e)), 1);
    }

    #[inline]
    fn tick(&mut self) -> bool {
        if self.nodes >= self.limit {
            self.hit_limit = true;
            return false;
        }
        self.nodes += 1;
        true
    }

    fn off(&mut self, o: OffsetType) {
        match o {
            OffsetType::Offset16(v) => self.n('o', v as i64),
            OffsetType::Offset24(v) => self.n('O', v.to_u32() as i64),
            OffsetType::Offset32(v) => self.n('P', v as i64),
        }
    }

    fn table<'a>(&mut self, t: &(dyn SomeTable<'a> + 'a), depth: u32) {
        if !self.tick() {
            return;
        }
        self.s(t.type_name());
        if depth >= MAX_DEPTH {
            self.s("<depth>");
            self.st.add("walk.depth-limit-hit", 1);
            return;
        }
        let mut i = 0;
        while let Some(f) = t.get_field(i) {
            i += 1;
            self.s(f.name);
            self.field(f.value, depth + 1);
            if self.hit_limit {
                break;
            }
        }
        self.s("}");
    }

    fn array<'a>(&mut self, a: &(dyn SomeArray<'a> + 'a), depth: u32) {
        self.s(a.type_name());
        let len = a.len();
        self.n('L', len as i64);
        if depth >= MAX_DEPTH {
            self.s("<depth>");
            self.st.add("walk.depth-limit-hit", 1);
            return;
        }
        let mut i = 0usize;
        let mut capped = false;
        while let Some(item) = a.get(i) {
            let scalar = is_scalar(&item);
            self.field(item, depth + 1);
            i += 1;
            if self.hit_limit {
                return;
            }
            if scalar && i >= self.scalar_cap {
                capped = true;
                break;
            }
        }
        if capped {
            // long scalar array: skip to the far end (last element, one past the end)
            self.s("<cap>");
            self.st.add("walk.scalar-array-capped", 1);
            if len > i {
                if let Some(item) = a.get(len - 1) {
                    self.field(item, depth + 1);
                }
            }
            self.n('e', a.get(len).is_some() as i64);
        } else if i != len {
            self.s("<short>");
            self.n('i', i as i64);
            self.st.add("walk.array-shorter-than-len", 1);
        }
        self.s("]");
    }

    fn field<'a>(&mut self, v: FieldType<'a>, depth: u32) {
        if !self.tick() {
            return;
        }
        match v {
            FieldType::I8(x) => self.n('a', x as i64),
            FieldType::U8(x) => self.n('b', x as i64),
            FieldType::I16(x) => self.n('c', x as i64),
            FieldType::U16(x) => self.n('d', x as i64),
            FieldType::I32(x) => self.n('e', x as i64),
            FieldType::U32(x) => self.n('f', x as i64),
            FieldType::I24(x) => self.n('g', x.to_i32() as i64),
            FieldType::U24(x) => self.n('h', x.to_u32() as i64),
            FieldType::Tag(x) => self.n('t', u32::from_be_bytes(x.to_be_bytes()) as i64),
            FieldType::FWord(x) => self.n('w', x.to_i16() as i64),
            FieldType::UfWord(x) => self.n('W', x.to_u16() as i64),
            FieldType::MajorMinor(x) => self.n('m', ((x.major as i64) << 16) | x.minor as i64),
            FieldType::Version16Dot16(x) => self.n('v', u32::from_be_bytes(x.to_be_bytes()) as i64),
            FieldType::F2Dot14(x) => self.n('x', x.to_bits() as i64),
            FieldType::Fixed(x) => self.n('X', x.to_bits() as i64),
            FieldType::LongDateTime(x) => self.n('D', x.as_secs()),
            FieldType::GlyphId16(x) => self.n('G', x.to_u16() as i64),
            FieldType::NameId(x) => self.n('N', x.to_u16() as i64),
            FieldType::BareOffset(o) => {
                self.s("bare");
                self.off(o)
            }
            FieldType::ResolvedOffset(r) => {
                self.off(r.offset);
                match r.target {
                    Ok(t) => self.table(&*t, depth),
                    Err(e) => self.err("walk.offset-err", &e),
                }
            }
            FieldType::StringOffset(so) => {
                self.off(so.offset);
                match so.target {
                    Ok(st) => {
                        let mut c = 0i64;
                        for ch in st.iter_chars().take(2048) {
                            self.put(&(ch as u32).to_le_bytes());
                            c += 1;
                        }
                        self.n('S', c);
                        self.st.add("walk.string-chars", c as u64);
                    }
                    Err(e) => self.err("walk.offset-err", &e),
                }
            }
            FieldType::ArrayOffset(ao) => {
                self.off(ao.offset);
                match ao.target {
                    Ok(arr) => self.array(&*arr, depth),
                    Err(e) => self.err("walk.offset-err", &e),
                }
            }
            FieldType::Record(r) => self.table(&r, depth),
            FieldType::Array(a) => self.array(&*a, depth),
            FieldType::Unknown => self.s("?"),
        }
    }
}

fn is_scalar(v: &FieldType) -> bool {
    !matches!(
        v,
        FieldType::ResolvedOffset(_)
            | FieldType::StringOffset(_)
            | FieldType::ArrayOffset(_)
            | FieldType::Record(_)
            | FieldType::Array(_)
    )
}

type BoxTable<'a> = Box<dyn SomeTable<'a> + 'a>;

fn known_tables<'a>(font: &FontRef<'a>) -> Vec<(&'static str, Result<BoxTable<'a>, ReadError>)> {
    let mut v: Vec<(&'static str, Result<BoxTable<'a>, ReadError>)> = Vec::with_capacity(48);
    macro_rules! t {
        ($name:literal, $e:expr) => {
            v.push(($name, $e.map(|x| Box::new(x) as BoxTable<'a>)));
        };
    }
    t!("head", font.head());
    t!("hhea", font.hhea());
    t!("vhea", font.vhea());
    t!("maxp", font.maxp());
    t!("OS/2", font.os2());
    t!("post", font.post());
    t!("name", font.name());
    t!("cmap", font.cmap());
    t!("loca", font.loca(None));
    t!("glyf", font.glyf());
    t!("hmtx", font.hmtx());
    t!("vmtx", font.vmtx());
    t!("hdmx", font.hdmx());
    t!("VORG", font.vorg());
    t!("gasp", font.gasp());
    t!("fvar", font.fvar());
    t!("avar", font.avar());
    t!("HVAR", font.hvar());
    t!("VVAR", font.vvar());
    t!("MVAR", font.mvar());
    t!("gvar", font.gvar());
    t!("cvar", font.cvar());
    t!("STAT", font.stat());
    t!("GDEF", font.gdef());
    t!("GSUB", font.gsub());
    t!("GPOS", font.gpos());
    t!("BASE", font.base());
    t!("COLR", font.colr());
    t!("CPAL", font.cpal());
    t!("CBLC", font.cblc());
    t!("CBDT", font.cbdt());
    t!("EBLC", font.eblc());
    t!("EBDT", font.ebdt());
    t!("sbix", font.sbix());
    t!("SVG ", font.svg());
    t!("CFF ", font.cff().map(|c| c.header()));
    t!("CFF2", font.cff2().map(|c| c.header().clone()));
    t!("meta", font.meta());
    t!("ltag", font.ltag());
    t!("ankr", font.ankr());
    t!("feat", font.feat());
    t!("VARC", font.varc());
    t!("IFT ", font.ift());
    t!("IFTX", font.iftx());
    v
}

/// Cheap identity of a FontRef (no table walk).
fn font_summary(w: &mut Walker, font: &FontRef) {
    let d = &font.table_directory;
    w.n('V', d.sfnt_version() as i64);
    w.n('T', d.num_tables() as i64);
    w.n('R', d.table_records().len() as i64);
    if let Some(r) = d.table_records().first() {
        w.n('t', u32::from_be_bytes(r.tag().to_be_bytes()) as i64);
        w.n('P', r.offset() as i64);
        w.n('l', r.length() as i64);
    }
}

fn observe_font<'a>(w: &mut Walker, font: &FontRef<'a>, font_budget: u64) {
    w.s("font{");
    font_summary(w, font);
    // table directory + raw table data
    for rec in font.table_directory.table_records().iter().take(4096) {
        let tag = rec.tag();
        w.n('t', u32::from_be_bytes(tag.to_be_bytes()) as i64);
        w.n('P', rec.offset() as i64);
        w.n('l', rec.length() as i64);
        w.n('k', rec.checksum() as i64);
        match font.table_data(tag) {
            Some(d) => {
                w.n('n', d.len() as i64);
                let b = d.as_bytes();
                w.put(&b[..b.len().min(8)]);
                if let Some(last) = b.last() {
                    w.n('z', *last as i64);
                }
                w.st.add("dir.table_data:some", 1);
            }
            None => {
                w.s("nodata");
                w.st.add("dir.table_data:none", 1);
            }
        }
    }
    match font.cvt() {
        Ok(c) => w.n('C', c.len() as i64),
        Err(e) => w.s(&re_str(&e)),
    }

    // generic walk of every table type read-fonts knows
    let end = w.nodes.saturating_add(font_budget).min(w.budget);
    let tabs = known_tables(font);
    let mut remaining_ok = tabs.iter().filter(|(_, r)| r.is_ok()).count() as u64;
    for (name, r) in tabs {
        w.s(name);
        match r {
            Ok(t) => {
                let share = end.saturating_sub(w.nodes) / remaining_ok.max(1);
                remaining_ok -= 1;
                w.limit = w.nodes + share;
                w.hit_limit = false;
                let before = w.nodes;
                let t0 = Instant::now();
                w.table(&*t, 0);
                w.timed(name, t0, before);
                w.st.add(&format!("table.walked:{name}"), 1);
                w.st.add(&format!("table.nodes:{name}"), w.nodes - before);
                if w.hit_limit {
                    w.s("<budget>");
                    w.st.add("walk.budget-exhausted-tables", 1);
                    w.st.add(&format!("table.budget-exhausted:{name}"), 1);
                }
            }
            Err(e) => {
                w.s(&re_str(&e));
                if !matches!(e, ReadError::TableIsMissing(_)) {
                    w.st.add(&format!("table.read-err:{name}:{}", re_kind(&e)), 1);
                }
            }
        }
    }
    w.limit = w.budget;
    w.hit_limit = false;

    let hands: [(&str, fn(&mut Walker, &FontRef)); 8] = [
        ("hand:cmap", hand_cmap),
        ("hand:glyf", hand_glyf),
        ("hand:name", hand_name),
        ("hand:post", hand_post),
        ("hand:metrics", hand_metrics),
        ("hand:cff", hand_cff),
        ("hand:tuple-vars", hand_tuple_vars),
        ("hand:more", hand_more),
    ];
    for (label, f) in hands {
        let t0 = Instant::now();
        let n0 = w.nodes;
        f(w, font);
        w.timed(label, t0, n0);
    }
    w.s("}font");
}

fn hand_cmap(w: &mut Walker, font: &FontRef) {
    let Ok(cmap) = font.cmap() else { return };
    w.s("cmap!");
    for cp in CPS {
        match cmap.map_codepoint(cp) {
            Some(g) => w.n('g', g.to_u32() as i64),
            None => w.s("-"),
        }
    }
    for rec in cmap.encoding_records().iter().take(32) {
        match rec.subtable(cmap.offset_data()) {
            Ok(st) => {
                w.n('l', st.language() as i64);
                match st {
                    CmapSubtable::Format4(t) => {
                        w.s("f4");
                        for cp in CPS {
                            w.n('g', t.map_codepoint(cp).map(|g| g.to_u32() as i64).unwrap_or(-1));
                        }
                        let mut c = 0u64;
                        for (cp, g) in t.iter().take(2000) {
                            w.put(&cp.to_le_bytes());
                            w.put(&g.to_u32().to_le_bytes());
                            c += 1;
                        }
                        w.n('I', c as i64);
                        w.st.add("hand.cmap4-pairs", c);
                    }
                    CmapSubtable::Format12(t) => {
                        w.s("f12");
                        for cp in CPS {
                            w.n('g', t.map_codepoint(cp).map(|g| g.to_u32() as i64).unwrap_or(-1));
                        }
                        let mut c = 0u64;
                        for (cp, g) in t.iter().take(2000) {
                            w.put(&cp.to_le_bytes());
                            w.put(&g.to_u32().to_le_bytes());
                            c += 1;
                        }
                        w.n('I', c as i64);
                        w.st.add("hand.cmap12-pairs", c);
                        let lim = tables::cmap::Cmap12IterLimits::default_for_font(font);
                        let c2 = t.iter_with_limits(lim).take(2000).count();
                        w.n('J', c2 as i64);
                    }
                    CmapSubtable::Format14(t) => {
                        w.s("f14");
                        let mut c = 0u64;
                        for (cp, sel, mv) in t.iter().take(2000) {
                            w.put(&cp.to_le_bytes());
                            w.put(&sel.to_le_bytes());
                            match mv {
                                MapVariant::UseDefault => w.put(&[0xfe]),
                                MapVariant::Variant(g) => w.put(&g.to_u32().to_le_bytes()),
                            }
                            if c < 8 {
                                match t.map_variant(cp, sel) {
                                    Some(MapVariant::UseDefault) => w.s("d"),
                                    Some(MapVariant::Variant(g)) => w.n('g', g.to_u32() as i64),
                                    None => w.s("-"),
                                }
                            }
                            c += 1;
                        }
                        for cp in CPS {
                            match t.map_variant(cp, 0xfe00u32) {
                                Some(MapVariant::UseDefault) => w.s("d"),
                                Some(MapVariant::Variant(g)) => w.n('g', g.to_u32() as i64),
                                None => w.s("-"),
                            }
                        }
                        w.n('I', c as i64);
                        w.st.add("hand.cmap14-triples", c);
                    }
                    _ => w.s("f?"),
                }
            }
            Err(e) => w.err("hand.cmap-subtable-err", &e),
        }
    }
}

fn hand_glyf(w: &mut Walker, font: &FontRef) {
    let (Ok(loca), Ok(glyf)) = (font.loca(None), font.glyf()) else { return };
    w.s("glyf!");
    w.n('L', loca.len() as i64);
    w.n('A', loca.all_offsets_are_ascending() as i64);
    let n = loca.len().min(2000) as u32;
    let mut total_points = 0u64;
    let mut pts: Vec<Point<i32>> = Vec::new();
    let mut flags: Vec<PointFlags> = Vec::new();
    // one past the last glyph too (must be an error, not a panic)
    for gid in 0..=n {
        match loca.get_glyf(GlyphId::new(gid), &glyf) {
            Ok(None) => {
                w.s("e");
                w.st.add("hand.glyph:empty", 1);
            }
            Err(e) => w.err("hand.glyph-err", &e),
            Ok(Some(Glyph::Simple(g))) => {
                w.st.add("hand.glyph:simple", 1);
                let np = g.num_points();
                w.n('p', np as i64);
                w.n('c', g.number_of_contours() as i64);
                w.n('v', g.has_overlapping_contours() as i64);
                w.n('i', g.instructions().len() as i64);
                if total_points < 400_000 {
                    let mut c = 0u64;
                    for p in g.points() {
                        w.put(&p.x.to_le_bytes());
                        w.put(&p.y.to_le_bytes());
                        w.put(&[p.on_curve as u8]);
                        c += 1;
                    }
                    w.n('I', c as i64);
                    total_points += c;
                    pts.clear();
                    pts.resize(np, Point::default());
                    flags.clear();
                    flags.resize(np, PointFlags::default());
                    match g.read_points_fast(&mut pts, &mut flags) {
                        Ok(()) => {
                            for (p, f) in pts.iter().zip(&flags) {
                                w.put(&p.x.to_le_bytes());
                                w.put(&p.y.to_le_bytes());
                                w.put(&[f.is_on_curve() as u8]);
                            }
                            w.s("fast-ok");
                            total_points += np as u64;
                        }
                        Err(e) => w.err("hand.read_points_fast-err", &e),
                    }
                }
            }
            Ok(Some(Glyph::Composite(g))) => {
                w.st.add("hand.glyph:composite", 1);
                let mut c = 0u64;
                for comp in g.components().take(5000) {
                    w.put(&comp.flags.bits().to_le_bytes());
                    w.put(&comp.glyph.to_u16().to_le_bytes());
                    match comp.anchor {
                        Anchor::Offset { x, y } => {
                            w.put(&x.to_le_bytes());
                            w.put(&y.to_le_bytes());
                        }
                        Anchor::Point { base, component } => {
                            w.put(&base.to_le_bytes());
                            w.put(&component.to_le_bytes());
                        }
                    }
                    let t = comp.transform;
                    for v in [t.xx, t.yx, t.xy, t.yy] {
                        w.put(&v.to_bits().to_le_bytes());
                    }
                    c += 1;
                }
                w.n('I', c as i64);
                w.st.add("hand.components", c);
                let c2 = g.component_glyphs_and_flags().take(5000).count();
                w.n('J', c2 as i64);
                let (cnt, ins) = g.count_and_instructions();
                w.n('K', cnt as i64);
                w.n('i', ins.map(|i| i.len() as i64).unwrap_or(-1));
                w.n('i', g.instructions().map(|i| i.len() as i64).unwrap_or(-1));
            }
        }
    }
    w.st.add("hand.glyphs", n as u64 + 1);
    w.st.add("hand.points", total_points);
}

fn hand_name(w: &mut Walker, font: &FontRef) {
    let Ok(name) = font.name() else { return };
    w.s("name!");
    let data = name.string_data();
    let mut chars = 0u64;
    for rec in name.name_record().iter().take(256) {
        w.n('u', rec.is_unicode() as i64);
        match rec.string(data) {
            Ok(st) => {
                let mut c = 0i64;
                for ch in st.chars().take(2048) {
                    w.put(&(ch as u32).to_le_bytes());
                    c += 1;
                }
                w.n('S', c);
                chars += c as u64;
            }
            Err(e) => w.err("hand.name-string-err", &e),
        }
    }
    if let Some(tags) = name.lang_tag_record() {
        for rec in tags.iter().take(64) {
            match rec.lang_tag(data) {
                Ok(st) => {
                    let c = st.chars().take(2048).map(|ch| w.put(&(ch as u32).to_le_bytes())).count();
                    w.n('S', c as i64);
                }
                Err(e) => w.err("hand.name-string-err", &e),
            }
        }
    }
    w.st.add("hand.name-chars", chars);
}

fn hand_post(w: &mut Walker, font: &FontRef) {
    let Ok(post) = font.post() else { return };
    w.s("post!");
    let nn = post.num_names();
    w.n('n', nn as i64);
    let mut named = 0u64;
    for g in (0..nn.min(300) as u32).chain([0x7fff, 0xffff]) {
        match post.glyph_name(GlyphId16::new(g as u16)) {
            Some(nm) => {
                w.put(nm.as_bytes());
                w.put(&[0]);
                named += 1;
            }
            None => w.put(&[0xfd]),
        }
    }
    w.st.add("hand.post-names", named);
}

fn hand_metrics(w: &mut Walker, font: &FontRef) {
    let ng = font.maxp().map(|m| m.num_glyphs() as u32).unwrap_or(0);
    let gids = [0, 1, 2, ng.wrapping_sub(1), ng, 0xffff, 0x00ff_ffff, u32::MAX];
    if let Ok(hmtx) = font.hmtx() {
        w.s("hmtx!");
        for g in gids {
            w.n('a', hmtx.advance(GlyphId::new(g)).map(|v| v as i64).unwrap_or(-1));
            w.n('s', hmtx.side_bearing(GlyphId::new(g)).map(|v| v as i64).unwrap_or(i64::MIN));
        }
        w.st.add("hand.hmtx", 1);
    }
    if let Ok(vmtx) = font.vmtx() {
        w.s("vmtx!");
        for g in gids {
            w.n('a', vmtx.advance(GlyphId::new(g)).map(|v| v as i64).unwrap_or(-1));
            w.n('s', vmtx.side_bearing(GlyphId::new(g)).map(|v| v as i64).unwrap_or(i64::MIN));
        }
        w.st.add("hand.vmtx", 1);
    }
}

fn hand_cff(w: &mut Walker, font: &FontRef) {
    if let Ok(cff) = font.cff() {
        w.s("cff!");
        w.st.add("hand.cff", 1);
        for (label, idx) in [
            ("names", cff.names()),
            ("top_dicts", cff.top_dicts()),
            ("strings", cff.strings()),
            ("gsubrs", cff.global_subrs()),
        ] {
            w.s(label);
            let cnt = idx.count() as usize;
            w.n('n', cnt as i64);
            w.n('z', idx.off_size() as i64);
            match idx.size_in_bytes() {
                Ok(v) => w.n('B', v as i64),
                Err(e) => w.s(&re_str(&e)),
            }
            for i in (0..cnt.min(64)).chain([cnt, usize::MAX / 2]) {
                match idx.get(i) {
                    Ok(b) => {
                        w.n('l', b.len() as i64);
                        w.put(&b[..b.len().min(8)]);
                    }
                    Err(e) => w.s(&ps_err(&e)),
                }
            }
        }
        for i in 0..4usize {
            match cff.name(i) {
                Some(nm) => {
                    let c = nm.chars().take(256).map(|ch| w.put(&(ch as u32).to_le_bytes())).count();
                    w.n('S', c as i64);
                }
                None => w.s("-"),
            }
        }
        for td in 0..2usize {
            match cff.charset(td) {
                Ok(Some(cs)) => {
                    w.n('n', cs.num_glyphs() as i64);
                    let mut c = 0u64;
                    for (g, sid) in cs.iter().take(2000) {
                        w.put(&g.to_u32().to_le_bytes());
                        w.put(&sid.to_u16().to_le_bytes());
                        c += 1;
                    }
                    w.n('I', c as i64);
                    w.st.add("hand.cff-charset-items", c);
                    for g in [0u32, 1, cs.num_glyphs().wrapping_sub(1), cs.num_glyphs(), 0xffff] {
                        match cs.string_id(GlyphId::new(g)) {
                            Ok(sid) => w.n('s', sid.to_u16() as i64),
                            Err(e) => w.s(&re_str(&e)),
                        }
                    }
                }
                Ok(None) => w.s("nocharset"),
                Err(e) => w.s(&ps_err(&e)),
            }
        }
    }
    if let Ok(cff2) = font.cff2() {
        w.s("cff2!");
        w.st.add("hand.cff2", 1);
        w.n('d', cff2.top_dict_data().len() as i64);
        let idx = cff2.global_subrs();
        let cnt = idx.count() as usize;
        w.n('n', cnt as i64);
        w.n('z', idx.off_size() as i64);
        match idx.size_in_bytes() {
            Ok(v) => w.n('B', v as i64),
            Err(e) => w.s(&re_str(&e)),
        }
        for i in (0..cnt.min(64)).chain([cnt, usize::MAX / 2]) {
            match idx.get(i) {
                Ok(b) => w.n('l', b.len() as i64),
                Err(e) => w.s(&ps_err(&e)),
            }
        }
    }
}

fn hand_tuple_vars(w: &mut Walker, font: &FontRef) {
    if let Ok(gvar) = font.gvar() {
        w.s("gvar!");
        let gc = gvar.glyph_count() as u32;
        let mut deltas = 0u64;
        let mut tuples = 0u64;
        for gid in (0..gc.min(300)).chain([gc, 0xffff]) {
            match gvar.glyph_variation_data(GlyphId::new(gid)) {
                Ok(Some(d)) => {
                    for t in d.tuples().take(64) {
                        tuples += 1;
                        let peak = t.peak();
                        w.n('k', peak.len() as i64);
                        for i in 0..peak.len().min(64) {
                            w.n('x', peak.get(i).map(|v| v.to_bits() as i64).unwrap_or(i64::MIN));
                        }
                        w.n('A', t.has_deltas_for_all_points() as i64);
                        let pc = t.point_numbers().take(70_000).map(|p| w.put(&p.to_le_bytes())).count();
                        w.n('q', pc as i64);
                        if deltas < 400_000 {
                            let mut c = 0u64;
                            for dl in t.deltas().take(70_000) {
                                w.put(&dl.position.to_le_bytes());
                                w.put(&dl.x_delta.to_le_bytes());
                                w.put(&dl.y_delta.to_le_bytes());
                                c += 1;
                            }
                            w.n('I', c as i64);
                            deltas += c;
                        }
                    }
                }
                Ok(None) => w.s("e"),
                Err(e) => w.err("hand.gvar-err", &e),
            }
        }
        w.st.add("hand.gvar-tuples", tuples);
        w.st.add("hand.gvar-deltas", deltas);
    }
    if let Ok(cvar) = font.cvar() {
        w.s("cvar!");
        let axis_count = font.fvar().map(|f| f.axis_count()).unwrap_or(0);
        for ac in [axis_count, 0, 1, 0xffff] {
            match cvar.variation_data(ac) {
                Ok(d) => {
                    let mut c = 0u64;
                    for t in d.tuples().take(64) {
                        let peak = t.peak();
                        w.n('k', peak.len() as i64);
                        for dl in t.deltas().take(20_000) {
                            w.put(&dl.position.to_le_bytes());
                            w.put(&dl.value.to_le_bytes());
                            c += 1;
                        }
                    }
                    w.n('I', c as i64);
                    w.st.add("hand.cvar-deltas", c);
                }
                Err(e) => w.err("hand.cvar-err", &e),
            }
        }
    }
}

fn fx(w: &mut Walker, r: Result<Fixed, ReadError>) {
    match r {
        Ok(v) => w.n('X', v.to_bits() as i64),
        Err(e) => w.s(&re_str(&e)),
    }
}

/// Walk a small sub-table (COLR paint, clip box …) with a local node allowance.
fn walk_small<'a>(w: &mut Walker, t: &(dyn SomeTable<'a> + 'a), allowance: u64) {
    let (old_limit, old_hit) = (w.limit, w.hit_limit);
    w.limit = (w.nodes + allowance).min(w.budget.saturating_mul(2));
    w.hit_limit = false;
    w.table(t, MAX_DEPTH - 12);
    w.limit = old_limit;
    w.hit_limit = old_hit;
}

fn class_def(w: &mut Walker, cd: &ClassDef, gids: &[u32]) {
    for g in gids {
        w.n('c', cd.get(GlyphId16::new(*g as u16)) as i64);
    }
    let c = cd.iter().take(3000).map(|(g, c)| {
        w.put(&g.to_u16().to_le_bytes());
        w.put(&c.to_le_bytes());
    });
    let c = c.count();
    w.n('I', c as i64);
    w.n('p', cd.population() as i64);
}

fn coverage(w: &mut Walker, cov: &CoverageTable, gids: &[u32]) {
    for g in gids {
        w.n('c', cov.get(GlyphId::new(*g)).map(|v| v as i64).unwrap_or(-1));
    }
    let c = cov.iter().take(3000).map(|g| w.put(&g.to_u16().to_le_bytes())).count();
    w.n('I', c as i64);
    let pop = match cov {
        CoverageTable::Format1(t) => t.population(),
        CoverageTable::Format2(t) => t.population(),
    };
    w.n('p', pop as i64);
}

fn bitmaps<'a>(w: &mut Walker, sizes: &[BitmapSize], offset_data: FontData<'a>, gids: &[u32], data: &dyn Fn(&BitmapLocation) -> Result<BitmapData<'a>, ReadError>) {
    for size in sizes.iter().take(8) {
        let start = size.start_glyph_index().to_u16() as u32;
        let end = size.end_glyph_index().to_u16() as u32;
        for g in gids.iter().copied().chain([start, start + 1, (start + end) / 2, end, end + 1]) {
            match size.location(offset_data, GlyphId::new(g)) {
                Ok(loc) => {
                    w.n('f', loc.format as i64);
                    w.n('o', loc.data_offset as i64);
                    w.n('z', loc.data_size as i64);
                    w.n('e', loc.is_empty() as i64);
                    w.st.add("hand.bitmap-locations", 1);
                    match data(&loc) {
                        Ok(d) => match d.content {
                            BitmapContent::Data(_, b) => {
                                w.n('l', b.len() as i64);
                                w.st.add("hand.bitmap-data", 1);
                            }
                            BitmapContent::Composite(c) => w.n('k', c.len() as i64),
                        },
                        Err(e) => w.err("hand.bitmap-data-err", &e),
                    }
                }
                Err(e) => w.s(&re_str(&e)),
            }
        }
    }
}

fn dict(w: &mut Walker, data: &[u8]) {
    let (mut ok, mut bad) = (0u64, 0u64);
    for t in ps_dict::tokens(data).take(1000) {
        match t {
            Ok(ps_dict::Token::Operator(_)) => {
                w.put(&[1]);
                ok += 1
            }
            Ok(ps_dict::Token::Operand(_)) => {
                w.put(&[2]);
                ok += 1
            }
            Err(e) => {
                w.s(&ps_err(&e));
                bad += 1
            }
        }
    }
    for e in ps_dict::entries(data, None).take(1000) {
        match e {
            Ok(entry) => w.s(&ps_err(&entry)),
            Err(e) => {
                w.s(&ps_err(&e));
                bad += 1
            }
        }
    }
    w.st.add("hand.cff-dict-tokens", ok);
    w.st.add("hand.cff-dict-errors", bad);
}

/// Lookup-style accessors of the remaining tables.
fn hand_more(w: &mut Walker, font: &FontRef) {
    w.s("more!");
    let ng = font.maxp().map(|m| m.num_glyphs() as u32).unwrap_or(0);
    let gids = [0u32, 1, 2, 3, ng / 2, ng.wrapping_sub(1), ng, 0xffff, 0x10000, u32::MAX];
    let axis_count = font.fvar().map(|f| f.axis_count()).unwrap_or(0) as usize;
    let ac = axis_count.min(64);
    let coord_sets: Vec<Vec<F2Dot14>> = vec![
        vec![],
        vec![F2Dot14::from_bits(0x4000); ac],
        vec![F2Dot14::from_bits(-0x4000); ac],
        vec![F2Dot14::from_bits(0x2000); ac + 1],
        vec![F2Dot14::from_bits(i16::MIN); ac.max(1)],
        vec![F2Dot14::from_bits(i16::MAX); ac.max(1)],
    ];
    if let Ok(hvar) = font.hvar() {
        w.s("hvar");
        for g in gids {
            for c in &coord_sets {
                fx(w, hvar.advance_width_delta(GlyphId::new(g), c));
                fx(w, hvar.lsb_delta(GlyphId::new(g), c));
                fx(w, hvar.rsb_delta(GlyphId::new(g), c));
            }
        }
        w.st.add("hand.hvar", 1);
    }
    if let Ok(vvar) = font.vvar() {
        w.s("vvar");
        for g in gids {
            for c in &coord_sets {
                fx(w, vvar.advance_height_delta(GlyphId::new(g), c));
                fx(w, vvar.tsb_delta(GlyphId::new(g), c));
                fx(w, vvar.bsb_delta(GlyphId::new(g), c));
                fx(w, vvar.v_org_delta(GlyphId::new(g), c));
            }
        }
        w.st.add("hand.vvar", 1);
    }
    if let Ok(mvar) = font.mvar() {
        w.s("mvar");
        let mut tags: Vec<Tag> = mvar.value_records().iter().take(16).map(|r| r.value_tag()).collect();
        tags.push(Tag::new(b"zzzz"));
        tags.push(Tag::new(b"    "));
        for t in tags {
            for c in &coord_sets {
                fx(w, mvar.metric_delta(t, c));
            }
        }
        w.st.add("hand.mvar", 1);
    }
    let avar = font.avar().ok();
    if let Some(avar) = &avar {
        w.s("avar");
        for m in avar.axis_segment_maps().iter().take(32) {
            match m {
                Ok(m) => {
                    for c in [i32::MIN, -0x20000, -0x10000, -0x8000, -1, 0, 1, 0x8000, 0x10000, 0x20000, i32::MAX] {
                        w.n('X', m.apply(Fixed::from_bits(c)).to_bits() as i64);
                    }
                }
                Err(e) => w.err("hand.avar-segmap-err", &e),
            }
        }
        w.st.add("hand.avar", 1);
    }
    if let Ok(fvar) = font.fvar() {
        w.s("fvar");
        match fvar.axes() {
            Ok(axes) => {
                let mut out = vec![F2Dot14::default(); axes.len().min(64) + 1];
                for v in [i32::MIN, -0x10000, 0, 400 << 16, 1000 << 16, i32::MAX] {
                    let user: Vec<(Tag, Fixed)> = axes.iter().take(64).map(|a| (a.axis_tag(), Fixed::from_bits(v))).collect();
                    fvar.user_to_normalized(avar.as_ref(), user, &mut out);
                    for o in &out {
                        w.put(&o.to_bits().to_le_bytes());
                    }
                }
                for a in axes.iter().take(64) {
                    for v in [i32::MIN, 0, i32::MAX] {
                        w.n('X', a.normalize(Fixed::from_bits(v)).to_bits() as i64);
                    }
                }
                w.st.add("hand.fvar-normalize", 1);
            }
            Err(e) => w.err("hand.fvar-axes-err", &e),
        }
    }
    if let Ok(colr) = font.colr() {
        w.s("colr");
        for g in gids {
            match colr.v0_base_glyph(GlyphId::new(g)) {
                Ok(Some(r)) => {
                    w.n('s', r.start as i64);
                    w.n('e', r.end as i64);
                    for i in r.take(16) {
                        match colr.v0_layer(i) {
                            Ok((g, p)) => {
                                w.n('G', g.to_u16() as i64);
                                w.n('p', p as i64);
                            }
                            Err(e) => w.s(&re_str(&e)),
                        }
                    }
                }
                Ok(None) => w.s("-"),
                Err(e) => w.s(&re_str(&e)),
            }
            match colr.v1_base_glyph(GlyphId::new(g)) {
                Ok(Some((paint, _id))) => {
                    walk_small(w, &paint, 400);
                    w.st.add("hand.colr-v1-base-glyphs", 1);
                }
                Ok(None) => w.s("-"),
                Err(e) => w.s(&re_str(&e)),
            }
            match colr.v1_clip_box(GlyphId::new(g)) {
                Ok(Some(cb)) => walk_small(w, &cb, 50),
                Ok(None) => w.s("-"),
                Err(e) => w.s(&re_str(&e)),
            }
        }
        for i in [0usize, 1, 2, 0xffff, usize::MAX / 2] {
            match colr.v1_layer(i) {
                Ok((paint, _)) => walk_small(w, &paint, 100),
                Err(e) => w.s(&re_str(&e)),
            }
            match colr.v0_layer(i) {
                Ok((g, p)) => {
                    w.n('G', g.to_u16() as i64);
                    w.n('p', p as i64);
                }
                Err(e) => w.s(&re_str(&e)),
            }
        }
    }
    if let (Ok(loc), Ok(dat)) = (font.cblc(), font.cbdt()) {
        w.s("cblc");
        bitmaps(w, loc.bitmap_sizes(), loc.offset_data(), &gids, &|l| dat.data(l));
    }
    if let (Ok(loc), Ok(dat)) = (font.eblc(), font.ebdt()) {
        w.s("eblc");
        bitmaps(w, loc.bitmap_sizes(), loc.offset_data(), &gids, &|l| dat.data(l));
    }
    if let Ok(sbix) = font.sbix() {
        w.s("sbix");
        for strike in sbix.strikes().iter().take(8) {
            match strike {
                Ok(st) => {
                    for g in gids {
                        match st.glyph_data(GlyphId::new(g)) {
                            Ok(Some(gd)) => {
                                w.n('l', gd.data().len() as i64);
                                w.n('t', u32::from_be_bytes(gd.graphic_type().to_be_bytes()) as i64);
                                w.st.add("hand.sbix-glyph-data", 1);
                            }
                            Ok(None) => w.s("-"),
                            Err(e) => w.s(&re_str(&e)),
                        }
                    }
                }
                Err(e) => w.err("hand.sbix-strike-err", &e),
            }
        }
    }
    if let Ok(svg) = font.svg() {
        w.s("svg");
        for g in gids {
            match svg.glyph_data(GlyphId::new(g)) {
                Ok(Some(b)) => w.n('l', b.len() as i64),
                Ok(None) => w.s("-"),
                Err(e) => w.s(&re_str(&e)),
            }
        }
    }
    if let Ok(vorg) = font.vorg() {
        w.s("vorg");
        for g in gids {
            w.n('y', vorg.vertical_origin_y(GlyphId::new(g)) as i64);
        }
    }
    if let Ok(hdmx) = font.hdmx() {
        w.s("hdmx");
        for sz in [0u8, 1, 8, 11, 12, 16, 24, 255] {
            match hdmx.record_for_size(sz) {
                Some(r) => {
                    w.n('p', r.pixel_size() as i64);
                    w.n('m', r.max_width() as i64);
                    w.n('l', r.widths().len() as i64);
                }
                None => w.s("-"),
            }
        }
    }
    if let Ok(varc) = font.varc() {
        w.s("varc");
        let mut comps = 0u64;
        for nth in (0..24usize).chain([0xffff, usize::MAX / 2]) {
            match varc.glyph(nth) {
                Ok(g) => {
                    for c in g.components().take(256) {
                        match c {
                            Ok(_) => {
                                w.put(&[1]);
                                comps += 1;
                            }
                            Err(e) => {
                                w.err("hand.varc-component-err", &e);
                                break;
                            }
                        }
                    }
                }
                Err(e) => w.s(&re_str(&e)),
            }
            if nth < 8 {
                match varc.axis_indices(nth) {
                    Ok(d) => {
                        let c = d.iter().take(2000).map(|v| w.put(&v.to_le_bytes())).count();
                        w.n('I', c as i64);
                    }
                    Err(e) => w.s(&re_str(&e)),
                }
            }
        }
        if let Some(Ok(cov)) = varc.coverage().ok().map(Ok::<_, ReadError>) {
            coverage(w, &cov, &gids);
        }
        w.st.add("hand.varc-components", comps);
    }
    if let Ok(cff) = font.cff() {
        w.s("cffdict");
        for i in 0..2usize {
            if let Ok(d) = cff.top_dicts().get(i) {
                dict(w, d);
            }
        }
    }
    if let Ok(cff2) = font.cff2() {
        w.s("cff2dict");
        dict(w, cff2.top_dict_data());
    }
    if let Ok(gdef) = font.gdef() {
        w.s("gdef");
        for cd in [gdef.glyph_class_def(), gdef.mark_attach_class_def()] {
            match cd {
                Some(Ok(cd)) => {
                    class_def(w, &cd, &gids);
                    w.st.add("hand.gdef-classdefs", 1);
                }
                Some(Err(e)) => w.s(&re_str(&e)),
                None => w.s("-"),
            }
        }
        if let Some(Ok(al)) = gdef.attach_list() {
            match al.coverage() {
                Ok(cov) => coverage(w, &cov, &gids),
                Err(e) => w.s(&re_str(&e)),
            }
        }
        if let Some(Ok(lc)) = gdef.lig_caret_list() {
            match lc.coverage() {
                Ok(cov) => coverage(w, &cov, &gids),
                Err(e) => w.s(&re_str(&e)),
            }
        }
        if let Some(Ok(mgs)) = gdef.mark_glyph_sets_def() {
            for cov in mgs.coverages().iter().take(16) {
                match cov {
                    Ok(cov) => coverage(w, &cov, &gids),
                    Err(e) => w.s(&re_str(&e)),
                }
            }
        }
    }
}

/// The whole observation of one byte string.
fn observe(bytes: &[u8], budget: u64, scalar_cap: usize, log: bool) -> Obs {
    observe_with(bytes, budget, scalar_cap, log, false).0
}

fn observe_with(bytes: &[u8], budget: u64, scalar_cap: usize, log: bool, timing: bool) -> (Obs, Vec<(String, u64, u64)>) {
    let mut w = Walker::new(budget, scalar_cap, log);
    if timing {
        w.timing = Some(vec![]);
    }
    w.n('n', bytes.len() as i64);

    // FileRef + fonts()
    w.s("FileRef");
    match FileRef::new(bytes) {
        Ok(f) => {
            let is_coll = matches!(f, FileRef::Collection(_));
            w.st.add(if is_coll { "fileref.new:Collection" } else { "fileref.new:Font" }, 1);
            w.n('c', is_coll as i64);
            let nfonts = match &f {
                FileRef::Collection(c) => c.len().min(4).max(1) as u64,
                _ => 1,
            };
            let mut walked = 0u64;
            let (mut ok, mut bad) = (0u64, 0u64);
            for (i, r) in f.fonts().enumerate() {
                if i >= 20_000 {
                    w.s("<fonts-cap>");
                    break;
                }
                match r {
                    Ok(font) => {
                        ok += 1;
                        if is_coll && walked < 4 {
                            walked += 1;
                            observe_font(&mut w, &font, budget / nfonts);
                            w.st.add("fonts.walked:collection-member", 1);
                        } else {
                            font_summary(&mut w, &font);
                        }
                    }
                    Err(e) => {
                        bad += 1;
                        w.err("fileref.fonts-err", &e);
                    }
                }
            }
            w.n('k', ok as i64);
            w.n('K', bad as i64);
            w.st.add("fileref.fonts:ok", ok);
        }
        Err(e) => {
            w.st.add(&format!("fileref.new:err:{}", re_kind(&e)), 1);
            w.s(&re_str(&e));
        }
    }

    // FontRef::new
    w.s("FontRef");
    match FontRef::new(bytes) {
        Ok(font) => {
            w.st.add("fontref.new:Ok", 1);
            observe_font(&mut w, &font, budget);
            w.st.add("fonts.walked:fontref", 1);
        }
        Err(e) => {
            w.st.add(&format!("fontref.new:err:{}", re_kind(&e)), 1);
            w.s(&re_str(&e));
        }
    }

    // CollectionRef
    w.s("CollectionRef");
    match CollectionRef::new(bytes) {
        Ok(c) => {
            w.st.add("collectionref.new:Ok", 1);
            let len = c.len();
            w.n('L', len as i64);
            w.n('E', c.is_empty() as i64);
            for i in (0..len.min(4)).chain([len, len.wrapping_add(1), u32::MAX]) {
                match c.get(i) {
                    Ok(font) => {
                        font_summary(&mut w, &font);
                        w.st.add("collectionref.get:Ok", 1);
                    }
                    Err(e) => w.err("collectionref.get-err", &e),
                }
            }
        }
        Err(e) => {
            w.st.add(&format!("collectionref.new:err:{}", re_kind(&e)), 1);
            w.s(&re_str(&e));
        }
    }

    // FontRef::from_index
    for idx in [0u32, 1, 2, u32::MAX] {
        match FontRef::from_index(bytes, idx) {
            Ok(font) => font_summary(&mut w, &font),
            Err(e) => w.s(&re_str(&e)),
        }
    }

    w.st.add("walk.nodes", w.nodes);
    let timing = w.timing.take().unwrap_or_default();
    (Obs { hash: w.h, nodes: w.nodes, st: w.st, log: w.log }, timing)
}

// ---------------------------------------------------------------------------------------------
// variants

#[derive(Clone)]
enum Mutation {
    None,
    Trunc(usize),
    Set16(usize, u16),
    Set32(usize, u32),
    Flip(Vec<(usize, u8)>),
}

impl Mutation {
    fn desc(&self) -> String {
        match self {
            Mutation::None => "none".into(),
            Mutation::Trunc(n) => format!("trunc@{n}"),
            Mutation::Set16(o, v) => format!("set16@{o:#x}={v:#x}"),
            Mutation::Set32(o, v) => format!("set32@{o:#x}={v:#x}"),
            Mutation::Flip(fs) => {
                let items: Vec<String> = fs.iter().map(|(o, v)| format!("({o},{v})")).collect();
                format!("flip[{}]", items.join(","))
            }
        }
    }

    /// Write the mutated bytes into `out[..]`, returning the new length.
    fn apply(&self, base: &[u8], out: &mut Vec<u8>) {
        out.clear();
        match self {
            Mutation::None => out.extend_from_slice(base),
            Mutation::Trunc(n) => out.extend_from_slice(&base[..(*n).min(base.len())]),
            Mutation::Set16(o, v) => {
                out.extend_from_slice(base);
                out[*o..*o + 2].copy_from_slice(&v.to_be_bytes());
            }
            Mutation::Set32(o, v) => {
                out.extend_from_slice(base);
                out[*o..*o + 4].copy_from_slice(&v.to_be_bytes());
            }
            Mutation::Flip(fs) => {
                out.extend_from_slice(base);
                for (o, v) in fs {
                    out[*o] = *v;
                }
            }
        }
    }
}

struct Base {
    name: String,
    bytes: Vec<u8>,
    /// for a TTC: positions of the embedded sfnt directories
    ttc_dirs: Vec<usize>,
}

fn be16(b: &[u8], o: usize) -> Option<u16> {
    b.get(o..o + 2).map(|s| u16::from_be_bytes([s[0], s[1]]))
}
fn be32(b: &[u8], o: usize) -> Option<u32> {
    b.get(o..o + 4).map(|s| u32::from_be_bytes([s[0], s[1], s[2], s[3]]))
}

/// (record position, table offset, table length) of the sfnt directory at `dir`.
fn dir_records(b: &[u8], dir: usize) -> Vec<(usize, u32, u32)> {
    let n = be16(b, dir + 4).unwrap_or(0) as usize;
    let mut v = vec![];
    for i in 0..n {
        let r = dir + 12 + 16 * i;
        match (be32(b, r + 8), be32(b, r + 12)) {
            (Some(o), Some(l)) => v.push((r, o, l)),
            _ => break,
        }
    }
    v
}

fn build_ttc(a: &[u8], b: &[u8]) -> (Vec<u8>, Vec<usize>) {
    let mut out: Vec<u8> = vec![];
    out.extend_from_slice(b"ttcf");
    out.extend_from_slice(&1u16.to_be_bytes());
    out.extend_from_slice(&0u16.to_be_bytes());
    out.extend_from_slice(&2u32.to_be_bytes());
    out.extend_from_slice(&[0; 8]);
    let mut dirs = vec![];
    for (i, f) in [a, b].into_iter().enumerate() {
        while out.len() % 4 != 0 {
            out.push(0);
        }
        let pos = out.len();
        dirs.push(pos);
        out[12 + 4 * i..16 + 4 * i].copy_from_slice(&(pos as u32).to_be_bytes());
        out.extend_from_slice(f);
        for (r, o, _) in dir_records(f, 0) {
            let no = o.wrapping_add(pos as u32);
            out[pos + r + 8..pos + r + 12].copy_from_slice(&no.to_be_bytes());
        }
    }
    (out, dirs)
}

type Variant = (&'static str, Mutation);

fn sample<T>(rng: &mut Rng, mut v: Vec<T>, cap: usize) -> Vec<T> {
    if v.len() > cap {
        // keep order of the survivors: choose indices, then filter
        let mut idx: Vec<usize> = (0..v.len()).collect();
        rng.shuffle(&mut idx);
        idx.truncate(cap);
        idx.sort();
        let mut keep = vec![false; v.len()];
        for i in idx {
            keep[i] = true;
        }
        let mut k = 0;
        v.retain(|_| {
            k += 1;
            keep[k - 1]
        });
    }
    v
}

struct Caps {
    trunc: usize,
    dir: usize,
    body: usize,
    flips: usize,
    ttc: usize,
}

fn flip_variants(b: &[u8], recs: &[(usize, u32, u32)], rng: &mut Rng, n: usize, class: &'static str, out: &mut Vec<Variant>) {
    let len = b.len();
    if len == 0 {
        return;
    }
    for _ in 0..n {
        let k = rng.range(1, 8) as usize;
        // half of the variants: all flips inside one table (chosen uniformly by table, not by size)
        let region: Option<(usize, usize)> = if !recs.is_empty() && rng.chance(1, 2) {
            let (_, o, l) = *rng.pick(recs);
            let (o, l) = (o as usize, l as usize);
            if o < len && l > 0 {
                Some((o, l.min(len - o)))
            } else {
                None
            }
        } else {
            None
        };
        let mut fs = vec![];
        for _ in 0..k {
            let off = match region {
                Some((o, l)) => {
                    // bias to the head of the table, where the counts and offsets are
                    if rng.chance(1, 2) {
                        o + rng.below(l.min(64) as u64) as usize
                    } else {
                        o + rng.below(l as u64) as usize
                    }
                }
                None => rng.below(len as u64) as usize,
            };
            let orig = b[off];
            let val = match rng.below(8) {
                0 => 0,
                1 => 0xff,
                2 => 0x7f,
                3 => 0x80,
                4 => orig.wrapping_add(1),
                5 => orig.wrapping_sub(1),
                6 => 1,
                _ => rng.next() as u8,
            };
            fs.push((off, val));
        }
        out.push((class, Mutation::Flip(fs)));
    }
}

fn sfnt_variants(base: &Base, rng: &mut Rng, caps: &Caps) -> Vec<Variant> {
    let b = &base.bytes;
    let len = b.len();
    let mut out: Vec<Variant> = vec![("unmodified", Mutation::None)];
    let recs = dir_records(b, 0);
    let n = recs.len();

    // 2. truncations
    let mut hdr: Vec<usize> = vec![0, 1, 4, 5, 6, 11, 12];
    for k in 1..=n {
        hdr.push(12 + 16 * k - 1);
        hdr.push(12 + 16 * k);
    }
    hdr.push(12 + 16 * n + 1);
    let mut bnd: Vec<usize> = vec![len.saturating_sub(1)];
    for (_, o, l) in &recs {
        let (o, e) = (*o as usize, (*o as usize).saturating_add(*l as usize));
        for p in [o.wrapping_sub(1), o, o + 1, e.wrapping_sub(1), e, e + 1] {
            bnd.push(p);
        }
    }
    for v in [&mut hdr, &mut bnd] {
        v.retain(|p| *p < len);
        v.sort();
        v.dedup();
    }
    bnd.retain(|p| !hdr.contains(p));
    let hdr = sample(rng, hdr, caps.trunc / 2);
    let bnd = sample(rng, bnd, caps.trunc);
    out.extend(hdr.into_iter().map(|p| ("trunc.header", Mutation::Trunc(p))));
    out.extend(bnd.into_iter().map(|p| ("trunc.table-boundary", Mutation::Trunc(p))));

    // 3a. header fields
    if len >= 12 {
        let nt = n as u16;
        let mut vals = vec![0u16, 1, nt.wrapping_sub(1), nt.wrapping_add(1), 0xffff];
        vals.retain(|v| *v != nt);
        vals.dedup();
        out.extend(vals.into_iter().map(|v| ("dir.numTables", Mutation::Set16(4, v))));
        for v in [0u32, 0x0001_0000, 0x4f54_544f, 0x7472_7565, 0x7474_6366, 0xffff_ffff] {
            if be32(b, 0) != Some(v) {
                out.push(("dir.sfntVersion", Mutation::Set32(0, v)));
            }
        }
    }
    // 3b. table records: offset, length, tag
    let l32 = len as u32;
    let mut dirm: Vec<Variant> = vec![];
    for (i, (r, o, l)) in recs.iter().enumerate() {
        for (class, pos, orig) in [("dir.offset", r + 8, *o), ("dir.length", r + 12, *l)] {
            let mut vals = vec![
                0,
                1,
                l32.wrapping_sub(1),
                l32,
                l32.wrapping_add(1),
                0x7fff_ffff,
                0xffff_ffff,
                orig.wrapping_sub(1),
                orig.wrapping_add(1),
            ];
            if class == "dir.length" {
                // exactly to the end of the file, and one past
                vals.push(l32.wrapping_sub(*o));
                vals.push(l32.wrapping_sub(*o).wrapping_add(1));
                vals.push(0u32.wrapping_sub(*o)); // offset + length wraps to 0
            }
            vals.sort();
            vals.dedup();
            vals.retain(|v| *v != orig);
            dirm.extend(vals.into_iter().map(|v| (class, Mutation::Set32(pos, v))));
        }
        // type confusion: this record takes the tag of a neighbour (directory stays sorted)
        if i + 1 < n {
            dirm.push(("dir.tag", Mutation::Set32(*r, be32(b, recs[i + 1].0).unwrap_or(0))));
        }
        if i > 0 {
            dirm.push(("dir.tag", Mutation::Set32(*r, be32(b, recs[i - 1].0).unwrap_or(0))));
        }
    }
    out.extend(sample(rng, dirm, caps.dir));

    // 3c. first words of each table body
    let mut body: Vec<Variant> = vec![];
    for (_, o, l) in &recs {
        let (o, l) = (*o as usize, *l as usize);
        if o >= len {
            continue;
        }
        let l = l.min(len - o).min(32);
        for w in 0..l / 2 {
            let pos = o + 2 * w;
            let orig = be16(b, pos).unwrap();
            let mut vals = vec![0u16, 1, 0x7fff, 0x8000, 0xffff, orig.wrapping_sub(1), orig.wrapping_add(1)];
            vals.sort();
            vals.dedup();
            vals.retain(|v| *v != orig);
            body.extend(vals.into_iter().map(|v| ("body.u16", Mutation::Set16(pos, v))));
        }
        for w in 0..l / 4 {
            let pos = o + 4 * w;
            let orig = be32(b, pos).unwrap();
            let mut vals = vec![
                0u32,
                1,
                0xffff,
                0x0001_0000,
                0x7fff_ffff,
                0x8000_0000,
                0xffff_ffff,
                orig.wrapping_sub(1),
                orig.wrapping_add(1),
                (l as u32).wrapping_sub(1),
            ];
            vals.sort();
            vals.dedup();
            vals.retain(|v| *v != orig);
            body.extend(vals.into_iter().map(|v| ("body.u32", Mutation::Set32(pos, v))));
        }
    }
    out.extend(sample(rng, body, caps.body));

    // 4. random byte flips
    flip_variants(b, &recs, rng, caps.flips, "flip", &mut out);
    out
}

fn ttc_variants(base: &Base, rng: &mut Rng, caps: &Caps) -> Vec<Variant> {
    let b = &base.bytes;
    let len = b.len();
    let l32 = len as u32;
    let mut out: Vec<Variant> = vec![("ttc.unmodified", Mutation::None)];
    let nf = base.ttc_dirs.len();
    let hdr_end = 12 + 4 * nf;
    let mut tr: Vec<usize> = vec![0, 1, 3, 4, 7, 8, 11, 12, 13, 15, 16, hdr_end - 1, hdr_end, hdr_end + 1, len - 1];
    for d in &base.ttc_dirs {
        let nt = be16(b, d + 4).unwrap_or(0) as usize;
        for p in [d.wrapping_sub(1), *d, d + 1, d + 4, d + 11, d + 12, d + 12 + 16 * nt - 1, d + 12 + 16 * nt, d + 12 + 16 * nt + 1] {
            tr.push(p);
        }
    }
    tr.retain(|p| *p < len);
    tr.sort();
    tr.dedup();
    out.extend(tr.into_iter().map(|p| ("ttc.trunc", Mutation::Trunc(p))));

    let mut m: Vec<Variant> = vec![];
    for v in [0u32, 1, 3, 4, 0xffff, 0x7fff_ffff, 0xffff_ffff, (l32 - 12) / 4, (l32 - 12) / 4 + 1, (l32 - 12) / 4 - 1] {
        m.push(("ttc.numFonts", Mutation::Set32(8, v)));
    }
    for v in [0u32, 0x0002_0000, 0x0001_0001, 0xffff_ffff] {
        m.push(("ttc.version", Mutation::Set32(4, v)));
    }
    for v in [0u32, 0x0001_0000, 0x4f54_544f, 0x7474_6367] {
        m.push(("ttc.tag", Mutation::Set32(0, v)));
    }
    for (i, d) in base.ttc_dirs.iter().enumerate() {
        let orig = *d as u32;
        let other = base.ttc_dirs[(i + 1) % nf] as u32;
        for v in [0u32, 1, 4, 12, l32 - 1, l32, l32 + 1, l32 - 12, l32 - 11, 0x7fff_ffff, 0xffff_ffff, orig - 1, orig + 1, other] {
            if v != orig {
                m.push(("ttc.dirOffset", Mutation::Set32(12 + 4 * i, v)));
            }
        }
        let nt = be16(b, d + 4).unwrap_or(0);
        for v in [0u16, 1, nt.wrapping_sub(1), nt + 1, 0xffff] {
            if v != nt {
                m.push(("ttc.member.numTables", Mutation::Set16(d + 4, v)));
            }
        }
        for v in [0u32, 0x4f54_544f, 0x7474_6366, 0xffff_ffff] {
            m.push(("ttc.member.sfntVersion", Mutation::Set32(*d, v)));
        }
        let mut recm: Vec<Variant> = vec![];
        for (r, o, l) in dir_records(b, *d) {
            for (pos, origv) in [(r + 8, o), (r + 12, l)] {
                for v in [0u32, 1, l32 - 1, l32, l32 + 1, 0x7fff_ffff, 0xffff_ffff, origv.wrapping_sub(1), origv.wrapping_add(1), origv.wrapping_sub(*d as u32)] {
                    if v != origv {
                        recm.push(("ttc.member.record", Mutation::Set32(pos, v)));
                    }
                }
            }
        }
        m.extend(sample(rng, recm, caps.ttc));
    }
    out.extend(m);
    let mut all_recs = vec![];
    for d in &base.ttc_dirs {
        all_recs.extend(dir_records(b, *d));
    }
    flip_variants(b, &all_recs, rng, caps.flips, "ttc.flip", &mut out);
    // flips confined to the ttc header
    for _ in 0..caps.flips / 2 {
        let k = rng.range(1, 3) as usize;
        let fs = (0..k).map(|_| (rng.below(hdr_end as u64) as usize, *rng.pick(&[0u8, 1, 0x7f, 0x80, 0xff, 2, 4, 16]))).collect();
        out.push(("ttc.flip-header", Mutation::Flip(fs)));
    }
    out
}

// ---------------------------------------------------------------------------------------------
// evaluation

struct Eval {
    hash: u64,
    nodes: u64,
}

type EvalResult = Result<Eval, (String, String)>; // Err((message, site))

fn eval_once(bytes: &[u8], budget: u64, scalar_cap: usize, stats: Option<&mut Stats>) -> EvalResult {
    PANIC_SITE.with(|s| *s.borrow_mut() = None);
    match catch(|| observe(bytes, budget, scalar_cap, false)) {
        Ok(o) => {
            if let Some(st) = stats {
                st.merge(&o.st);
            }
            Ok(Eval { hash: o.hash, nodes: o.nodes })
        }
        Err(msg) => Err((msg, take_site())),
    }
}

fn eval_str(r: &EvalResult) -> String {
    match r {
        Ok(e) => format!("hash={:016x} nodes={}", e.hash, e.nodes),
        Err((m, site)) => format!("panic at {site}: {m}"),
    }
}

fn same(a: &EvalResult, b: &EvalResult) -> bool {
    match (a, b) {
        (Ok(x), Ok(y)) => x.hash == y.hash && x.nodes == y.nodes,
        (Err(x), Err(y)) => x == y,
        _ => false,
    }
}

/// A copy of `bytes` whose first byte sits at an address ≡ `rem` (mod 8).
struct Placed {
    buf: Vec<u8>,
    off: usize,
    len: usize,
}

impl Placed {
    fn new(bytes: &[u8], rem: usize) -> Self {
        let mut buf = vec![0xAAu8; bytes.len() + 17];
        let a = buf.as_ptr() as usize;
        let off = (8 - a % 8) % 8 + rem;
        buf[off..off + bytes.len()].copy_from_slice(bytes);
        Placed { buf, off, len: bytes.len() }
    }
    fn set(&mut self, bytes: &[u8], rem: usize) {
        if self.buf.len() < bytes.len() + 17 {
            *self = Placed::new(bytes, rem);
            return;
        }
        let a = self.buf.as_ptr() as usize;
        self.off = (8 - a % 8) % 8 + rem;
        self.len = bytes.len();
        self.buf[self.off..self.off + bytes.len()].copy_from_slice(bytes);
    }
    fn get(&self) -> &[u8] {
        &self.buf[self.off..self.off + self.len]
    }
}

struct Job {
    base: usize,
    var: usize,
    class: &'static str,
    mutn: Mutation,
    purity: bool,
}

struct JobResult {
    job: usize,
    eval: EvalResult,
    micros: u64,
    /// Some(detail) if the purity check was run and failed; Some("") never used
    purity: Option<Result<(), String>>,
}

fn first_diff(a: &str, b: &str) -> String {
    let pos = a.bytes().zip(b.bytes()).position(|(x, y)| x != y).unwrap_or(a.len().min(b.len()));
    let ctx = |s: &str| -> String {
        let lo = pos.saturating_sub(60);
        let hi = (pos + 60).min(s.len());
        String::from_utf8_lossy(&s.as_bytes()[lo..hi]).to_string()
    };
    format!("first difference at byte {pos} of the observation stream: «{}» vs «{}»", ctx(a), ctx(b))
}

fn run_job(job: &Job, idx: usize, bases: &[Base], budget: u64, scalar_cap: usize, scratch: &mut Vec<u8>, placed: &mut Placed, stats: &mut Stats) -> JobResult {
    job.mutn.apply(&bases[job.base].bytes, scratch);
    placed.set(scratch, 0);
    let bytes = placed.get();
    debug_assert!(bytes.as_ptr() as usize % 8 == 0);
    let t0 = Instant::now();
    let eval = eval_once(bytes, budget, scalar_cap, Some(stats));
    let mut micros = t0.elapsed().as_micros() as u64;
    // a loaded machine can stall a worker: re-measure before blaming the code
    for _ in 0..2 {
        if micros <= TIME_BOUND.as_micros() as u64 {
            break;
        }
        let t1 = Instant::now();
        let _ = eval_once(bytes, budget, scalar_cap, None);
        micros = micros.min(t1.elapsed().as_micros() as u64);
    }
    let purity = if job.purity {
        let second = eval_once(bytes, budget, scalar_cap, None);
        let third: EvalResult = std::thread::scope(|sc| {
            std::thread::Builder::new()
                .stack_size(16 << 20)
                .spawn_scoped(sc, || {
                    let odd = Placed::new(scratch, 1);
                    debug_assert!(odd.get().as_ptr() as usize % 2 == 1);
                    eval_once(odd.get(), budget, scalar_cap, None)
                })
                .expect("spawn")
                .join()
                .unwrap_or_else(|_| Err(("purity thread died".into(), "?".into())))
        });
        if same(&eval, &second) && same(&eval, &third) {
            Some(Ok(()))
        } else {
            let mut detail = format!(
                "aligned: {} | aligned, 2nd call: {} | odd address, other thread: {}",
                eval_str(&eval),
                eval_str(&second),
                eval_str(&third)
            );
            // try to localise the difference in the full observation stream
            let a = catch(|| observe(bytes, budget, scalar_cap, true)).ok().and_then(|o| o.log);
            let odd = Placed::new(scratch, 1);
            let b = catch(|| observe(odd.get(), budget, scalar_cap, true)).ok().and_then(|o| o.log);
            if let (Some(a), Some(b)) = (a, b) {
                if a != b {
                    detail.push_str(" | ");
                    detail.push_str(&first_diff(&a, &b));
                }
            }
            Some(Err(detail))
        }
    } else {
        None
    };
    JobResult { job: idx, eval, micros, purity }
}

fn describe(base: &Base, m: &Mutation) -> String {
    let mut bytes = vec![];
    m.apply(&base.bytes, &mut bytes);
    let mut d = format!("font={} mutation={} sha={:016x} len={}", base.name, m.desc(), fnv(&bytes), bytes.len());
    if bytes.len() < 2048 {
        d.push_str(" hex=");
        d.push_str(&hex(&bytes));
    }
    d
}

fn parse_num(t: &str) -> Option<u64> {
    match t.strip_prefix("0x") {
        Some(h) => u64::from_str_radix(h, 16).ok(),
        None => t.parse().ok(),
    }
}

fn parse_mutation(m: &str) -> Option<Mutation> {
    if m == "none" {
        return Some(Mutation::None);
    }
    if let Some(n) = m.strip_prefix("trunc@") {
        return Some(Mutation::Trunc(parse_num(n)? as usize));
    }
    for (pre, wide) in [("set16@", false), ("set32@", true)] {
        if let Some(rest) = m.strip_prefix(pre) {
            let (o, v) = rest.split_once('=')?;
            let (o, v) = (parse_num(o)? as usize, parse_num(v)?);
            return Some(if wide { Mutation::Set32(o, v as u32) } else { Mutation::Set16(o, v as u16) });
        }
    }
    let inner = m.strip_prefix("flip[")?.strip_suffix(']')?;
    let mut fs = vec![];
    for item in inner.split("),") {
        let item = item.trim_matches(|c| c == '(' || c == ')');
        let (o, v) = item.split_once(',')?;
        fs.push((parse_num(o)? as usize, parse_num(v)? as u8));
    }
    Some(Mutation::Flip(fs))
}

/// Developer aid: `C01_FILES_REPLAY='font=<name> mutation=<m>' c01_files …` re-runs one input description
/// (anything from ` sha=` on is ignored) and prints outcome, per-phase timing and the observation stream
/// to stderr instead of running the module.
fn replay(spec: &str, bases: &[Base], budget: u64, scalar_cap: usize) {
    let spec = spec.split(" sha=").next().unwrap_or(spec);
    let Some((f, m)) = spec.strip_prefix("font=").and_then(|r| r.split_once(" mutation=")) else {
        eprintln!("replay: cannot parse {spec:?}");
        return;
    };
    let base = match bases.iter().find(|b| b.name == f) {
        Some(b) => Base { name: b.name.clone(), bytes: b.bytes.clone(), ttc_dirs: vec![] },
        None => {
            let parts = f.strip_prefix("ttc[").and_then(|r| r.strip_suffix(']')).and_then(|r| r.split_once('+'));
            let found = parts.and_then(|(a, b)| Some((bases.iter().find(|x| x.name == a)?, bases.iter().find(|x| x.name == b)?)));
            let Some((a, b)) = found else {
                eprintln!("replay: unknown font {f:?}");
                return;
            };
            Base { name: f.to_string(), bytes: build_ttc(&a.bytes, &b.bytes).0, ttc_dirs: vec![] }
        }
    };
    let Some(mutn) = parse_mutation(m.trim()) else {
        eprintln!("replay: cannot parse mutation {m:?}");
        return;
    };
    eprintln!("replay: {}", describe(&base, &mutn).chars().take(400).collect::<String>());
    let mut bytes = vec![];
    mutn.apply(&base.bytes, &mut bytes);
    let placed = Placed::new(&bytes, 0);
    install_hook();
    let t0 = Instant::now();
    let r = catch(|| observe_with(placed.get(), budget, scalar_cap, true, true));
    let el = t0.elapsed();
    match r {
        Ok((o, timing)) => {
            eprintln!("ok: hash={:016x} nodes={} in {} us", o.hash, o.nodes, el.as_micros());
            for (ph, us, n) in timing {
                if us >= 200 {
                    eprintln!("  phase {ph}: {us} us, {n} nodes");
                }
            }
            for (k, v) in &o.st.0 {
                eprintln!("  {k} = {v}");
            }
            if std::env::var("C01_FILES_REPLAY_LOG").is_ok() {
                eprintln!("{}", o.log.unwrap_or_default());
            }
        }
        Err(msg) => eprintln!("PANIC at {}: {msg} (after {} us)", take_site(), el.as_micros()),
    }
}

fn add(s: &mut Session, k: &str, n: u64) {
    *s.dist.entry(k.to_string()).or_insert(0) += n;
}

pub fn run(cfg: &Config, s: &mut Session) {
    let thorough = cfg.thorough();
    let budget: u64 = if thorough { 1_000_000 } else { 50_000 };
    let scalar_cap: usize = if thorough { 1 << 16 } else { 1024 };
    let caps = if thorough {
        Caps { trunc: usize::MAX / 2, dir: usize::MAX, body: usize::MAX, flips: 2000, ttc: usize::MAX }
    } else {
        Caps { trunc: 400, dir: 600, body: 1200, flips: 300, ttc: 120 }
    };

    // corpus
    let mut files: Vec<(String, Vec<u8>)> = match std::fs::read_dir(FONT_DIR) {
        Ok(rd) => rd
            .filter_map(|e| e.ok())
            .filter(|e| e.path().is_file())
            .filter_map(|e| {
                let name = e.file_name().to_string_lossy().to_string();
                std::fs::read(e.path()).ok().map(|b| (name, b))
            })
            .collect(),
        Err(_) => vec![],
    };
    files.sort();
    s.oracle("file.corpus-present", files.len() >= 10, || FONT_DIR.to_string(), || format!("{} files", files.len()));
    if files.is_empty() {
        return;
    }
    add(s, "files.corpus-fonts", files.len() as u64);
    let nfiles = files.len();
    let mut bases: Vec<Base> = files.into_iter().map(|(name, bytes)| Base { name, bytes, ttc_dirs: vec![] }).collect();
    if let Ok(spec) = std::env::var("C01_FILES_REPLAY") {
        replay(&spec, &bases, budget, scalar_cap);
        return;
    }
    // synthetic collections
    let n_ttc = if thorough { 6 } else { 2 };
    for k in 0..n_ttc {
        let (i, j) = ((k * 7 + 3) % nfiles, (k * 11 + 16) % nfiles);
        let (bytes, dirs) = build_ttc(&bases[i].bytes, &bases[j].bytes);
        let name = format!("ttc[{}+{}]", bases[i].name, bases[j].name);
        bases.push(Base { name, bytes, ttc_dirs: dirs });
    }

    // variants (generated on this thread: deterministic for a seed)
    let mut jobs: Vec<Job> = vec![];
    for (bi, base) in bases.iter().enumerate() {
        let mut rng = Rng::new(cfg.seed.wrapping_mul(0x1000_0000_01b3) ^ fnv(base.name.as_bytes()));
        let vars = if base.ttc_dirs.is_empty() { sfnt_variants(base, &mut rng, &caps) } else { ttc_variants(base, &mut rng, &caps) };
        let nv = vars.len();
        // purity sample: the unmodified file + ~40 mutated variants (quick) / everything (thorough)
        let mut pick = vec![thorough; nv];
        if !thorough {
            pick[0] = true;
            for _ in 0..40 {
                pick[rng.below(nv as u64) as usize] = true;
            }
        }
        for (vi, (class, mutn)) in vars.into_iter().enumerate() {
            jobs.push(Job { base: bi, var: vi, class, mutn, purity: pick[vi] });
        }
    }

    // run
    let prev_hook = std::panic::take_hook();
    install_hook();
    // self-test of the panic plumbing: an overflow trap in this profile is caught, with its site
    let probe = catch(|| std::hint::black_box(255u8) + std::hint::black_box(1u8));
    let site = take_site();
    s.oracle(
        "file.harness-selftest.overflow-is-caught",
        matches!(&probe, Err(m) if m.contains("overflow")) && site.contains("files.rs"),
        || "255u8 + 1u8".into(),
        || format!("{probe:?} site={site}"),
    );
    let nthreads = std::thread::available_parallelism().map(|n| n.get()).unwrap_or(8).clamp(2, 16);
    let next = AtomicUsize::new(0);
    let mut results: Vec<JobResult> = Vec::with_capacity(jobs.len());
    let mut stats = Stats::default();
    std::thread::scope(|sc| {
        let mut handles = vec![];
        for _ in 0..nthreads {
            let h = std::thread::Builder::new()
                .stack_size(32 << 20)
                .spawn_scoped(sc, || {
                    let mut local: Vec<JobResult> = vec![];
                    let mut st = Stats::default();
                    let mut scratch: Vec<u8> = vec![];
                    let mut placed = Placed::new(&[], 0);
                    loop {
                        let i = next.fetch_add(1, Ordering::Relaxed);
                        if i >= jobs.len() {
                            break;
                        }
                        local.push(run_job(&jobs[i], i, &bases, budget, scalar_cap, &mut scratch, &mut placed, &mut st));
                    }
                    (local, st)
                })
                .expect("spawn worker");
            handles.push(h);
        }
        for h in handles {
            if let Ok((local, st)) = h.join() {
                results.extend(local);
                stats.merge(&st);
            }
        }
    });
    std::panic::set_hook(prev_hook);
    results.sort_by_key(|r| r.job);
    s.oracle("file.all-variants-evaluated", results.len() == jobs.len(), || "worker pool".into(), || format!("{} of {}", results.len(), jobs.len()));

    // report, in (font, variant) order
    let mut panic_sites: BTreeMap<String, (u64, String)> = BTreeMap::new();
    let mut slowest: Option<(u64, usize)> = None;
    let mut largest: Option<(u64, usize)> = None;
    let mut total_nodes = 0u64;
    for r in &results {
        let job = &jobs[r.job];
        let base = &bases[job.base];
        add(s, &format!("variants:{}", job.class), 1);
        add(s, "variants.total", 1);
        let (name, ok) = match &r.eval {
            Ok(e) => {
                total_nodes += e.nodes;
                let bucket = match e.nodes {
                    0..=9 => "0-9",
                    10..=99 => "10-99",
                    100..=999 => "100-999",
                    1000..=9999 => "1k-10k",
                    10000..=99999 => "10k-100k",
                    _ => "100k+",
                };
                add(s, &format!("nodes-per-variant:{bucket}"), 1);
                if largest.map(|(n, _)| e.nodes > n).unwrap_or(true) {
                    largest = Some((e.nodes, r.job));
                }
                ("file.no-panic", true)
            }
            Err((msg, site)) => {
                add(s, "variants.panicked", 1);
                let key = format!("{site}: {msg}");
                let ent = panic_sites.entry(key).or_insert_with(|| (0, describe(base, &job.mutn)));
                ent.0 += 1;
                if site.contains("tables/glyf.rs") && msg.contains("attempt to add with overflow") {
                    ("file.no-panic.glyf-flag-repeat", false)
                } else {
                    ("file.no-panic", false)
                }
            }
        };
        s.oracle(name, ok, || describe(base, &job.mutn), || eval_str(&r.eval));
        s.oracle(
            "file.time-bounded",
            r.micros <= TIME_BOUND.as_micros() as u64,
            || describe(base, &job.mutn),
            || format!("{} us (bound {} s)", r.micros, TIME_BOUND.as_secs()),
        );
        if slowest.map(|(t, _)| r.micros > t).unwrap_or(true) {
            slowest = Some((r.micros, r.job));
        }
        if let Some(p) = &r.purity {
            add(s, &format!("purity-checked:{}", if job.var == 0 { "unmodified" } else { "mutated" }), 1);
            s.oracle("file.pure", p.is_ok(), || describe(base, &job.mutn), || p.clone().err().unwrap_or_default());
        }
    }
    add(s, "walk.nodes-total", total_nodes);
    for (k, v) in &stats.0 {
        add(s, k, *v);
    }

    let short = |j: usize| {
        let job = &jobs[j];
        format!("font={} mutation={}", bases[job.base].name, job.mutn.desc())
    };
    if let Some((n, j)) = largest {
        s.sample(json!({"files.largest-traversal": {"input": short(j), "nodes": n, "budget": budget}}));
    }
    if !panic_sites.is_empty() {
        let sites: Vec<_> = panic_sites.iter().map(|(k, (n, d))| json!({"site": k, "count": n, "first_input": d})).collect();
        s.sample(json!({"files.panic-sites": sites}));
    }
    if let Some((t, j)) = slowest {
        // wall-clock dependent: the only non-reproducible part of this module's output
        s.sample(json!({"files.slowest-variant (timing, not reproducible)": {"input": short(j), "ms": t / 1000}}));
    }
}
