//! `Debug` output of tables (read-fonts/src/traversal.rs, feature experimental_traverse) follows
//! resolved offsets recursively.  Offsets nested one level per 4 bytes (a chain of COLR
//! PaintTranslate tables that overlap their children) and offsets that share a target (PaintComposite
//! whose source and backdrop are the same table: 2^depth paths) must neither overflow the stack nor
//! take exponential time: oracles no-crash / time-bounded of the child process, plus an output-size
//! bound.
use super::*;
use read_fonts::tables::colr::Paint;
use read_fonts::{FontData, FontRead};

/// `levels` PaintTranslate tables, each pointing 4 bytes ahead, ending in a PaintSolid
fn translate_chain(levels: usize) -> Vec<u8> {
    let mut v = Vec::with_capacity(levels * 4 + 16);
    for _ in 0..levels {
        v.extend_from_slice(&[14, 0, 0, 4]);
    }
    v.extend_from_slice(&[2, 0, 0, 0x40, 0, 0, 0, 0]);
    v
}

/// `levels` PaintComposite tables (format 32: source Offset24, mode u8, backdrop Offset24 = 8 bytes)
/// whose two offsets both point at the next one
fn composite_dag(levels: usize) -> Vec<u8> {
    let mut v = Vec::with_capacity(levels * 8 + 16);
    for _ in 0..levels {
        v.extend_from_slice(&[32, 0, 0, 8, 3, 0, 0, 8]);
    }
    v.extend_from_slice(&[2, 0, 0, 0x40, 0, 0, 0, 0]);
    v
}

fn debug_walk(bytes: &[u8], o: &mut Obs) {
    let Ok(paint) = Paint::read(FontData::new(bytes)) else {
        o.note(0);
        return;
    };
    let s = format!("{paint:?}");
    o.note(s.len() as u64);
    // the printer stops after 2^20 tables / arrays per call (a constant budget, /repo fix c0ce1f2):
    // at most a few hundred bytes each
    if s.len() > 256 * 1024 * 1024 {
        o.over = Some(format!("Debug output of {} bytes for {} bytes of input", s.len(), bytes.len()));
    }
}

pub fn run(ctx: &mut Ctx) {
    // run on a thread with a fixed, modest stack so that the outcome does not depend on `ulimit -s`
    let mut cases: Vec<(String, Vec<u8>)> = vec![];
    for levels in [1usize, 8, 63, 64, 65, 200, 5000, 200_000] {
        cases.push((format!("debug translate-chain levels={levels}"), translate_chain(levels)));
    }
    for levels in [1usize, 4, 12, 20, 40, 70] {
        cases.push((format!("debug composite-dag levels={levels}"), composite_dag(levels)));
    }
    for (what, bytes) in cases {
        let short = if bytes.len() > 64 { bytes[..64].to_vec() } else { bytes.clone() };
        // the recorded input is the generator parameters + the first bytes (the full chains are large)
        PROGRESS.fetch_add(1, Ordering::Relaxed);
        {
            let mut cur = CURRENT.lock().unwrap();
            cur.0 = what.clone();
            cur.1 = short.clone();
        }
        if let Some(t) = TRACE.lock().unwrap().as_mut() {
            use std::io::Write;
            let _ = writeln!(t, "{} {}", what, hex(&short));
            let _ = t.flush();
        }
        let b2 = bytes.clone();
        let h = std::thread::Builder::new().stack_size(2 << 20).spawn(move || {
            let mut o = Obs::new();
            let r = catch(|| debug_walk(&b2, &mut o));
            (r, o.over, o.digest)
        });
        let res = h.expect("spawn").join();
        match res {
            Ok((Ok(()), over, _)) => {
                ctx.oracle("no-panic", true, String::new, String::new);
                ctx.oracle("iter-bounded", over.is_none(), || what.clone(), || over.clone().unwrap_or_default());
            }
            Ok((Err(m), _, _)) => ctx.oracle("no-panic", false, || what.clone(), || m.clone()),
            Err(_) => ctx.oracle("no-panic", false, || what.clone(), || "thread died".into()),
        }
        ctx.count("cases");
    }
}
