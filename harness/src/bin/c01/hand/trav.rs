//! `Debug` output of tables (read-fonts/src/traversal.rs, feature experimental_traverse) follows
//! resolved offsets recursively.  Offsets nested one level per 4 bytes (a chain of COLR
//! PaintTranslate tables that overlap their children) and offsets that share a target (PaintComposite
//! whose source and backdrop are the same table: 2^depth paths) must neither overflow the stack nor
//! take exponential time: oracles no-crash / time-bounded of the child process, plus an output-size
//! bound.
use super::*;
use read_fonts::array::ComputedArray;
use read_fonts::tables::colr::Paint;
use read_fonts::tables::gpos::{MarkBasePosFormat1, PairPosFormat2, SinglePosFormat2, ValueRecord};
use read_fonts::tables::gvar::Gvar;
use read_fonts::tables::hdmx::Hdmx;
use read_fonts::tables::variations::{ItemVariationStore, Tuple};
use read_fonts::traversal::SomeTable;
use read_fonts::{FontData, FontRead, FontReadWithArgs};

/// `levels` PaintTranslate tables, each pointing 4 bytes ahead, ending in a PaintSolid
fn translate_chain(levels: usize) -> Vec<u8> {
    let mut v = Vec::with_capacity(levels * 4 + 16);
    for _ in 0..levels {
        v.extend_from_slice(&[14, 0, 0, 4]);
    }
    v.extend_from_slice(&[2, 0, 0, 0x40, 0, 0, 0, 0]);
    v
}

/// `levels` PaintComposite tables (format 32: source Offset24, mode u8, backdrop Offset24 = 8 bytes)
/// whose two offsets both point at the next one
fn composite_dag(levels: usize) -> Vec<u8> {
    let mut v = Vec::with_capacity(levels * 8 + 16);
    for _ in 0..levels {
        v.extend_from_slice(&[32, 0, 0, 8, 3, 0, 0, 8]);
    }
    v.extend_from_slice(&[2, 0, 0, 0x40, 0, 0, 0, 0]);
    v
}

fn debug_walk(bytes: &[u8], o: &mut Obs) {
    let Ok(paint) = Paint::read(FontData::new(bytes)) else {
        o.note(0);
        return;
    };
    let s = format!("{paint:?}");
    o.note(s.len() as u64);
    // the printer stops after 2^20 tables / arrays per call (a constant budget, /repo fix c0ce1f2):
    // at most a few hundred bytes each
    if s.len() > 256 * 1024 * 1024 {
        o.over = Some(format!("Debug output of {} bytes for {} bytes of input", s.len(), bytes.len()));
    }
}

// ------------------------------------------------------------------------------------------------
// computed-size record arrays whose run-time item size is 0: `ComputedArray::len()` is 0; `get(i)` must
// answer every `i` (/repo 6475b6a); the TRAVERSAL (array printer, `SomeArray::iter`: walk until the first `None`)
// must be bounded by `len()`

/// (name, table bytes) for every table family with a computed-size record array, item size 0
fn zero_item_tables() -> Vec<(&'static str, Vec<u8>)> {
    let mut v: Vec<(&'static str, Vec<u8>)> = vec![];
    // gvar: axisCount 0, 3 shared tuples at offset 20, no glyphs
    let mut b = B::new();
    b.u16(1).u16(0).u16(0).u16(3).u32(20).u16(0).u16(0).u32(20).u16(0);
    v.push(("gvar.axis0", b.v));
    // SinglePosFormat2: empty value format, 5 records; coverage at 8
    let mut b = B::new();
    b.u16(2).u16(8).u16(0).u16(5).u16(1).u16(1).u16(7);
    v.push(("singlepos2.format0", b.v));
    // PairPosFormat2: class2Count 0, class1Count 4 (Class1Record of size 0)
    let mut b = B::new();
    b.u16(2).u16(16).u16(0x0004).u16(0).u16(22).u16(22).u16(4).u16(0);
    b.u16(1).u16(1).u16(7); // coverage at 16
    b.u16(1).u16(0).u16(0); // class def at 22
    v.push(("pairpos2.class2count0", b.v));
    // MarkBasePosFormat1: markClassCount 0, base array with 6 records of size 0
    let mut b = B::new();
    b.u16(1).u16(12).u16(12).u16(0).u16(18).u16(22);
    b.u16(1).u16(1).u16(7); // coverage at 12
    b.u16(0).u16(0); // mark array at 18: count 0
    b.u16(6); // base array at 22: 6 records of 0 offsets each
    v.push(("markbase.markclasscount0", b.v));
    // ItemVariationStore: region list with axisCount 0, 4 regions
    let mut b = B::new();
    b.u16(1).u32(8).u16(0).u16(0).u16(4);
    v.push(("ivs.axis0", b.v));
    // hdmx: sizeDeviceRecord 0 (records cannot be read from 0 bytes: must simply end)
    let mut b = B::new();
    b.u16(0).u16(3).u32(0);
    v.push(("hdmx.size0", b.v));
    v
}

fn zero_item_walk(name: &'static str) -> impl Fn(&[u8], &mut Obs) {
    move |bytes: &[u8], o: &mut Obs| {
        let data = FontData::new(bytes);
        let cap = bytes.len() + 1;
        // the real traversal: Debug printer (array loop `while let Some(item) = array.get(idx)`) and
        // the generic field / array iterators
        fn walk_table<'a>(t: &(dyn SomeTable<'a> + 'a), cap: usize, depth: u32, o: &mut Obs) {
            if depth > 6 {
                return;
            }
            let mut nfields = 0usize;
            for f in t.iter() {
                nfields += 1;
                if nfields > 64 {
                    break;
                }
                match f.value {
                    read_fonts::traversal::FieldType::Array(a) => {
                        o.note(a.len() as u64);
                        o.drain("SomeArray.iter", cap.max(a.len()) + 1, a.iter(), |o, _| o.note(1));
                    }
                    read_fonts::traversal::FieldType::ResolvedOffset(r) => {
                        if let Ok(t2) = r.target {
                            walk_table(&*t2, cap, depth + 1, o);
                        }
                    }
                    _ => {}
                }
            }
        }
        macro_rules! both {
            ($t:expr) => {{
                if let Ok(t) = $t {
                    walk_table(&t, cap, 0, o);
                    let s = format!("{t:?}");
                    o.note(s.len() as u64);
                }
            }};
        }
        match name {
            "gvar.axis0" => {
                both!(Gvar::read(data));
                if let Ok(g) = Gvar::read(data) {
                    if let Ok(st) = g.shared_tuples() {
                        let arr = st.tuples();
                        o.drain("tuples.iter", cap, arr.iter(), |o, _| o.note(2));
                        // `get` itself answers beyond `len()` for zero-sized items (the count is not
                        // recoverable from the byte length); only the digest is recorded
                        for i in edge_usize(&[arr.len()]) {
                            o.note(arr.get(i).is_ok() as u64);
                        }
                    }
                }
            }
            "singlepos2.format0" => both!(SinglePosFormat2::read(data)),
            "pairpos2.class2count0" => both!(PairPosFormat2::read(data)),
            "markbase.markclasscount0" => both!(MarkBasePosFormat1::read(data)),
            "ivs.axis0" => both!(ItemVariationStore::read(data)),
            _ => {
                for ng in [0u16, 1, 5] {
                    both!(Hdmx::read_with_args(data, &ng));
                }
            }
        }
    }
}

/// `ComputedArray` directly: `len()` and `get(i)` at boundary indices vs Model/HandRead.lean `compLen` /
/// `compGet` (Props/C01Hand.lean `computedGet_in_bounds`, `computedGet_zero_item`), and the number of items the
/// real traversal yields vs Model/HandIter.lean `travTrace` (`traverse_computed_array_bounded`)
fn computed_array_cases(ctx: &mut Ctx) {
    for data_len in 0..=12usize {
        for axis_count in [0u16, 1, 2, 3] {
            let d = vec![0x11u8; data_len];
            let what = format!("hd.comp {} {}", data_len, axis_count as usize * 2);
            PROGRESS.fetch_add(1, Ordering::Relaxed);
            let r = catch(|| {
                let arr = ComputedArray::<Tuple>::new(FontData::new(&d), axis_count).unwrap();
                let mut out = vec![arr.len().to_string()];
                for i in [0usize, 1, 2, 5, 6, 7, 12, 13, usize::MAX / 2, usize::MAX] {
                    out.push(if arr.get(i).is_ok() { "o".into() } else { "e".into() });
                }
                // value records: item size 0 for the empty value format
                let vr = ComputedArray::<ValueRecord>::new(FontData::new(&d), read_fonts::tables::gpos::ValueFormat::empty()).unwrap();
                out.push(format!("{}{}", vr.len(), if vr.get(0).is_ok() { "o" } else { "e" }));
                (join(&out), arr.iter().take(data_len + 2).count())
            });
            match r {
                Ok((s, n)) => {
                    ctx.oracle("no-panic", true, String::new, String::new);
                    ctx.oracle("iter-bounded", n <= data_len, || what.clone(), || format!("iter yielded {n} items on {data_len} bytes"));
                    ctx.case(what, s);
                }
                Err(m) => ctx.oracle("no-panic", false, || what.clone(), || m.clone()),
            }
        }
    }
}

/// items yielded by `SomeArray::iter` on the shared tuples of a gvar with the given axis / tuple counts
fn traversal_cases(ctx: &mut Ctx) {
    use read_fonts::traversal::FieldType;
    for axis_count in 0u16..4 {
        for n in 0u16..6 {
            let mut b = B::new();
            b.u16(1).u16(0).u16(axis_count).u16(n).u32(22).u16(0).u16(0).u32(22).u16(0);
            for k in 0..n * axis_count {
                b.u16(k);
            }
            let what = format!("hd.trav {} {}", n as usize * axis_count as usize * 2, axis_count as usize * 2);
            PROGRESS.fetch_add(1, Ordering::Relaxed);
            let bytes = b.v.clone();
            let r = catch(|| {
                let gvar = Gvar::read(FontData::new(&bytes)).ok()?;
                let st = gvar.shared_tuples().ok()?;
                let t: &dyn SomeTable = &st;
                for f in t.iter().take(8) {
                    if let FieldType::Array(a) = f.value {
                        return Some((a.iter().take(bytes.len() + 2).count(), a.len()));
                    }
                }
                None
            });
            match r {
                Ok(Some((n_items, len))) => {
                    ctx.oracle("no-panic", true, String::new, String::new);
                    ctx.oracle("iter-bounded", n_items <= len, || format!("{what} {}", hex(&bytes)), || format!("SomeArray::iter yielded {n_items} items, len() = {len}"));
                    ctx.case(what, n_items.to_string());
                }
                Ok(None) => ctx.oracle("traversal-reaches-array", false, || format!("{what} {}", hex(&bytes)), || "no array field found".into()),
                Err(m) => ctx.oracle("no-panic", false, || what.clone(), || m.clone()),
            }
        }
    }
}

// ------------------------------------------------------------------------------------------------
// purity of the printer across calls and threads: its depth / node budget lives in a thread-local
// (traversal.rs DEBUG_STATE); every TOP-LEVEL print must start with a fresh budget, whatever the thread
// printed before (Model/HandIter.lean `dbgPrint`, Props/C01Hand.lean `debug_budget_reset_per_top_level_call`)

/// length + FNV of the Debug output, without materialising it
struct HashSink {
    len: u64,
    h: u64,
}

impl std::fmt::Write for HashSink {
    fn write_str(&mut self, s: &str) -> std::fmt::Result {
        self.len += s.len() as u64;
        for b in s.bytes() {
            self.h = (self.h ^ b as u64).wrapping_mul(0x0000_0100_0000_01b3);
        }
        Ok(())
    }
}

fn print_digest(bytes: &[u8]) -> (u64, u64) {
    use std::fmt::Write;
    let mut sink = HashSink { len: 0, h: 0xcbf2_9ce4_8422_2325 };
    if let Ok(paint) = Paint::read(FontData::new(bytes)) {
        let _ = write!(sink, "{paint:?}");
    }
    (sink.len, sink.h)
}

fn on_fresh_thread(bytes: &[u8]) -> (u64, u64) {
    let b = bytes.to_vec();
    std::thread::Builder::new().stack_size(4 << 20).spawn(move || print_digest(&b)).expect("spawn").join().unwrap_or((0, 0))
}

fn purity_cases(ctx: &mut Ctx) {
    // budget-exhausting inputs: shared targets (2^levels paths) run into the node limit of one call
    let exhausting: Vec<(String, Vec<u8>)> = vec![
        ("composite-dag levels=60".into(), composite_dag(60)),
        ("composite-dag levels=24".into(), composite_dag(24)),
        ("composite-dag levels=21".into(), composite_dag(21)),
    ];
    let small: Vec<(String, Vec<u8>)> = vec![
        ("translate-chain levels=1".into(), translate_chain(1)),
        ("translate-chain levels=8".into(), translate_chain(8)),
        ("composite-dag levels=4".into(), composite_dag(4)),
        ("translate-chain levels=70".into(), translate_chain(70)),
    ];
    // reference outputs, each on its own fresh thread
    let fresh: Vec<(u64, u64)> = small.iter().map(|(_, b)| on_fresh_thread(b)).collect();
    for (ename, ebytes) in &exhausting {
        let what = format!("debug purity after `{ename}`");
        PROGRESS.fetch_add(1, Ordering::Relaxed);
        {
            let mut cur = CURRENT.lock().unwrap();
            cur.0 = what.clone();
            cur.1 = ebytes[..ebytes.len().min(64)].to_vec();
        }
        // ONE thread: the exhausting print (twice in a row: same output), then every small table twice
        let eb = ebytes.clone();
        let sm: Vec<Vec<u8>> = small.iter().map(|(_, b)| b.clone()).collect();
        let h = std::thread::Builder::new().stack_size(4 << 20).spawn(move || {
            let e1 = print_digest(&eb);
            let e2 = print_digest(&eb);
            let after: Vec<((u64, u64), (u64, u64))> = sm.iter().map(|b| (print_digest(b), print_digest(b))).collect();
            (e1, e2, after)
        });
        let Ok((e1, e2, after)) = h.expect("spawn").join() else {
            ctx.oracle("no-panic", false, || what.clone(), || "printer thread died".into());
            continue;
        };
        PROGRESS.fetch_add(1, Ordering::Relaxed);
        let e_fresh = on_fresh_thread(ebytes);
        ctx.oracle("debug-output-pure-across-calls-and-threads", e1 == e2 && e1 == e_fresh, || what.clone(), || {
            format!("`{ename}` printed (len, fnv) {e1:?}, again on the same thread {e2:?}, on a fresh thread {e_fresh:?}")
        });
        for (k, (a, b)) in after.iter().enumerate() {
            let sname = &small[k].0;
            ctx.oracle(
                "debug-output-pure-across-calls-and-threads",
                *a == fresh[k] && *b == fresh[k],
                || format!("{what}, then `{sname}` {}", hex(&small[k].1)),
                || format!("`{sname}` printed (len, fnv) {a:?} and {b:?} after the exhausting print on the same thread, {:?} on a fresh thread", fresh[k]),
            );
        }
        ctx.count("purity-sequences");
    }
}

pub fn run(ctx: &mut Ctx) {
    purity_cases(ctx);
    computed_array_cases(ctx);
    traversal_cases(ctx);
    for (name, bytes) in zero_item_tables() {
        let b = B { v: bytes, fields: vec![] };
        let f = zero_item_walk(name);
        ctx.drive(&format!("zero-item {name}"), &b, &f);
        ctx.count("zero-item-tables");
    }
    // run on a thread with a fixed, modest stack so that the outcome does not depend on `ulimit -s`
    let mut cases: Vec<(String, Vec<u8>)> = vec![];
    for levels in [1usize, 8, 63, 64, 65, 200, 5000, 200_000] {
        cases.push((format!("debug translate-chain levels={levels}"), translate_chain(levels)));
    }
    for levels in [1usize, 4, 12, 20, 40, 70] {
        cases.push((format!("debug composite-dag levels={levels}"), composite_dag(levels)));
    }
    for (what, bytes) in cases {
        let short = if bytes.len() > 64 { bytes[..64].to_vec() } else { bytes.clone() };
        // the recorded input is the generator parameters + the first bytes (the full chains are large)
        PROGRESS.fetch_add(1, Ordering::Relaxed);
        {
            let mut cur = CURRENT.lock().unwrap();
            cur.0 = what.clone();
            cur.1 = short.clone();
        }
        if let Some(t) = TRACE.lock().unwrap().as_mut() {
            use std::io::Write;
            let _ = writeln!(t, "{} {}", what, hex(&short));
            let _ = t.flush();
        }
        let b2 = bytes.clone();
        let h = std::thread::Builder::new().stack_size(2 << 20).spawn(move || {
            let mut o = Obs::new();
            let r = catch(|| debug_walk(&b2, &mut o));
            (r, o.over, o.digest)
        });
        let res = h.expect("spawn").join();
        match res {
            Ok((Ok(()), over, _)) => {
                ctx.oracle("no-panic", true, String::new, String::new);
                ctx.oracle("iter-bounded", over.is_none(), || what.clone(), || over.clone().unwrap_or_default());
            }
            Ok((Err(m), _, _)) => ctx.oracle("no-panic", false, || what.clone(), || m.clone()),
            Err(_) => ctx.oracle("no-panic", false, || what.clone(), || "thread died".into()),
        }
        ctx.count("cases");
    }
}
