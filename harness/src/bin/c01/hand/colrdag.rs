//! group `colr.dag` — COLR v1 paint graphs in which paints SHARE children (DAGs): the closure
//! (`Colr::v1_closure` → `Colrv1ClosureContext::dispatch`, colr/closure.rs) must visit every paint once
//! (`visited_paints`): Props/C01HandColr.lean `v1ClosureOf_bounded` — at most `256 · len` dispatches,
//! whatever sharing or cycles.  Without the visited set a chain of n PaintComposite tables with equal
//! source and backdrop offsets costs 2^n dispatches.  Every table is a `hc.clos` correspondence case
//! (Model/HandColr.lean walks the same graph) and is timed: a call over the bound is `time-bounded`
//! with the table as input, a hang is caught by the child's watchdog.
use super::colrm::{ask, colr_closures, colr_v1_raw};
use super::*;
use std::time::Instant;

const SOLID: [u8; 5] = [2, 0, 1, 0x40, 0];

/// n PaintComposite (format 32) with sourcePaintOffset == backdropPaintOffset == 8, then PaintSolid
fn composite_chain(n: usize) -> Vec<u8> {
    let mut p = vec![];
    for _ in 0..n {
        p.extend_from_slice(&[32, 0, 0, 8, 3, 0, 0, 8]);
    }
    p.extend_from_slice(&SOLID);
    p
}

/// n diamonds: PaintComposite(source → PaintTranslate A, backdrop → PaintTranslate B), A and B → next
fn diamonds(n: usize) -> Vec<u8> {
    let mut p = vec![];
    for _ in 0..n {
        p.extend_from_slice(&[32, 0, 0, 8, 3, 0, 0, 16]); // C @0: source @8, backdrop @16
        p.extend_from_slice(&[14, 0, 0, 16, 0, 1, 0, 2]); // A @8 → X @24
        p.extend_from_slice(&[14, 0, 0, 8, 0, 3, 0, 4]); // B @16 → X @24
    }
    p.extend_from_slice(&SOLID);
    p
}

/// n PaintTransform-like fans: PaintComposite whose source is the next node and whose backdrop is a
/// PaintScale of the same next node (three paths per level)
fn fans(n: usize) -> Vec<u8> {
    let mut p = vec![];
    for _ in 0..n {
        p.extend_from_slice(&[32, 0, 0, 16, 3, 0, 0, 8]); // C @0: source X @16, backdrop S @8
        p.extend_from_slice(&[16, 0, 0, 8, 0x40, 0, 0x40, 0]); // S @8 PaintScale → X @16
    }
    p.extend_from_slice(&SOLID);
    p
}

/// chain of PaintColrLayers with 2 layers each, both layer offsets pointing at the next one
/// (returns paints + layer list entries as paint positions)
fn layers_twice(n: usize) -> (Vec<u8>, Vec<u32>) {
    let mut p = vec![];
    let mut layers = vec![];
    for k in 0..n {
        p.push(1);
        p.push(2);
        p.extend_from_slice(&(2 * k as u32).to_be_bytes());
        let next = 6 * (k as u32 + 1);
        layers.push(next);
        layers.push(next);
    }
    p.extend_from_slice(&SOLID);
    (p, layers)
}

fn one(ctx: &mut Ctx, family: &str, depth: usize, table: Vec<u8>) {
    let set: Vec<u32> = vec![0, 1, 2, 3];
    let req = format!("hc.clos {} {}", hex(&table), join(&set));
    ctx.count(&format!("{family}.depth{depth}"));
    let t2 = table.clone();
    ask(ctx, req, &table, move || {
        let t0 = Instant::now();
        let mut out = colr_closures(&t2, &set);
        let secs = t0.elapsed().as_secs_f64();
        // a linear walk of a < 2 KB table takes microseconds; 2^24 dispatches already take longer than this
        out.check("time-bounded", secs < 3.0, || format!("v1_closure of a {} byte table ({family}, depth {depth}) took {secs:.1} s", t2.len()));
        out
    });
}

pub fn run(ctx: &mut Ctx) {
    // ascending depth: with an exponential walk the shallow tables fail the measured bound before a deep
    // one hangs (and the watchdog reports that one with its table)
    for depth in [1usize, 2, 5, 10, 14, 18, 22, 26, 30, 34, 40, 48, 56, 62, 63, 64, 65, 70] {
        one(ctx, "composite-chain", depth, colr_v1_raw(&[(1, 0)], &[], &composite_chain(depth)));
    }
    for depth in [1usize, 3, 8, 12, 16, 20, 24, 28, 31, 32, 33, 40] {
        one(ctx, "diamonds", depth, colr_v1_raw(&[(1, 0)], &[], &diamonds(depth)));
        one(ctx, "fans", depth, colr_v1_raw(&[(1, 0)], &[], &fans(depth)));
    }
    for depth in [1usize, 4, 10, 20, 40, 62, 66] {
        let (p, layers) = layers_twice(depth);
        one(ctx, "layers-twice", depth, colr_v1_raw(&[(1, 0)], &layers, &p));
    }
    // 255 layers that all point at one shared composite chain, two base glyphs sharing it as well
    for depth in [10usize, 30, 60] {
        let mut p = vec![1u8, 255, 0, 0, 0, 0];
        let chain_at = p.len() as u32;
        p.extend(composite_chain(depth));
        let layers = vec![chain_at; 255];
        one(ctx, "shared-by-255-layers", depth, colr_v1_raw(&[(1, 0), (2, chain_at), (3, chain_at)], &layers, &p));
    }
    // random DAGs: every node a composite / translate whose child offsets point at random later nodes
    let rounds = if ctx.thorough { 400 } else { 60 };
    for _ in 0..rounds {
        let n = 8 + ctx.rng.below(56) as usize;
        let mut p = vec![];
        for k in 0..n {
            let at = 8 * k;
            let left = n - k; // nodes after this one (the last is the solid)
            let pick = |rng: &mut Rng| -> u32 { (8 * (k + 1 + rng.below(left.min(3) as u64) as usize) - at) as u32 };
            if ctx.rng.chance(3, 4) {
                let (a, b) = (pick(&mut ctx.rng), pick(&mut ctx.rng));
                p.extend_from_slice(&[32, 0, (a >> 8) as u8, a as u8, 3, 0, (b >> 8) as u8, b as u8]);
            } else {
                let a = pick(&mut ctx.rng);
                p.extend_from_slice(&[14, 0, (a >> 8) as u8, a as u8, 0, 1, 0, 2]);
            }
        }
        p.extend_from_slice(&SOLID);
        p.extend_from_slice(&[0, 0, 0]); // padding: the last picks may point at 8-byte slots after the solid
        one(ctx, "random-dag", n, colr_v1_raw(&[(1, 0)], &[], &p));
    }
}
