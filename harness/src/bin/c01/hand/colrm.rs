//! group `colr.model` — correspondence of the real hand-written functions of
//! colr.rs / colr/closure.rs / cpal.rs / svg.rs / stat.rs / hdmx.rs / vorg.rs / gasp.rs / meta.rs / tables.rs / offset_array.rs helpers
//! with Model/HandColr.lean (`hc.*` driver commands), on generator-based inputs with truncations and
//! boundary fields; plus the group's own byte-level oracles.
use super::*;

pub fn run(_ctx: &mut Ctx) {}
