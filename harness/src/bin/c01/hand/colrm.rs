//! group `colr.model` — correspondence of the real hand-written functions of
//! colr.rs / colr/closure.rs / cpal.rs / svg.rs / stat.rs / hdmx.rs / vorg.rs / gasp.rs / meta.rs / tables.rs / offset_array.rs helpers
//! with Model/HandColr.lean (`hc.*` driver commands), on generator-based inputs with truncations and
//! boundary fields; plus the group's own byte-level oracles.
//!
//! Commands (request → canonical response of the real code):
//!   `hc.colr <table> <gids> | <idxs>`  `Colr::{v0_base_glyph, v1_base_glyph, v1_clip_box}` per gid,
//!                                      `Colr::{v0_layer, v1_layer}` per index
//!   `hc.clos <table> <glyph set>`      `v0_closure_glyphs`, `v0_closure_palette_indices`, `v1_closure`
//!                                      (each set as `<len> <fnv of the members>`)
//!   `hc.svg <table> <gids>`            `Svg::glyph_data` (document range inside the list's data)
//!   `hc.hdmx <ng> <table> <sizes>`     `Hdmx::records().len()`, `record_for_size` (record start)
//!   `hc.vorg <table> <gids>`           `Vorg::vertical_origin_y`
//!   `hc.meta <table>`                  `DataMapRecord::data` → `Metadata::read_with_args` per record
//!   `hc.cksum <bytes>`                 `compute_checksum`
//!   `hc.arr <n> <data> <idxs>`         `AxisValueArray::axis_values()`: `ArrayOfOffsets::{iter, get}`
//!   `hc.arrn <table> <idxs>`           `SequenceContextFormat1::seq_rule_sets()`:
//!                                      `ArrayOfNullableOffsets::{iter, get}`
use super::*;
use font_types::GlyphId;
use read_fonts::collections::IntSet;
use read_fonts::tables::colr::Colr;
use read_fonts::{FontData, FontRead, ReadError, ResolveOffset};

// ------------------------------------------------------------------------------------------------
// helpers

/// a table with child tables behind offsets (copy of the builder of hand/layout.rs)
#[derive(Clone, Default)]
struct T {
    b: B,
    kids: Vec<(usize, u8, T)>,
}

impl T {
    fn new() -> T {
        T::default()
    }
    fn off(&mut self, w: u8, kid: T) -> &mut Self {
        let p = self.b.len();
        match w {
            2 => self.b.f16(0),
            3 => self.b.f24(0),
            _ => self.b.f32(0),
        };
        self.kids.push((p, w, kid));
        self
    }
    fn off24(&mut self, kid: T) -> &mut Self {
        self.off(3, kid)
    }
    fn off32(&mut self, kid: T) -> &mut Self {
        self.off(4, kid)
    }
    fn flat(&self) -> B {
        let mut out = self.b.clone();
        for (pos, w, kid) in &self.kids {
            let kb = kid.flat();
            let at = out.append(&kb);
            put_be(&mut out.v, *pos, *w, at as u64);
        }
        out
    }
}

fn err_str(e: &ReadError) -> String {
    match e {
        ReadError::NullOffset => "eNull".into(),
        ReadError::OutOfBounds => "eO".into(),
        ReadError::InvalidFormat(f) => format!("eF{f}"),
        ReadError::InvalidCollectionIndex(i) => format!("eI{i}"),
        other => format!("e?{other:?}"),
    }
}

fn fnv(xs: impl Iterator<Item = u64>) -> (u64, u64) {
    let mut h = 0xcbf2_9ce4_8422_2325u64;
    let mut n = 0u64;
    for x in xs {
        h = (h ^ x).wrapping_mul(0x0000_0100_0000_01b3);
        n += 1;
    }
    (n, h)
}

/// `<len> <fnv>` of a set; at most `cap` members are drained (`None` = more than `cap`)
fn set_str<D: read_fonts::collections::int_set::Domain>(s: &IntSet<D>, cap: u64, f: impl Fn(D) -> u64) -> Option<String> {
    if s.len() > cap {
        return None;
    }
    let (n, h) = fnv(s.iter().map(f));
    Some(format!("{n} {h}"))
}

/// what one evaluation of the real code produced: the canonical response and the group's oracles
#[derive(Default)]
pub(super) struct Out {
    pub(super) resp: String,
    checks: Vec<(&'static str, bool, String)>,
}

impl Out {
    pub(super) fn check(&mut self, name: &'static str, ok: bool, detail: impl FnOnce() -> String) {
        self.checks.push((name, ok, if ok { String::new() } else { detail() }));
    }
}

/// one correspondence case: the real code inside `catch`, its oracles, then `ctx.case`
pub(super) fn ask(ctx: &mut Ctx, req: String, bytes: &[u8], f: impl FnOnce() -> Out) {
    PROGRESS.fetch_add(1, Ordering::Relaxed);
    {
        // what the watchdog / the crash tracer report as the current input
        let mut cur = CURRENT.lock().unwrap();
        cur.0.clear();
        cur.0.push_str(&req);
        cur.1.clear();
        cur.1.extend_from_slice(bytes);
    }
    if let Some(t) = TRACE.lock().unwrap().as_mut() {
        use std::io::Write;
        let _ = writeln!(t, "{} {}", req, hex(bytes));
        let _ = t.flush();
    }
    ctx.count(&format!("cases.{}", req.split(' ').next().unwrap_or("")));
    match catch(f) {
        Ok(out) => {
            ctx.oracle("no-panic", true, String::new, String::new);
            for (name, ok, detail) in out.checks {
                ctx.oracle(name, ok, || format!("{req} [{}]", hex(bytes)), || detail.clone());
            }
            ctx.case(req, out.resp);
        }
        Err(m) => ctx.oracle("no-panic", false, || format!("{req} [{}]", hex(bytes)), || format!("panicked: {m}")),
    }
}

/// the base, every prefix, every registered field at its boundary values, a few random flips
fn variants(rng: &mut Rng, b: &B, flips: usize) -> Vec<Vec<u8>> {
    variants_of(rng, b, flips, true)
}

/// `dense = false`: the reduced set of boundary values per field (large tables with many fields)
fn variants_of(rng: &mut Rng, b: &B, flips: usize, dense: bool) -> Vec<Vec<u8>> {
    let n = b.v.len();
    let mut out = vec![b.v.clone()];
    for c in 0..n {
        out.push(b.v[..c].to_vec());
    }
    for (p, w) in &b.fields {
        if p + *w as usize > n {
            continue;
        }
        let max: u64 = (1u64 << (8 * *w as u32)) - 1;
        let cur = get_be(&b.v, *p, *w);
        let rest = (n - p) as u64;
        let mut vals = if dense {
            vec![0u64, 1, 2, max, max - 1, max / 2, max / 2 + 1, cur.wrapping_add(1), cur.wrapping_sub(1), cur.wrapping_mul(2), n as u64, n as u64 + 1, (n as u64).wrapping_sub(1), rest, rest + 1, rest.wrapping_sub(1)]
        } else {
            vec![0u64, 1, max, max - 1, cur.wrapping_add(1), cur.wrapping_sub(1), n as u64, rest, rest + 1]
        };
        for v in vals.iter_mut() {
            *v &= max;
        }
        vals.sort();
        vals.dedup();
        for v in vals {
            if v == cur {
                continue;
            }
            let mut m = b.v.clone();
            put_be(&mut m, *p, *w, v);
            out.push(m);
        }
    }
    for _ in 0..flips {
        if n == 0 {
            break;
        }
        let mut m = b.v.clone();
        for _ in 0..1 + rng.below(3) {
            let p = rng.below(n as u64) as usize;
            m[p] = match rng.below(4) {
                0 => 0,
                1 => 0xFF,
                2 => m[p] ^ (1 << rng.below(8)),
                _ => rng.next() as u8,
            };
        }
        out.push(m);
    }
    out
}

fn be16(b: &[u8], p: usize) -> Option<u16> {
    Some(u16::from_be_bytes([*b.get(p)?, *b.get(p.checked_add(1)?)?]))
}

fn be32(b: &[u8], p: usize) -> Option<u32> {
    Some(((be16(b, p)? as u32) << 16) | be16(b, p.checked_add(2)?)? as u32)
}

// ------------------------------------------------------------------------------------------------
// COLR generator (compact version of the one in hand/layout.rs)

struct PaintEnv {
    n_layers: u32,
    base_gids: Vec<u16>,
}

fn var_base(rng: &mut Rng) -> u32 {
    match rng.below(20) {
        0 | 4 => 0xFFFF_FFFF,
        1 => 0xFFFF_FFFE,
        2 => 0xFFFF_FFFF - rng.below(8) as u32,
        3 => 0,
        _ => rng.below(200) as u32,
    }
}

fn color_line(rng: &mut Rng, var: bool) -> T {
    let mut t = T::new();
    t.b.u8(*rng.pick(&[0u8, 1, 2]));
    let n = rng.below(3) as u16;
    t.b.f16(n);
    for _ in 0..n {
        t.b.u16(rng.next() as u16).u16(*rng.pick(&[0u16, 1, 2, 7, 0xFFFF])).u16(0x4000);
        if var {
            t.b.u32(var_base(rng));
        }
    }
    t
}

fn words(rng: &mut Rng, b: &mut B, n: usize) {
    for _ in 0..n {
        b.u16(rng.next() as u16);
    }
}

/// one paint of format `fmt` (children generated recursively, depth limited)
fn paint_fmt(rng: &mut Rng, fmt: u8, depth: u32, env: &PaintEnv) -> T {
    let mut t = T::new();
    t.b.u8(fmt);
    let child = |rng: &mut Rng| -> T {
        if depth >= 2 {
            let f = *rng.pick(&[2u8, 3, 11, 1]);
            paint_fmt(rng, f, depth + 1, env)
        } else {
            paint(rng, depth + 1, env)
        }
    };
    let var = fmt % 2 == 1 && fmt >= 3;
    match fmt {
        1 => {
            let n = rng.below(4) as u8;
            let first = match rng.below(16) {
                0 => 0xFFFF_FFFF,
                1 => 0xFFFF_FFFF - rng.below(4) as u32,
                2 | 3 => env.n_layers,
                _ => rng.below(env.n_layers as u64 + 1) as u32,
            };
            t.b.f8(if rng.chance(1, 10) { 255 } else { n }).f32(first);
        }
        2 | 3 => {
            t.b.u16(*rng.pick(&[0u16, 1, 5, 0xFFFF])).u16(0x4000);
        }
        4 | 5 | 6 | 7 => {
            t.off24(color_line(rng, var));
            words(rng, &mut t.b, 6);
        }
        8 | 9 => {
            t.off24(color_line(rng, var));
            words(rng, &mut t.b, 4);
        }
        10 => {
            let c = child(rng);
            t.off24(c);
            t.b.u16(rng.below(60) as u16);
        }
        11 => {
            // PaintColrGlyph: mostly an existing base glyph (cycles included)
            let g = if env.base_gids.is_empty() || rng.chance(1, 5) { rng.below(60) as u16 } else { *rng.pick(&env.base_gids) };
            t.b.f16(g);
        }
        12 | 13 => {
            let c = child(rng);
            t.off24(c);
            let mut aff = T::new();
            words(rng, &mut aff.b, 12);
            if var {
                aff.b.u32(var_base(rng));
            }
            t.off24(aff);
            return t;
        }
        32 => {
            let c = child(rng);
            t.off24(c);
            t.b.u8(rng.below(30) as u8);
            let c = child(rng);
            t.off24(c);
        }
        14..=31 => {
            let c = child(rng);
            t.off24(c);
            let n = match fmt {
                14 | 15 | 16 | 17 | 28 | 29 => 2,
                18 | 19 | 30 | 31 => 4,
                20 | 21 | 24 | 25 => 1,
                _ => 3,
            };
            words(rng, &mut t.b, n);
        }
        _ => {
            t.b.bytes(&rng.bytes(6));
        }
    }
    if var {
        t.b.f32(var_base(rng));
    }
    t
}

fn paint(rng: &mut Rng, depth: u32, env: &PaintEnv) -> T {
    let fmt = match rng.below(12) {
        0 => *rng.pick(&[0u8, 33, 34, 255]),
        1 | 2 => 1,
        3 | 4 => 11,
        5 => 10,
        6 => 32,
        7 => 2 + rng.below(2) as u8,
        _ => 1 + rng.below(32) as u8,
    };
    paint_fmt(rng, fmt, depth, env)
}

/// glyph ids of a record array: sorted distinct / sorted with duplicates / unsorted
fn gid_list(rng: &mut Rng, n: usize, order: u32) -> Vec<u16> {
    let mut v: Vec<u16> = (0..n).map(|_| if rng.chance(1, 10) { *rng.pick(&[0u16, 0xFFFF, 0xFFFE]) } else { rng.below(24) as u16 }).collect();
    match order {
        0 => {
            v.sort();
            v.dedup();
        }
        1 => v.sort(),
        _ => {}
    }
    v
}

/// (start, end) of clip records: sorted disjoint / overlapping / unsorted, some with `start > end`
fn clip_ranges(rng: &mut Rng, order: u32) -> Vec<(u16, u16)> {
    let n = rng.below(4) as usize;
    let mut out = vec![];
    let mut at = rng.below(4) as u16;
    for _ in 0..n {
        let len = rng.below(4) as u16;
        out.push((at, at + len));
        at = at + len + 1 + rng.below(3) as u16;
    }
    match order {
        0 => {}
        1 => {
            for r in out.iter_mut() {
                if rng.chance(1, 2) {
                    r.1 += rng.below(6) as u16; // overlaps the next
                }
                if rng.chance(1, 5) {
                    *r = (r.1, r.0); // start > end
                }
            }
        }
        _ => rng.shuffle(&mut out),
    }
    if rng.chance(1, 8) {
        out.push((0xFFF0, 0xFFFF));
    }
    out
}

fn colr_table(rng: &mut Rng, version: u16, order: u32) -> B {
    let mut t = T::new();
    t.b.f16(version);
    let nb = rng.below(5) as usize;
    let nl = rng.below(5) as u16;
    let gids = gid_list(rng, nb, order);
    t.b.f16(gids.len() as u16);
    if gids.is_empty() && rng.chance(1, 2) {
        t.b.f32(0);
    } else {
        let mut r = T::new();
        for g in &gids {
            // first_layer_index + num_layers around the layer count / 0xFFFF
            let first = match rng.below(8) {
                0 => 0xFFFF,
                1 => nl,
                _ => rng.below(nl as u64 + 1) as u16,
            };
            let num = match rng.below(10) {
                0 => 0xFFFF,
                1 => nl + 1,
                _ => rng.below(nl as u64 + 1) as u16,
            };
            r.b.f16(*g).f16(first).f16(num);
        }
        t.off32(r);
    }
    if nl == 0 && rng.chance(1, 2) {
        t.b.f32(0);
    } else {
        let mut r = T::new();
        for _ in 0..nl {
            r.b.u16(rng.below(60) as u16).u16(*rng.pick(&[0u16, 1, 2, 9, 0xFFFF]));
        }
        t.off32(r);
    }
    t.b.f16(nl);
    if version == 0 {
        return t.flat();
    }
    let np = rng.below(4) as usize;
    let pg = gid_list(rng, np, order);
    let n_layers = rng.below(4) as u32;
    let env = PaintEnv { n_layers, base_gids: pg.clone() };
    if pg.is_empty() && rng.chance(1, 2) {
        t.b.f32(0);
    } else {
        let mut bl = T::new();
        bl.b.f32(pg.len() as u32);
        for g in &pg {
            bl.b.f16(*g);
            let p = paint(rng, 0, &env);
            bl.off32(p);
        }
        t.off32(bl);
    }
    if n_layers == 0 && rng.chance(1, 2) {
        t.b.f32(0);
    } else {
        let mut ll = T::new();
        ll.b.f32(n_layers);
        for _ in 0..n_layers {
            let p = paint(rng, 1, &env);
            ll.off32(p);
        }
        t.off32(ll);
    }
    if rng.chance(1, 5) {
        t.b.f32(0);
    } else {
        let mut cl = T::new();
        let ranges = clip_ranges(rng, order);
        cl.b.u8(1).f32(ranges.len() as u32);
        for (s, e) in ranges {
            cl.b.f16(s).f16(e);
            let mut cb = T::new();
            let f = *rng.pick(&[1u8, 2, 2, 0, 3]);
            cb.b.u8(f);
            words(rng, &mut cb.b, 4);
            if f == 2 {
                cb.b.u32(var_base(rng));
            }
            cl.off24(cb);
        }
        t.off32(cl);
    }
    t.b.u32(0).u32(0);
    t.flat()
}

/// COLR v1 header + BaseGlyphList + LayerList whose offsets point into `paints`
pub(super) fn colr_v1_raw(records: &[(u16, u32)], layers: &[u32], paints: &[u8]) -> Vec<u8> {
    let mut b = B::new();
    b.u16(1).u16(0).u32(0).u32(0).u16(0);
    let hdr = 34u32;
    let bl_len = 4 + 6 * records.len() as u32;
    let ll_len = 4 + 4 * layers.len() as u32;
    b.u32(hdr).u32(hdr + bl_len).u32(0).u32(0).u32(0);
    b.u32(records.len() as u32);
    for (g, at) in records {
        b.u16(*g).u32(bl_len + ll_len + at);
    }
    b.u32(layers.len() as u32);
    for at in layers {
        b.u32(ll_len + at);
    }
    b.bytes(paints);
    b.v
}

// ------------------------------------------------------------------------------------------------
// COLR: lookups

fn colr_probe_gids(bytes: &[u8]) -> (Vec<u32>, Vec<usize>) {
    catch(|| colr_probe_gids_inner(bytes)).unwrap_or((vec![0, 1, 0xFFFF, 0x1_0000], vec![0, 1]))
}

fn colr_probe_gids_inner(bytes: &[u8]) -> (Vec<u32>, Vec<usize>) {
    let mut vals: Vec<u32> = vec![];
    let mut n0 = 0usize;
    let mut n1 = 0usize;
    if let Ok(colr) = Colr::read(FontData::new(bytes)) {
        n0 = colr.num_layer_records() as usize;
        if let Some(Ok(recs)) = colr.base_glyph_records() {
            vals.extend(recs.iter().take(4).map(|r| r.glyph_id().to_u16() as u32));
            vals.extend(recs.last().map(|r| r.glyph_id().to_u16() as u32));
        }
        if let Some(Ok(bl)) = colr.base_glyph_list() {
            let recs = bl.base_glyph_paint_records();
            vals.extend(recs.iter().take(4).map(|r| r.glyph_id().to_u16() as u32));
            vals.extend(recs.last().map(|r| r.glyph_id().to_u16() as u32));
        }
        if let Some(Ok(cl)) = colr.clip_list() {
            for c in cl.clips().iter().take(4) {
                vals.push(c.start_glyph_id().to_u16() as u32);
                vals.push(c.end_glyph_id().to_u16() as u32);
            }
        }
        if let Some(Ok(ll)) = colr.layer_list() {
            n1 = ll.num_layers() as usize;
        }
    }
    let mut gids: Vec<u32> = vec![0, 0xFFFF, 0x1_0000, u32::MAX];
    for v in vals {
        for d in [-1i64, 0, 1] {
            let y = v as i64 + d;
            if (0..=0xFFFF).contains(&y) {
                gids.push(y as u32);
            }
        }
    }
    gids.sort();
    gids.dedup();
    gids.truncate(28);
    let mut idxs: Vec<usize> = vec![0, 1, 2, 3, 4, 0xFFFF, 0x1_0000, u32::MAX as usize, u32::MAX as usize + 1, usize::MAX];
    for n in [n0, n1] {
        idxs.extend([n.wrapping_sub(1), n, n + 1]);
    }
    idxs.sort();
    idxs.dedup();
    (gids, idxs)
}

fn colr_lookups(bytes: &[u8], gids: &[u32], idxs: &[usize]) -> Out {
    let mut out = Out::default();
    let Ok(colr) = Colr::read(FontData::new(bytes)) else {
        out.resp = "rerr".into();
        return out;
    };
    let len = bytes.len();
    let n0 = colr.num_layer_records() as usize;
    let at = |d: FontData| len - d.len();
    let mut a: Vec<String> = vec![];
    for g in gids {
        let gid = GlyphId::new(*g);
        let v0 = match colr.v0_base_glyph(gid) {
            Ok(None) => "N".to_string(),
            Ok(Some(r)) => {
                out.check("v0-range", r.start <= r.end && r.end <= r.start + 0xFFFF && r.start <= 0xFFFF, || format!("v0_base_glyph({g}) = {r:?}"));
                // every index of the range is answered by v0_layer without panic: Ok below the layer count, Err above
                for i in [r.start, r.end.wrapping_sub(1), r.end] {
                    let l = colr.v0_layer(i);
                    out.check("v0-layer-in-array", l.is_ok() == (i < n0) || matches!(colr.layer_records(), None | Some(Err(_))), || format!("v0_layer({i}) ok={} with {n0} layer records", l.is_ok()));
                }
                format!("{}-{}", r.start, r.end)
            }
            Err(e) => err_str(&e),
        };
        let v1 = match colr.v1_base_glyph(gid) {
            Ok(None) => "N".to_string(),
            Ok(Some((p, _id))) => {
                let pos = at(p.offset_data());
                out.check("paint-inside-table", pos < len, || format!("v1_base_glyph({g}) paint at {pos} of {len}"));
                format!("f{}@{}", p.format(), pos)
            }
            Err(e) => err_str(&e),
        };
        let cb = match colr.v1_clip_box(gid) {
            Ok(None) => "N".to_string(),
            Ok(Some(cb)) => {
                let pos = at(cb.offset_data());
                out.check("clipbox-inside-table", pos + 9 <= len, || format!("v1_clip_box({g}) box at {pos} of {len}"));
                format!("f{}@{}", cb.format(), pos)
            }
            Err(e) => err_str(&e),
        };
        a.push(format!("{v0},{v1},{cb}"));
    }
    let n1 = match colr.layer_list() {
        Some(Ok(ll)) => ll.num_layers() as usize,
        _ => 0,
    };
    let mut b: Vec<String> = vec![];
    for i in idxs {
        let l0 = match colr.v0_layer(*i) {
            Ok((g, p)) => {
                out.check("v0-layer-index", *i < n0, || format!("v0_layer({i}) Ok with {n0} records"));
                format!("{}:{}", g.to_u16(), p)
            }
            Err(e) => err_str(&e),
        };
        let l1 = match colr.v1_layer(*i) {
            Ok((p, _id)) => {
                out.check("v1-layer-index", *i < n1, || format!("v1_layer({i}) Ok with {n1} layers"));
                format!("f{}@{}", p.format(), at(p.offset_data()))
            }
            Err(e) => err_str(&e),
        };
        b.push(format!("{l0},{l1}"));
    }
    out.resp = format!("{} | {}", join(&a), join(&b));
    out
}

// ------------------------------------------------------------------------------------------------
// COLR: closures

/// total `num_layers` of the v0 records (work of a v0 closure over a set that hits every record)
fn v0_work(bytes: &[u8]) -> usize {
    catch(|| v0_work_inner(bytes)).unwrap_or(0)
}

fn v0_work_inner(bytes: &[u8]) -> usize {
    match Colr::read(FontData::new(bytes)).ok().and_then(|c| c.base_glyph_records()) {
        Some(Ok(recs)) => recs.iter().map(|r| r.num_layers() as usize).sum(),
        _ => 0,
    }
}

pub(super) fn colr_closures(bytes: &[u8], set: &[u32]) -> Out {
    let mut out = Out::default();
    let Ok(colr) = Colr::read(FontData::new(bytes)) else {
        out.resp = "rerr".into();
        return out;
    };
    let len = bytes.len() as u64;
    let gs: IntSet<GlyphId> = set.iter().map(|g| GlyphId::new(*g)).collect();
    let n = gs.len();
    let nl = colr.num_layer_records() as u64;
    let mut g0 = IntSet::<GlyphId>::empty();
    colr.v0_closure_glyphs(&gs, &mut g0);
    let mut p0 = IntSet::<u16>::empty();
    colr.v0_closure_palette_indices(&gs, &mut p0);
    out.check("v0-closure-bounded", g0.len() <= n + nl && p0.len() <= nl, || format!("v0 closure: {} glyphs, {} palette entries from {n} glyphs and {nl} layer records", g0.len(), p0.len()));
    out.check("v0-closure-superset", gs.iter().all(|g| g0.contains(g)), || "v0_closure_glyphs lost an input glyph".into());
    let mut g1 = gs.clone();
    let (mut layers, mut pal, mut vars) = (IntSet::<u32>::empty(), IntSet::<u16>::empty(), IntSet::<u32>::empty());
    colr.v1_closure(&mut g1, &mut layers, &mut pal, &mut vars);
    // every paint needs ≥ 3 bytes; a paint adds ≤ 1 glyph, ≤ 255 layers, its colour stops (≥ 6 bytes each), ≤ 6 + 2·stops deltas
    out.check(
        "v1-closure-bounded",
        g1.len() <= n + len && layers.len() <= 255 * len && pal.len() <= len && vars.len() <= 8 * len + 8,
        || format!("v1 closure: {} glyphs {} layers {} palettes {} variations from {len} bytes", g1.len(), layers.len(), pal.len(), vars.len()),
    );
    out.check("v1-closure-superset", gs.iter().all(|g| g1.contains(g)), || "v1_closure lost an input glyph".into());
    let cap = 1 << 20;
    let parts = [
        set_str(&g0, cap, |g| g.to_u32() as u64),
        set_str(&p0, cap, |p| p as u64),
        set_str(&g1, cap, |g| g.to_u32() as u64),
        set_str(&layers, cap, |x| x as u64),
        set_str(&pal, cap, |x| x as u64),
        set_str(&vars, cap, |x| x as u64),
    ];
    out.resp = parts.iter().map(|p| p.clone().unwrap_or("huge".into())).collect::<Vec<_>>().join(" | ");
    out
}

fn colr_cases(ctx: &mut Ctx, what: &str, bytes: &[u8], closures: bool) {
    colr_branches(ctx, bytes);
    let (gids, idxs) = colr_probe_gids(bytes);
    ask(ctx, format!("hc.colr {} {} | {}", hex(bytes), join(&gids), join(&idxs)), bytes, || colr_lookups(bytes, &gids, &idxs));
    ctx.count(&format!("{what}.lookups"));
    if closures {
        // all small glyphs (+ one beyond u16), unless the v0 records announce a huge number of layers
        let set: Vec<u32> = if v0_work(bytes) <= 3000 { (0..=26u32).chain([0xFFFE, 0xFFFF, 0x1_0000]).collect() } else { gids.iter().copied().filter(|g| g % 3 == 0).take(2).collect() };
        ask(ctx, format!("hc.clos {} {}", hex(bytes), join(&set)), bytes, || colr_closures(bytes, &set));
        ctx.count(&format!("{what}.closures"));
    }
}

/// branch distribution of the modelled COLR functions on the unmodified inputs
fn colr_branches(ctx: &mut Ctx, bytes: &[u8]) {
    // (a panic of the real code here is reported by the `hc.colr` case of the same input)
    for k in catch(|| colr_branch_keys(bytes)).unwrap_or_default() {
        ctx.count(&k);
    }
}

/// keys counted by `colr_branches`
struct Keys(Vec<String>);

impl Keys {
    fn count(&mut self, k: &str) {
        self.0.push(k.to_string());
    }
}

fn colr_branch_keys(bytes: &[u8]) -> Vec<String> {
    let mut keys = Keys(vec![]);
    let ctx = &mut keys;
    let Ok(colr) = Colr::read(FontData::new(bytes)) else {
        ctx.count("branch.read.err");
        return keys.0;
    };
    let (gids, idxs) = colr_probe_gids(bytes);
    for g in &gids {
        let gid = GlyphId::new(*g);
        let k = match colr.v0_base_glyph(gid) {
            Ok(None) if *g > 0xFFFF => "none.gid>u16",
            Ok(None) => "none",
            Ok(Some(_)) => "some",
            Err(ReadError::NullOffset) => "err.null",
            Err(_) => "err.other",
        };
        ctx.count(&format!("branch.v0_base_glyph.{k}"));
        let k = match colr.v1_base_glyph(gid) {
            Ok(None) if *g > 0xFFFF => "none.gid>u16".to_string(),
            Ok(None) => "none".into(),
            Ok(Some(_)) => "some".into(),
            Err(e) => format!("err.{}", err_str(&e).chars().take(2).collect::<String>()),
        };
        ctx.count(&format!("branch.v1_base_glyph.{k}"));
        let k = match colr.v1_clip_box(gid) {
            Ok(None) if *g > 0xFFFF => "none.gid>u16".to_string(),
            Ok(None) => "none".into(),
            Ok(Some(cb)) => format!("some.f{}", cb.format()),
            Err(e) => format!("err.{}", err_str(&e).chars().take(2).collect::<String>()),
        };
        ctx.count(&format!("branch.v1_clip_box.{k}"));
    }
    for i in &idxs {
        let k = match colr.v0_layer(*i) {
            Ok(_) => "ok".to_string(),
            Err(e) => format!("err.{}", err_str(&e)),
        };
        ctx.count(&format!("branch.v0_layer.{k}"));
        let k = match colr.v1_layer(*i) {
            Ok(_) => "ok".to_string(),
            Err(e) => format!("err.{}", err_str(&e).chars().take(2).collect::<String>()),
        };
        ctx.count(&format!("branch.v1_layer.{k}"));
    }
    // what the v1 closure meets from the base glyph list / layer list (three levels deep)
    if let Some(Ok(bl)) = colr.base_glyph_list() {
        for r in bl.base_glyph_paint_records().iter().take(6) {
            match r.paint(bl.offset_data()) {
                Ok(p) => profile_paint(&colr, &p, ctx, 0),
                Err(_) => ctx.count("branch.closure.root.paint-err"),
            }
        }
    } else {
        ctx.count("branch.closure.no-base-list");
    }
    match colr.clip_list() {
        Some(Ok(cl)) => {
            for c in cl.clips().iter().take(6) {
                match c.clip_box(cl.offset_data()) {
                    Err(_) => ctx.count("branch.closure.clip.box-err"),
                    Ok(b) => ctx.count(&format!("branch.closure.clip.f{}{}", b.format(), if c.start_glyph_id() > c.end_glyph_id() { ".empty-range" } else { "" })),
                }
            }
        }
        _ => ctx.count("branch.closure.no-clip-list"),
    }
    keys.0
}

use read_fonts::tables::colr::Paint;

fn profile_child(colr: &Colr, r: Result<Paint, ReadError>, keys: &mut Keys, depth: u32, what: &str) {
    match r {
        Ok(c) => {
            keys.count(&format!("branch.closure.{what}.child-ok"));
            if depth < 3 {
                profile_paint(colr, &c, keys, depth + 1);
            }
        }
        Err(_) => keys.count(&format!("branch.closure.{what}.child-err")),
    }
}

fn profile_var(keys: &mut Keys, base: u32, n: u32) {
    let k = if base == u32::MAX {
        "none"
    } else if base.checked_add(n - 1).is_none() {
        "saturated"
    } else {
        "plain"
    };
    keys.count(&format!("branch.closure.var-index.{k}"));
}

/// the branches `Paint::v1_closure` takes on this paint
fn profile_paint(colr: &Colr, p: &Paint, keys: &mut Keys, depth: u32) {
    keys.count(&format!("branch.closure.paint.f{}", p.format()));
    macro_rules! unary {
        ($t:expr) => {
            profile_child(colr, $t.paint(), keys, depth, "unary")
        };
    }
    macro_rules! unary_var {
        ($t:expr, $n:expr) => {{
            profile_child(colr, $t.paint(), keys, depth, "unary");
            profile_var(keys, $t.var_index_base(), $n);
        }};
    }
    match p {
        Paint::ColrLayers(l) => {
            let n = l.num_layers();
            if n == 0 {
                keys.count("branch.closure.layers.zero");
                return;
            }
            let Some(Ok(ll)) = colr.layer_list() else {
                keys.count("branch.closure.layers.no-list");
                return;
            };
            let first = l.first_layer_index();
            if first.checked_add(n as u32 - 1).is_none() {
                keys.count("branch.closure.layers.saturated");
            }
            let last = first.saturating_add(n as u32 - 1);
            for i in (first..=last).take(4) {
                match ll.paint_offsets().get(i as usize) {
                    None => keys.count("branch.closure.layers.index-beyond"),
                    Some(o) => profile_child(colr, o.get().resolve::<Paint>(ll.offset_data()), keys, depth, "layers"),
                }
            }
        }
        Paint::Solid(_) => {}
        Paint::VarSolid(s) => profile_var(keys, s.var_index_base(), 1),
        Paint::LinearGradient(g) => keys.count(if g.color_line().is_ok() { "branch.closure.colorline.ok" } else { "branch.closure.colorline.err" }),
        Paint::RadialGradient(g) => keys.count(if g.color_line().is_ok() { "branch.closure.colorline.ok" } else { "branch.closure.colorline.err" }),
        Paint::SweepGradient(g) => keys.count(if g.color_line().is_ok() { "branch.closure.colorline.ok" } else { "branch.closure.colorline.err" }),
        Paint::VarLinearGradient(g) => {
            keys.count(if g.color_line().is_ok() { "branch.closure.varcolorline.ok" } else { "branch.closure.varcolorline.err" });
            profile_var(keys, g.var_index_base(), 6);
        }
        Paint::VarRadialGradient(g) => {
            keys.count(if g.color_line().is_ok() { "branch.closure.varcolorline.ok" } else { "branch.closure.varcolorline.err" });
            profile_var(keys, g.var_index_base(), 6);
        }
        Paint::VarSweepGradient(g) => {
            keys.count(if g.color_line().is_ok() { "branch.closure.varcolorline.ok" } else { "branch.closure.varcolorline.err" });
            profile_var(keys, g.var_index_base(), 4);
        }
        Paint::Glyph(g) => profile_child(colr, g.paint(), keys, depth, "glyph"),
        Paint::ColrGlyph(g) => {
            let k = match colr.v1_base_glyph(GlyphId::from(g.glyph_id())) {
                Ok(Some(_)) => "found",
                Ok(None) => "missing",
                Err(ReadError::NullOffset) => "no-base-list",
                Err(_) => "paint-err",
            };
            keys.count(&format!("branch.closure.colrglyph.{k}"));
        }
        Paint::Transform(t) => unary!(t),
        Paint::VarTransform(t) => {
            profile_child(colr, t.paint(), keys, depth, "unary");
            keys.count(if t.transform().is_ok() { "branch.closure.affine.ok" } else { "branch.closure.affine.err" });
        }
        Paint::Translate(t) => unary!(t),
        Paint::VarTranslate(t) => unary_var!(t, 2),
        Paint::Scale(t) => unary!(t),
        Paint::VarScale(t) => unary_var!(t, 2),
        Paint::ScaleAroundCenter(t) => unary!(t),
        Paint::VarScaleAroundCenter(t) => unary_var!(t, 4),
        Paint::ScaleUniform(t) => unary!(t),
        Paint::VarScaleUniform(t) => unary_var!(t, 1),
        Paint::ScaleUniformAroundCenter(t) => unary!(t),
        Paint::VarScaleUniformAroundCenter(t) => unary_var!(t, 3),
        Paint::Rotate(t) => unary!(t),
        Paint::VarRotate(t) => unary_var!(t, 1),
        Paint::RotateAroundCenter(t) => unary!(t),
        Paint::VarRotateAroundCenter(t) => unary_var!(t, 3),
        Paint::Skew(t) => unary!(t),
        Paint::VarSkew(t) => unary_var!(t, 2),
        Paint::SkewAroundCenter(t) => unary!(t),
        Paint::VarSkewAroundCenter(t) => unary_var!(t, 4),
        Paint::Composite(c) => {
            profile_child(colr, c.source_paint(), keys, depth, "composite.source");
            profile_child(colr, c.backdrop_paint(), keys, depth, "composite.backdrop");
        }
    }
}

fn run_colr(ctx: &mut Ctx) {
    let k = if ctx.thorough { 5 } else { 1 };
    for round in 0..14 * k {
        let version = if round % 5 == 0 { 0 } else { 1 };
        let order = (round % 3) as u32;
        let b = colr_table(&mut ctx.rng, version, order);
        ctx.count(&format!("colr.version{version}.order{order}"));
        ctx.count_n("colr.bytes", b.len() as u64);
        let vs = variants_of(&mut ctx.rng, &b, 6, false);
        for (i, v) in vs.iter().enumerate() {
            // closures on the base, every second prefix of the tail half, every second field variant / flip
            colr_cases(ctx, "colr", v, i == 0 || (i > b.len() / 2 && i % 2 == 0));
        }
    }
    // every paint format as root paint and as layer (closure dispatch of each `Paint*::v1_closure`)
    for fmt in 0..=33u8 {
        let env = PaintEnv { n_layers: 1, base_gids: vec![3] };
        let mut t = T::new();
        t.b.u16(1).u16(0).u32(0).u32(0).u16(0);
        let mut bl = T::new();
        bl.b.u32(1).u16(3);
        let p = paint_fmt(&mut ctx.rng, fmt, 1, &env);
        bl.off32(p);
        t.off32(bl);
        let mut ll = T::new();
        ll.b.u32(1);
        let p = paint_fmt(&mut ctx.rng, fmt, 2, &env);
        ll.off32(p);
        t.off32(ll);
        t.b.u32(0).u32(0).u32(0);
        let b = t.flat();
        ctx.count(&format!("paint-format.{fmt}"));
        let vs = variants_of(&mut ctx.rng, &b, 2, false);
        for (i, v) in vs.iter().enumerate() {
            // the base, the prefixes that cut the paints, the field variants; lookups on the base only
            if i == 0 {
                colr_cases(ctx, "paint", v, true);
            } else if i > 48 {
                colr_branches(ctx, v);
                let set: Vec<u32> = vec![2, 3, 4, 9];
                ask(ctx, format!("hc.clos {} {}", hex(v), join(&set)), v, || colr_closures(v, &set));
            }
        }
    }
    // cycles: a base glyph painting itself, two glyphs painting each other, layers that contain their
    // own PaintColrLayers; 255 layers
    let mut p = vec![];
    p.extend_from_slice(&[11, 0, 1]); // @0 ColrGlyph(1)
    p.extend_from_slice(&[11, 0, 2]); // @3 ColrGlyph(2)
    p.extend_from_slice(&[11, 0, 1]); // @6 ColrGlyph(1)
    p.extend_from_slice(&[1, 2, 0, 0, 0, 0]); // @9 ColrLayers(2 layers from 0)
    p.extend_from_slice(&[10, 0, 0, 6, 0, 9]); // @15 Glyph(paint @21, gid 9)
    p.extend_from_slice(&[1, 255, 0, 0, 0, 0]); // @21 ColrLayers(255 layers from 0)
    let cyc = colr_v1_raw(&[(1, 0), (2, 6), (3, 3), (4, 9)], &[9, 15], &p);
    colr_cases(ctx, "cycle", &cyc, true);
    // PaintColrLayers at the u32 boundary, var index bases at the boundary
    for first in [0xFFFF_FFFFu32, 0xFFFF_FFFE, 0xFFFF_FF00, 0, 1, 2] {
        for num in [0u8, 1, 2, 255] {
            let mut p = vec![1, num];
            p.extend_from_slice(&first.to_be_bytes());
            p.extend_from_slice(&[2, 0, 1, 0x40, 0]); // @6 Solid
            let v = colr_v1_raw(&[(0, 0)], &[6, 6], &p);
            colr_cases(ctx, "layers-boundary", &v, true);
        }
    }
    for base in [0xFFFF_FFFFu32, 0xFFFF_FFFE, 0xFFFF_FFFD, 0xFFFF_FFFA, 0, 7] {
        // PaintVarTranslate(var_index_base = base) → PaintVarSolid(base)
        let mut p = vec![15, 0, 0, 12, 0, 0, 0, 0];
        p.extend_from_slice(&base.to_be_bytes());
        p.extend_from_slice(&[3, 0, 1, 0x40, 0]);
        p.extend_from_slice(&base.to_be_bytes());
        let v = colr_v1_raw(&[(0, 0)], &[], &p);
        colr_cases(ctx, "var-boundary", &v, true);
    }
    // chains deeper than the nesting limit of 64
    for depth in [62usize, 63, 64, 65, 66, 80] {
        let mut p = Vec::new();
        for _ in 0..depth {
            p.extend_from_slice(&[24, 0, 0, 6, 0x10, 0]);
        }
        p.extend_from_slice(&[2, 0, 1, 0x40, 0]);
        let v = colr_v1_raw(&[(0, 0), (1, 6), (2, (6 * (depth - 1)) as u32)], &[0], &p);
        ctx.count(&format!("chain.{depth}"));
        colr_cases(ctx, "chain", &v, true);
    }
    // v0: num_layers 0xFFFF over few layers (the `start..end` loop far beyond the array)
    {
        let mut b = B::new();
        b.u16(0).u16(3).u32(14).u32(14 + 18).u16(3);
        for g in 0..3u16 {
            b.u16(g).u16(if g % 2 == 0 { 0 } else { 0xFFFF }).u16(0xFFFF);
        }
        for i in 0..3u16 {
            b.u16(500 + i).u16(i);
        }
        ask(ctx, format!("hc.clos {} 0 1 2 3", hex(&b.v)), &b.v, || colr_closures(&b.v, &[0, 1, 2, 3]));
        ctx.count("v0wide");
    }
}

// ------------------------------------------------------------------------------------------------
// SVG

use read_fonts::tables::svg::Svg;

fn svg_bytes(rng: &mut Rng) -> B {
    let n = rng.below(5) as usize;
    let mut b = B::new();
    b.u16(0).f32(10).u16(0).u16(0);
    let list_at = b.len();
    b.f16(n as u16);
    let mut start = rng.below(4) as u16;
    let mut ranges: Vec<(u16, u16)> = vec![];
    for _ in 0..n {
        let end = start + rng.below(3) as u16;
        ranges.push((start, end));
        start = end + 1 + rng.below(3) as u16;
    }
    match rng.below(6) {
        0 => rng.shuffle(&mut ranges),
        1 if n > 0 => ranges[n - 1].1 = 0xFFFF,
        2 if n > 0 => ranges[0] = (ranges[0].1, ranges[0].0), // end < start
        3 if n > 1 => ranges[1] = ranges[0],                  // duplicate
        _ => {}
    }
    let recs_at = b.len();
    for (s, e) in &ranges {
        b.f16(*s).f16(*e).f32(0).f32(0);
    }
    for k in 0..n {
        let doc = rbytes(rng, 6);
        let rel_off = (b.len() - list_at) as u32;
        let (off, len) = match rng.below(10) {
            0 => (rel_off, doc.len() as u32 + 1),     // one beyond the data (last doc)
            1 => (rel_off + doc.len() as u32, 0),     // empty at the very end
            2 => (rel_off + doc.len() as u32 + 1, 0), // one past the end
            3 => (0, 2),                              // the list header itself
            4 => (rel_off, u32::MAX - rel_off + rng.below(3) as u32), // offset + length around 2^32
            _ => (rel_off, doc.len() as u32),
        };
        b.set32(recs_at + 12 * k + 4, off);
        b.set32(recs_at + 12 * k + 8, len);
        b.bytes(&doc);
    }
    b
}

fn svg_gids(b: &[u8]) -> Vec<u32> {
    let at = be32(b, 2).unwrap_or(0) as usize;
    let n = be16(b, at).unwrap_or(0) as usize;
    let mut vals = vec![n as u64];
    for i in 0..n.min(8) {
        for d in [0, 2] {
            if let Some(g) = be16(b, at.saturating_add(2 + 12 * i + d)) {
                vals.push(g as u64);
            }
        }
    }
    let mut v: Vec<u32> = vec![0, 0xFFFF, 0x1_0000, u32::MAX];
    for x in vals {
        v.extend([x.saturating_sub(1) as u32, x as u32, x as u32 + 1]);
    }
    v.sort();
    v.dedup();
    v.truncate(24);
    v
}

fn svg_eval(bytes: &[u8], gids: &[u32]) -> Out {
    let mut out = Out::default();
    let Ok(svg) = Svg::read(FontData::new(bytes)) else {
        out.resp = join(&gids.iter().map(|_| "rerr").collect::<Vec<_>>());
        return out;
    };
    let list_at = be32(bytes, 2).unwrap_or(0) as usize;
    let base = bytes.as_ptr() as usize;
    let mut r: Vec<String> = vec![];
    for g in gids {
        r.push(match svg.glyph_data(GlyphId::new(*g)) {
            Ok(None) => "N".into(),
            Ok(Some(d)) => {
                let s = d.as_ptr() as usize - base;
                out.check("svg-doc-inside-list", s >= list_at && s + d.len() <= bytes.len(), || format!("glyph_data({g}): {}..{} of {}", s, s + d.len(), bytes.len()));
                format!("{}-{}", s - list_at, s - list_at + d.len())
            }
            Err(e) => err_str(&e),
        });
    }
    out.resp = join(&r);
    out
}

fn run_svg(ctx: &mut Ctx) {
    let k = if ctx.thorough { 5 } else { 1 };
    for _ in 0..9 * k {
        let b = svg_bytes(&mut ctx.rng);
        ctx.count("svg.bases");
        for v in variants(&mut ctx.rng, &b, 6) {
            let gids = svg_gids(&v);
            ask(ctx, format!("hc.svg {} {}", hex(&v), join(&gids)), &v, || svg_eval(&v, &gids));
            // branch distribution (from the recorded response)
            if let Some((_, resp)) = ctx.rec.cases.last() {
                let keys: Vec<&str> = resp.split(' ').map(|w| if w == "N" { "none" } else if w.starts_with('e') || w == "rerr" { "err" } else { "some" }).collect();
                for key in keys {
                    ctx.count(&format!("branch.svg.glyph_data.{key}"));
                }
            }
        }
    }
}

// ------------------------------------------------------------------------------------------------
// hdmx — input `[num_glyphs][table]`

use read_fonts::tables::hdmx::Hdmx;

fn hdmx_bytes(rng: &mut Rng) -> (u16, B) {
    let ng = rng.below(5) as u16;
    let natural = 2 + ng as u32;
    let size = match rng.below(9) {
        0 => 0,
        1 => 1,
        2 => 2,
        3 => natural.saturating_sub(1),
        4 => natural + 1,
        5 => (natural + 3) & !3,
        _ => natural,
    };
    let n = rng.below(7) as u16;
    let mut b = B::new();
    b.u16(0).f16(n).f32(size);
    let mut ppem: Vec<u8> = (0..n).map(|_| rng.below(30) as u8).collect();
    if rng.chance(3, 4) {
        ppem.sort();
    }
    if rng.chance(1, 4) && n > 0 {
        ppem[0] = 0;
        ppem[n as usize - 1] = 255;
    }
    for p in ppem {
        let mut r = vec![p, 9];
        r.extend((0..ng).map(|g| g as u8 + 1));
        r.resize(size as usize, 0xEE);
        b.bytes(&r);
    }
    if rng.chance(1, 3) {
        b.bytes(&rng.bytes(3));
    }
    (ng, b)
}

fn hdmx_eval(bytes: &[u8], ng: u16, sizes: &[u8]) -> Out {
    let mut out = Out::default();
    let Ok(hdmx) = Hdmx::read(FontData::new(bytes), ng) else {
        out.resp = "rerr".into();
        return out;
    };
    let recs = hdmx.records();
    let base = bytes.as_ptr() as usize + 8;
    let mut r: Vec<String> = vec![];
    for s in sizes {
        r.push(match hdmx.record_for_size(*s) {
            None => "N".into(),
            Some(rec) => {
                let start = rec.widths.as_ptr() as usize - 2 - base;
                out.check("hdmx-record-matches", rec.pixel_size == *s && bytes.get(8 + start) == Some(s), || format!("record_for_size({s}) → pixel size {}", rec.pixel_size));
                out.check("hdmx-record-inside", 8 + start + 2 + ng as usize <= bytes.len(), || format!("record_for_size({s}) → record at {start}"));
                format!("{start}")
            }
        });
    }
    out.resp = format!("{} {}", recs.len(), join(&r));
    out
}

fn run_hdmx(ctx: &mut Ctx) {
    let k = if ctx.thorough { 5 } else { 1 };
    for _ in 0..10 * k {
        let (ng, b) = hdmx_bytes(&mut ctx.rng);
        ctx.count("hdmx.bases");
        for v in variants(&mut ctx.rng, &b, 4) {
            for ng in [ng, ng + 1] {
                let mut sizes: Vec<u8> = vec![0, 1, 254, 255];
                // the pixel sizes of the records (first byte of each `size_device_record` bytes)
                let size = be32(&v, 4).unwrap_or(0) as usize;
                for i in 0..be16(&v, 2).unwrap_or(0).min(8) as usize {
                    if let Some(px) = v.get(8 + i * size) {
                        sizes.extend([px.wrapping_sub(1), *px, px.wrapping_add(1)]);
                    }
                }
                sizes.sort();
                sizes.dedup();
                ask(ctx, format!("hc.hdmx {} {} {}", ng, hex(&v), join(&sizes)), &v, || hdmx_eval(&v, ng, &sizes));
                if let Some((_, resp)) = ctx.rec.cases.last() {
                    let keys: Vec<&str> = resp.split(' ').skip(1).map(|w| if w == "N" { "branch.hdmx.none" } else { "branch.hdmx.found" }).collect();
                    for key in keys {
                        ctx.count(key);
                    }
                }
            }
        }
    }
}

// ------------------------------------------------------------------------------------------------
// VORG

use read_fonts::tables::vorg::Vorg;

fn vorg_bytes(rng: &mut Rng) -> B {
    let n = rng.below(7) as u16;
    let mut gids: Vec<u16> = (0..n).map(|_| if rng.chance(1, 6) { *rng.pick(&[0u16, 0xFFFF, 0xFFFE, 1]) } else { rng.below(30) as u16 }).collect();
    if rng.chance(3, 4) {
        gids.sort();
    }
    let mut b = B::new();
    b.u16(1).u16(0).i16(880).f16(n);
    for (i, g) in gids.iter().enumerate() {
        b.f16(*g).i16(i as i16 - 3);
    }
    b
}

fn run_vorg(ctx: &mut Ctx) {
    let k = if ctx.thorough { 5 } else { 1 };
    for _ in 0..8 * k {
        let b = vorg_bytes(&mut ctx.rng);
        ctx.count("vorg.bases");
        for v in variants(&mut ctx.rng, &b, 4) {
            let n = be16(&v, 6).unwrap_or(0) as usize;
            let mut vals: Vec<u64> = vec![n as u64];
            for i in 0..n.min(12) {
                if let Some(g) = be16(&v, 8 + 4 * i) {
                    vals.push(g as u64);
                }
            }
            let mut gids = edge32(&vals);
            gids.retain(|g| *g <= 0x1_0001 || *g >= 0xFFFF_FFFE);
            gids.truncate(40);
            ask(ctx, format!("hc.vorg {} {}", hex(&v), join(&gids)), &v, || {
                let mut out = Out::default();
                match Vorg::read(FontData::new(&v)) {
                    Err(_) => out.resp = "rerr".into(),
                    Ok(t) => {
                        let ys: Vec<u16> = gids.iter().map(|g| t.vertical_origin_y(GlyphId::new(*g)) as u16).collect();
                        let dflt = t.default_vert_origin_y() as u16;
                        let known: Vec<u16> = t.vert_origin_y_metrics().iter().map(|m| m.vert_origin_y() as u16).collect();
                        out.check("vorg-value-from-table", ys.iter().all(|y| *y == dflt || known.contains(y)), || format!("{ys:?} not all among {known:?} / {dflt}"));
                        out.resp = join(&ys);
                    }
                }
                out
            });
        }
    }
}

// ------------------------------------------------------------------------------------------------
// meta

use read_fonts::tables::meta::{Meta, Metadata};

fn meta_bytes(rng: &mut Rng) -> B {
    let n = rng.below(4) as usize;
    let mut b = B::new();
    b.u32(1).u32(0).u32(0).f32(n as u32);
    let recs_at = b.len();
    for _ in 0..n {
        let tag: &[u8; 4] = *rng.pick(&[b"dlng", b"slng", b"appl", b"bild"]);
        b.tag(tag).f32(0).f32(0);
    }
    for k in 0..n {
        let at = b.len();
        let data: Vec<u8> = match rng.below(5) {
            0 => vec![],
            1 => b"en-Latn, fr".to_vec(),
            2 => b",,".to_vec(),
            _ => rbytes(rng, 8),
        };
        let (off, len) = match rng.below(8) {
            0 => (at as u32, data.len() as u32 + 1),
            1 => (at as u32 + data.len() as u32, 0),
            2 => (at as u32 + data.len() as u32 + 1, 0),
            3 => (0, data.len() as u32),
            4 => (at as u32, u32::MAX),
            _ => (at as u32, data.len() as u32),
        };
        b.set32(recs_at + 12 * k + 4, off);
        b.set32(recs_at + 12 * k + 8, len);
        b.bytes(&data);
    }
    b
}

fn meta_eval(bytes: &[u8]) -> Out {
    let mut out = Out::default();
    let Ok(meta) = Meta::read(FontData::new(bytes)) else {
        out.resp = "rerr".into();
        return out;
    };
    let base = bytes.as_ptr() as usize;
    let mut r: Vec<String> = vec![];
    for rec in meta.data_maps() {
        r.push(match rec.data(meta.offset_data()) {
            Err(e) => err_str(&e),
            Ok(Metadata::Other(d)) => {
                let s = d.as_ptr() as usize - base;
                out.check("meta-slice-inside", s + d.len() <= bytes.len(), || format!("{}..{}", s, s + d.len()));
                format!("{}-{}O", s, s + d.len())
            }
            Ok(Metadata::ScriptLangTags(_)) => {
                // the array wraps exactly the `offset .. offset + length` bytes
                let (s, l) = (rec.data_offset().to_u32() as usize, rec.data_length() as usize);
                out.check("meta-slice-inside", s + l <= bytes.len(), || format!("{}..{}", s, s + l));
                format!("{}-{}L", s, s + l)
            }
        });
    }
    out.resp = join(&r);
    out
}

fn run_meta(ctx: &mut Ctx) {
    let k = if ctx.thorough { 5 } else { 1 };
    for _ in 0..10 * k {
        let b = meta_bytes(&mut ctx.rng);
        ctx.count("meta.bases");
        for v in variants(&mut ctx.rng, &b, 4) {
            ask(ctx, format!("hc.meta {}", hex(&v)), &v, || meta_eval(&v));
            if let Some((_, resp)) = ctx.rec.cases.last() {
                let keys: Vec<String> = resp.split(' ').filter(|w| *w != "-").map(|w| if w.ends_with('L') { "lang".to_string() } else if w.ends_with('O') && !w.starts_with('e') { "other".to_string() } else { w.to_string() }).collect();
                for key in keys {
                    ctx.count(&format!("branch.meta.data.{key}"));
                }
            }
        }
    }
}

// ------------------------------------------------------------------------------------------------
// compute_checksum

fn checksum_ref(b: &[u8]) -> u32 {
    let mut padded = b.to_vec();
    while padded.len() % 4 != 0 {
        padded.push(0);
    }
    let mut sum = 0u64;
    for q in padded.chunks(4) {
        sum += u32::from_be_bytes([q[0], q[1], q[2], q[3]]) as u64;
    }
    sum as u32
}

fn run_checksum(ctx: &mut Ctx) {
    let k = if ctx.thorough { 5 } else { 1 };
    for len in 0..=40usize {
        for style in 0..6 * k {
            let v: Vec<u8> = match style % 6 {
                0 => vec![0xFF; len],
                1 => vec![0; len],
                2 => (0..len).map(|i| i as u8 + 1).collect(),
                3 => (0..len).map(|i| if i % 4 == 0 { 0x80 } else { 0 }).collect(),
                _ => ctx.rng.bytes(len),
            };
            ctx.count(&format!("branch.checksum.rem{}", len % 4));
            ask(ctx, format!("hc.cksum {}", hex(&v)), &v, || {
                let mut out = Out::default();
                let c = read_fonts::tables::compute_checksum(&v);
                out.check("checksum-reference", c == checksum_ref(&v), || format!("{c} vs {}", checksum_ref(&v)));
                out.resp = c.to_string();
                out
            });
        }
    }
}

// ------------------------------------------------------------------------------------------------
// ArrayOfOffsets (STAT axis value array) / ArrayOfNullableOffsets (SequenceContextFormat1 rule sets)

use read_fonts::tables::layout::SequenceContextFormat1;
use read_fonts::tables::stat::AxisValueArray;

fn axis_values_bytes(rng: &mut Rng) -> (u16, B) {
    let n = rng.below(5) as usize;
    let mut t = T::new();
    for _ in 0..n {
        match rng.below(8) {
            0 => {
                t.b.f16(0);
            }
            1 => {
                t.b.f16(*rng.pick(&[1u16, 0xFFFF, 300]));
            }
            _ => {
                let mut v = T::new();
                let fmt = *rng.pick(&[1u16, 2, 3, 4, 4, 0, 5]);
                v.b.u16(fmt);
                match fmt {
                    1 => words(rng, &mut v.b, 5),
                    2 => words(rng, &mut v.b, 9),
                    3 => words(rng, &mut v.b, 7),
                    4 => {
                        let k = rng.below(3) as u16;
                        v.b.f16(k).u16(0).u16(256);
                        words(rng, &mut v.b, 3 * k as usize);
                    }
                    _ => words(rng, &mut v.b, 3),
                }
                t.off(2, v);
            }
        }
    }
    (n as u16, t.flat())
}

fn rule_sets_bytes(rng: &mut Rng) -> B {
    let n = rng.below(5) as u16;
    let mut t = T::new();
    t.b.u16(1).u16(0).f16(n);
    for _ in 0..n {
        match rng.below(6) {
            0 | 1 => {
                t.b.f16(0);
            }
            2 => {
                t.b.f16(*rng.pick(&[1u16, 0xFFFF, 200]));
            }
            _ => {
                let mut v = T::new();
                let k = rng.below(3) as u16;
                v.b.f16(k);
                words(rng, &mut v.b, k as usize);
                t.off(2, v);
            }
        }
    }
    t.flat()
}

fn arr_idxs(n: usize) -> Vec<usize> {
    let mut v = vec![0, 1, n.wrapping_sub(1), n, n + 1, 0xFFFF, u32::MAX as usize, u32::MAX as usize + 1, u32::MAX as usize + 7, usize::MAX];
    v.sort();
    v.dedup();
    v
}

fn run_arrays(ctx: &mut Ctx) {
    let k = if ctx.thorough { 5 } else { 1 };
    for _ in 0..10 * k {
        let (n, b) = axis_values_bytes(&mut ctx.rng);
        ctx.count("arr.bases");
        for v in variants(&mut ctx.rng, &b, 4) {
            for n in [n, n + 1] {
                let idxs = arr_idxs(n as usize);
                ask(ctx, format!("hc.arr {} {} {}", n, hex(&v), join(&idxs)), &v, || {
                    let mut out = Out::default();
                    let show = |r: Result<read_fonts::tables::stat::AxisValue, ReadError>| match r {
                        Ok(a) => format!("f{}", a.format()),
                        Err(e) => err_str(&e),
                    };
                    match AxisValueArray::read(FontData::new(&v), n) {
                        Err(_) => out.resp = "rerr".into(),
                        Ok(arr) => {
                            let a = arr.axis_values();
                            let its: Vec<String> = a.iter().take(n as usize + 2).map(show).collect();
                            out.check("array-iter-len", its.len() == a.len() && a.len() == n as usize, || format!("{} items, len {}", its.len(), a.len()));
                            let gets: Vec<String> = idxs.iter().map(|i| show(a.get(*i))).collect();
                            out.check("array-get-in-range", idxs.iter().zip(&gets).all(|(i, g)| *i < a.len() || g.starts_with("eI")), || format!("{gets:?}"));
                            out.resp = format!("{} {} | {}", its.len(), join(&its), join(&gets));
                        }
                    }
                    out
                });
            }
        }
    }
    for _ in 0..8 * k {
        let b = rule_sets_bytes(&mut ctx.rng);
        ctx.count("arrn.bases");
        for v in variants(&mut ctx.rng, &b, 4) {
            let n = be16(&v, 4).unwrap_or(0) as usize;
            let idxs = arr_idxs(n);
            ask(ctx, format!("hc.arrn {} {}", hex(&v), join(&idxs)), &v, || {
                let mut out = Out::default();
                let show = |r: Option<Result<read_fonts::tables::layout::SequenceRuleSet, ReadError>>| match r {
                    None => "N".to_string(),
                    Some(Ok(s)) => format!("ok{}", s.seq_rule_count()),
                    Some(Err(e)) => err_str(&e),
                };
                match SequenceContextFormat1::read(FontData::new(&v)) {
                    Err(_) => out.resp = "rerr".into(),
                    Ok(t) => {
                        let a = t.seq_rule_sets();
                        let its: Vec<String> = a.iter().take(n + 2).map(show).collect();
                        out.check("array-iter-len", its.len() == a.len() && a.len() == n, || format!("{} items, len {}", its.len(), a.len()));
                        let gets: Vec<String> = idxs.iter().map(|i| show(a.get(*i))).collect();
                        out.check("array-get-in-range", idxs.iter().zip(&gets).all(|(i, g)| *i < a.len() || g.starts_with("eI")), || format!("{gets:?}"));
                        out.resp = format!("{} {} | {}", its.len(), join(&its), join(&gets));
                    }
                }
                out
            });
        }
    }
}

pub fn run(ctx: &mut Ctx) {
    run_colr(ctx);
    run_svg(ctx);
    run_hdmx(ctx);
    run_vorg(ctx);
    run_meta(ctx);
    run_checksum(ctx);
    run_arrays(ctx);
    // branch distribution of the array getters, from the recorded responses
    let mut keys: Vec<String> = vec![];
    for (req, resp) in &ctx.rec.cases {
        if req.starts_with("hc.arr ") || req.starts_with("hc.arrn ") {
            let cmd = if req.starts_with("hc.arrn") { "arrn" } else { "arr" };
            for w in resp.split(' ') {
                let k = if w.starts_with("eI") {
                    "eI"
                } else if w.starts_with("eF") {
                    "eF"
                } else if w.starts_with("ok") {
                    "ok"
                } else if w.starts_with('f') {
                    "ok"
                } else if w == "eO" || w == "eNull" || w == "N" || w == "rerr" {
                    w
                } else {
                    continue;
                };
                keys.push(format!("branch.{cmd}.{k}"));
            }
        }
    }
    for k in keys {
        ctx.count(&k);
    }
}
