//! cmap (read-fonts/src/tables/cmap.rs): `Cmap::{map_codepoint,closure_glyphs}`,
//! `CmapSubtable::language`, `Cmap4::{map_codepoint,iter}` (`lookup_glyph_id`, `code_range`,
//! `Cmap4Iter`), `Cmap12::{map_codepoint,iter,iter_with_limits}` (`group`, `Cmap12Iter`,
//! `Cmap12IterLimits::{default,default_for_font}`), `Cmap14::{map_variant,iter,closure_glyphs}`
//! (`selector`, `Cmap14Iter`, `DefaultUvsIter`, `NonDefaultUvsIter`); formats 0/2/6/8/10/13 have no
//! hand-written code beyond `language()` and are read + traversed.
//!
//! Iterator caps are computed from the raw bytes by small independent models (exact number of
//! code points a format 4 / 12 iterator visits, exact item sequence of a format 14 iterator); the
//! point lookups are compared with linear searches (`hand.cmap.model`).
use super::misc::{rel, rel1};
use super::*;
use font_types::GlyphId;
use read_fonts::collections::IntSet;
use read_fonts::tables::cmap::{Cmap, Cmap12, Cmap12IterLimits, Cmap14, Cmap4, CmapSubtable, MapVariant};
use read_fonts::{FontData, FontRead, FontRef};

fn be16(b: &[u8], p: usize) -> Option<u16> {
    Some(u16::from_be_bytes([*b.get(p)?, *b.get(p.checked_add(1)?)?]))
}
fn be24(b: &[u8], p: usize) -> Option<u32> {
    Some(((*b.get(p)? as u32) << 16) | be16(b, p.checked_add(1)?)? as u32)
}
fn be32(b: &[u8], p: usize) -> Option<u32> {
    Some(((be16(b, p)? as u32) << 16) | be16(b, p.checked_add(2)?)? as u32)
}

fn scale(ctx: &Ctx, quick: usize) -> usize {
    if ctx.thorough {
        quick * 12
    } else {
        quick * 2
    }
}

/// items one call may pull out of an iterator whose legitimate length is font controlled
const BUDGET: u64 = 70_000;

fn fnv(b: &[u8]) -> u64 {
    let mut h = 0xcbf2_9ce4_8422_2325u64;
    for x in b {
        h = (h ^ *x as u64).wrapping_mul(0x0000_0100_0000_01b3);
    }
    h
}

// ------------------------------------------------------------------------------------------------
// format 4

#[derive(Clone, Debug)]
struct Seg {
    start: u16,
    end: u16,
    delta: i16,
    /// raw idRangeOffset
    ro: u16,
}

fn cmap4_bytes(segs: &[Seg], gids: &[u16], seg_count_x2: Option<u16>) -> B {
    let n = segs.len();
    let mut b = B::new();
    b.u16(4).f16((16 + 8 * n + 2 * gids.len()) as u16).u16(0).f16(seg_count_x2.unwrap_or(2 * n as u16)).u16(0).u16(0).u16(0);
    for s in segs {
        b.f16(s.end);
    }
    b.u16(0);
    for s in segs {
        b.f16(s.start);
    }
    for s in segs {
        b.i16(s.delta);
    }
    for s in segs {
        b.f16(s.ro);
    }
    for g in gids {
        b.u16(*g);
    }
    b
}

struct C4 {
    segs: Vec<Seg>,
    gids: Vec<u16>,
}

fn c4_parse(b: &[u8]) -> Option<C4> {
    let n = be16(b, 6)? as usize / 2;
    if b.len() < 16 + 8 * n {
        return None;
    }
    let segs = (0..n)
        .map(|i| Seg { end: be16(b, 14 + 2 * i).unwrap(), start: be16(b, 16 + 2 * n + 2 * i).unwrap(), delta: be16(b, 16 + 4 * n + 2 * i).unwrap() as i16, ro: be16(b, 16 + 6 * n + 2 * i).unwrap() })
        .collect();
    let gids = (0..(b.len() - 16 - 8 * n) / 2).map(|k| be16(b, 16 + 8 * n + 2 * k).unwrap()).collect();
    Some(C4 { segs, gids })
}

impl C4 {
    fn lookup(&self, i: usize, cp: u16) -> Option<u16> {
        let s = &self.segs[i];
        if s.ro == 0 {
            return Some((cp as i32 + s.delta as i32) as u16);
        }
        let off = (s.ro as usize / 2 + (cp as usize).wrapping_sub(s.start as usize)).saturating_sub(self.segs.len() - i);
        let g = *self.gids.get(off)?;
        (g != 0).then_some((g as i32 + s.delta as i32) as u16)
    }
    fn sorted(&self) -> bool {
        self.segs.iter().all(|s| s.start <= s.end) && self.segs.windows(2).all(|w| w[0].end < w[1].start)
    }
    /// number of code points `Cmap4Iter` visits
    fn visited(&self) -> u64 {
        let mut total = 0u64;
        let mut prev_end = 0u64;
        for (i, s) in self.segs.iter().enumerate() {
            let (mut a, mut e) = (s.start as u64, s.end as u64 + 1);
            if i > 0 {
                a = a.max(prev_end);
                e = e.max(prev_end);
            }
            total += e.saturating_sub(a);
            prev_end = e;
        }
        total
    }
    fn cps(&self) -> Vec<u32> {
        let mut vals = vec![];
        for s in self.segs.iter().take(20) {
            vals.push(s.start as u64);
            vals.push(s.end as u64);
            vals.push((s.start as u64 + s.end as u64) / 2);
        }
        edge32(&vals)
    }
}

fn w4(o: &mut Obs, t: &Cmap4, full: bool) {
    let bytes = t.offset_data().as_bytes();
    let Some(m) = c4_parse(bytes) else {
        o.note(99);
        return;
    };
    for cp in m.cps() {
        o.note(t.map_codepoint(cp).map(|g| g.to_u32() as u64 + 1).unwrap_or(0));
    }
    o.note(t.map_codepoint('A').map(|g| g.to_u32() as u64 + 1).unwrap_or(0));
    let visited = m.visited();
    // the iterator skips unmapped code points internally: its running time is bounded by the number
    // of visited code points, which never exceeds 65536 (ranges are made monotonic)
    assert!(visited <= 65536);
    if visited <= 6000 || full || fnv(bytes) % 8 == 0 {
        o.drain("Cmap4.iter", visited as usize, t.iter(), |o, (c, g)| o.note(((c as u64) << 32) | g.to_u32() as u64));
    } else {
        o.drain("Cmap4.iter", 1500, t.iter().take(1500), |o, (c, g)| o.note(((c as u64) << 32) | g.to_u32() as u64));
    }
}

fn cmap4_walk(bytes: &[u8], o: &mut Obs) {
    let r = Cmap4::read(FontData::new(bytes));
    if o.res(&r) {
        w4(o, &r.unwrap(), false);
    }
}

fn cmap4_walk_full(bytes: &[u8], o: &mut Obs) {
    let r = Cmap4::read(FontData::new(bytes));
    if o.res(&r) {
        w4(o, &r.unwrap(), true);
    }
}

fn cmap4_check(b: &[u8]) -> Option<String> {
    let t = Cmap4::read(FontData::new(b));
    let m = c4_parse(b);
    if t.is_ok() != m.is_some() {
        return Some(format!("Cmap4::read ok={} model readable={}", t.is_ok(), m.is_some()));
    }
    let (t, m) = (t.ok()?, m?);
    let sorted = m.sorted();
    for cp in m.cps() {
        let got = t.map_codepoint(cp).map(|g| g.to_u32());
        let hits: Vec<Option<u32>> = if cp > 0xFFFF { vec![] } else { (0..m.segs.len()).filter(|i| m.segs[*i].start as u32 <= cp && cp <= m.segs[*i].end as u32).map(|i| m.lookup(i, cp as u16).map(|g| g as u32)).collect() };
        let ok = if sorted { got == hits.first().copied().flatten() } else { got.is_none() || hits.contains(&got) };
        if !ok {
            return Some(format!("Cmap4::map_codepoint({cp:#x}) = {got:?}, linear search {hits:?}"));
        }
    }
    // the iterator against the model, when small
    if m.visited() <= 3000 {
        let mut want: Vec<(u32, u32)> = vec![];
        let mut prev_end = 0u32;
        for (i, s) in m.segs.iter().enumerate() {
            let (mut a, mut e) = (s.start as u32, s.end as u32 + 1);
            if i > 0 {
                a = a.max(prev_end);
                e = e.max(prev_end);
            }
            // lookups inside a clipped range still subtract the clipped start code
            let start_code = a as u16;
            for cp in a..e {
                let s = &m.segs[i];
                let g = if s.ro == 0 {
                    Some((cp as i32 + s.delta as i32) as u16)
                } else {
                    let off = (s.ro as usize / 2 + (cp as u16).wrapping_sub(start_code) as usize).saturating_sub(m.segs.len() - i);
                    m.gids.get(off).copied().filter(|g| *g != 0).map(|g| (g as i32 + s.delta as i32) as u16)
                };
                if let Some(g) = g {
                    want.push((cp, g as u32));
                }
            }
            prev_end = e;
        }
        let got: Vec<(u32, u32)> = t.iter().take(want.len() + 2).map(|(c, g)| (c, g.to_u32())).collect();
        if got != want {
            let k = got.iter().zip(want.iter()).position(|(a, b)| a != b).unwrap_or(got.len().min(want.len()));
            return Some(format!("Cmap4::iter: {} items, model {}; first difference at {k}: {:?} vs {:?}", got.len(), want.len(), got.get(k), want.get(k)));
        }
    }
    None
}

fn gen_cmap4(rng: &mut Rng) -> B {
    let n = 1 + rng.below(6) as usize;
    let ngid = rng.below(8) as usize;
    let gids: Vec<u16> = (0..ngid).map(|_| if rng.chance(1, 5) { 0 } else { rng.below(500) as u16 }).collect();
    let mut segs = vec![];
    let mut cur = rng.below(40) as u32;
    for i in 0..n {
        let last = i == n - 1;
        let (start, end) = if last && rng.chance(3, 4) { (0xFFFFu32, 0xFFFFu32) } else { (cur, cur + rng.below(12) as u32) };
        cur = end + 1 + rng.below(20) as u32;
        let ro = match rng.below(9) {
            0 | 1 | 2 => 0,
            3 => 2 * (n - i) as u16,                                        // first glyph array entry
            4 => (2 * (n - i) + 2 * ngid) as u16,                           // one past the array (for the first code)
            5 => (2 * (n - i) + 2 * ngid).saturating_sub(2 * (end - start) as usize + 2) as u16, // last code maps to the last entry
            6 => *rng.pick(&[1u16, 2, 3, 0xFFFE, 0xFFFF, 0x8000]),
            _ => (2 * (n - i) + 2 * rng.below(ngid as u64 + 1) as usize) as u16,
        };
        let delta = *rng.pick(&[0i16, 1, -1, 100, i16::MAX, i16::MIN, -29]);
        segs.push(Seg { start: start.min(0xFFFF) as u16, end: end.min(0xFFFF) as u16, delta, ro });
    }
    match rng.below(8) {
        0 => rng.shuffle(&mut segs),
        1 => {
            // overlapping
            let k = rng.below(n as u64) as usize;
            segs[k].start = 0;
        }
        2 => {
            let k = rng.below(n as u64) as usize;
            let s = &mut segs[k];
            std::mem::swap(&mut s.start, &mut s.end);
        }
        _ => {}
    }
    let x2 = match rng.below(10) {
        0 => Some(2 * n as u16 + 1),
        1 => Some(2 * n as u16 - 1),
        _ => None,
    };
    let mut b = cmap4_bytes(&segs, &gids, x2);
    if rng.chance(1, 4) {
        b.u8(rng.next() as u8); // odd trailing byte
    }
    b
}

// ------------------------------------------------------------------------------------------------
// format 12 / 13

fn cmap12_bytes(format: u16, groups: &[(u32, u32, u32)], num_groups: Option<u32>) -> B {
    let mut b = B::new();
    b.u16(format).u16(0).f32(16 + 12 * groups.len() as u32).u32(0).f32(num_groups.unwrap_or(groups.len() as u32));
    for (s, e, g) in groups {
        b.f32(*s).f32(*e).f32(*g);
    }
    b
}

fn c12_parse(b: &[u8]) -> Option<Vec<(u32, u32, u32)>> {
    let n = be32(b, 12)? as usize;
    if n.checked_mul(12)?.checked_add(16)? > b.len() {
        return None;
    }
    Some((0..n).map(|i| (be32(b, 16 + 12 * i).unwrap(), be32(b, 20 + 12 * i).unwrap(), be32(b, 24 + 12 * i).unwrap())).collect())
}

/// exact number of items of `Cmap12Iter`
fn c12_count(groups: &[(u32, u32, u32)], limits: Option<(u32, u32)>) -> u64 {
    let mut total = 0u64;
    let mut prev_end = 0u64;
    for (i, (s, e, g)) in groups.iter().enumerate() {
        let mut end = *e as u64 + 1;
        if let Some((max_char, glyph_count)) = limits {
            end = end.min(max_char as u64 + 1).min((glyph_count as u64).saturating_sub(*g as u64) + *s as u64);
        }
        let mut start = *s as u64;
        if i > 0 && start < prev_end {
            start = prev_end;
        }
        total = total.saturating_add(end.saturating_sub(start));
        prev_end = end;
    }
    total
}

fn c12_cps(groups: &[(u32, u32, u32)]) -> Vec<u32> {
    let mut vals = vec![];
    for (s, e, _) in groups.iter().take(16) {
        vals.push(*s as u64);
        vals.push(*e as u64);
        vals.push((*s as u64 + *e as u64) / 2);
    }
    edge32(&vals)
}

const LIMITS: [Option<(u32, u32)>; 7] = [None, Some((0x10FFFF, 0xFFFF)), Some((0x10FFFF, 0)), Some((0, u32::MAX)), Some((u32::MAX, u32::MAX)), Some((60, 25)), Some((0x10FFFF, 300))];

fn w12(o: &mut Obs, t: &Cmap12) {
    let bytes = t.offset_data().as_bytes();
    let Some(groups) = c12_parse(bytes) else {
        o.note(99);
        return;
    };
    for cp in c12_cps(&groups) {
        o.note(t.map_codepoint(cp).map(|g| g.to_u32() as u64 + 1).unwrap_or(0));
    }
    o.note(t.map_codepoint('\u{10FFFF}').map(|g| g.to_u32() as u64 + 1).unwrap_or(0));
    let d = Cmap12IterLimits::default();
    o.note(d.max_char as u64 ^ d.glyph_count as u64);
    for lim in LIMITS {
        let want = c12_count(&groups, lim);
        let it = match lim {
            None => t.iter(),
            Some((max_char, glyph_count)) => t.iter_with_limits(Cmap12IterLimits { max_char, glyph_count }),
        };
        let f = |o: &mut Obs, (c, g): (u32, GlyphId)| o.note(((c as u64) << 32) | g.to_u32() as u64);
        if want <= BUDGET && (want <= 6000 || fnv(bytes) % 4 == 0) {
            o.drain("Cmap12.iter", want as usize, it.clone(), f);
        } else {
            o.drain("Cmap12.iter", 1200, it.take(1200), f);
        }
    }
}

fn cmap12_walk(bytes: &[u8], o: &mut Obs) {
    let r = Cmap12::read(FontData::new(bytes));
    if o.res(&r) {
        w12(o, &r.unwrap());
    }
}

fn cmap12_check(b: &[u8]) -> Option<String> {
    let t = Cmap12::read(FontData::new(b));
    let m = c12_parse(b);
    if t.is_ok() != m.is_some() {
        return Some(format!("Cmap12::read ok={} model readable={}", t.is_ok(), m.is_some()));
    }
    let (t, groups) = (t.ok()?, m?);
    let sorted = groups.iter().all(|g| g.0 <= g.1) && groups.windows(2).all(|w| w[0].1 < w[1].0);
    for cp in c12_cps(&groups) {
        let got = t.map_codepoint(cp).map(|g| g.to_u32());
        let hits: Vec<u32> = groups.iter().filter(|g| g.0 <= cp && cp <= g.1).map(|g| g.2.wrapping_add(cp - g.0)).collect();
        let ok = if sorted { got == hits.first().copied() } else { got.is_none() || hits.contains(&got.unwrap()) };
        if !ok {
            return Some(format!("Cmap12::map_codepoint({cp:#x}) = {got:?}, linear search {hits:?}"));
        }
    }
    // item count of the iterators (exact)
    for lim in LIMITS {
        let want = c12_count(&groups, lim);
        if want > 20_000 {
            continue;
        }
        let it = match lim {
            None => t.iter(),
            Some((max_char, glyph_count)) => t.iter_with_limits(Cmap12IterLimits { max_char, glyph_count }),
        };
        let mut n = 0u64;
        let mut bad = None;
        for (c, g) in it.take(want as usize + 2) {
            n += 1;
            if let Some((max_char, glyph_count)) = lim {
                if c > max_char || g.to_u32() >= glyph_count {
                    bad = Some((c, g.to_u32()));
                }
            }
            if !groups.iter().any(|gr| gr.0 <= c && c <= gr.1 && gr.2.wrapping_add(c - gr.0) == g.to_u32()) {
                bad = Some((c, g.to_u32()));
            }
        }
        if n != want || bad.is_some() {
            return Some(format!("Cmap12 iter {lim:?}: {n} items, model {want}; item outside groups/limits: {bad:?}"));
        }
    }
    None
}

fn gen_groups(rng: &mut Rng) -> Vec<(u32, u32, u32)> {
    let n = rng.below(6) as usize;
    let mut groups = vec![];
    let mut cur = match rng.below(4) {
        0 => 0x10FFF0,
        1 => 0xFFF0,
        _ => rng.below(100) as u32,
    };
    for _ in 0..n {
        let end = cur + rng.below(30) as u32;
        let gid = match rng.below(6) {
            0 => 0xFFFF - rng.below(12) as u32,
            1 => u32::MAX - rng.below(12) as u32,
            2 => 290 + rng.below(12) as u32,
            _ => rng.below(60) as u32,
        };
        groups.push((cur, end, gid));
        cur = end + 1 + rng.below(10) as u32;
    }
    match rng.below(8) {
        0 => rng.shuffle(&mut groups),
        1 if n > 0 => {
            let k = rng.below(n as u64) as usize;
            groups[k].0 = groups[0].0; // overlap
        }
        2 if n > 0 => {
            let k = rng.below(n as u64) as usize;
            groups[k] = (groups[k].1, groups[k].0, groups[k].2); // end < start
        }
        3 if n > 1 => {
            // a later group ends before its predecessor
            groups[n - 1].1 = groups[0].0;
        }
        4 if n > 0 => groups[n - 1].1 = u32::MAX.min(groups[n - 1].0 + 40),
        _ => {}
    }
    groups
}

// ------------------------------------------------------------------------------------------------
// format 14

#[derive(Clone, Default)]
struct Sel {
    selector: u32,
    /// (start, additional_count)
    default: Option<Vec<(u32, u8)>>,
    non_default: Option<Vec<(u32, u16)>>,
}

fn cmap14_bytes(rng: &mut Rng, sels: &[Sel], hostile_offsets: bool) -> B {
    let mut b = B::new();
    b.u16(14).f32(0).f32(sels.len() as u32);
    for s in sels {
        b.f24(s.selector).f32(0).f32(0);
    }
    for (i, s) in sels.iter().enumerate() {
        if let Some(d) = &s.default {
            let at = b.len() as u32;
            b.set32(10 + 11 * i + 3, at);
            b.f32(d.len() as u32);
            for (st, add) in d {
                b.f24(*st).f8(*add);
            }
        }
        if let Some(nd) = &s.non_default {
            let at = b.len() as u32;
            b.set32(10 + 11 * i + 7, at);
            b.f32(nd.len() as u32);
            for (u, g) in nd {
                b.f24(*u).u16(*g);
            }
        }
    }
    let len = b.len() as u32;
    b.set32(2, len);
    if hostile_offsets && !sels.is_empty() {
        let i = rng.below(sels.len() as u64) as usize;
        let which = 3 + 4 * rng.below(2) as usize;
        let v = match rng.below(6) {
            0 => len,         // one past the end
            1 => len - 1,     // the last byte
            2 => len - 4,     // a count with no records behind it
            3 => 10 + 11 * i as u32, // its own record
            4 => 6,           // the selector count
            _ => u32::MAX,
        };
        b.set32(10 + 11 * i + which, v);
    }
    b
}

/// the selector records as the real code sees them: (selector, default ranges, mappings); a UVS
/// table that does not parse is `None`
#[allow(clippy::type_complexity)]
fn c14_parse(b: &[u8]) -> Option<Vec<(u32, Option<Vec<(u32, u8)>>, Option<Vec<(u32, u16)>>)>> {
    let n = be32(b, 6)? as usize;
    if n.checked_mul(11)?.checked_add(10)? > b.len() {
        return None;
    }
    let table = |off: u32, rec: usize| -> Option<Vec<(u32, u32)>> {
        let off = off as usize;
        if off == 0 || off > b.len() {
            return None;
        }
        let d = &b[off..];
        let k = be32(d, 0)? as usize;
        if k.checked_mul(rec)?.checked_add(4)? > d.len() {
            return None;
        }
        Some((0..k).map(|j| (be24(d, 4 + rec * j).unwrap(), if rec == 4 { d[4 + rec * j + 3] as u32 } else { be16(d, 4 + rec * j + 3).unwrap() as u32 })).collect())
    };
    Some(
        (0..n)
            .map(|i| {
                let at = 10 + 11 * i;
                let d = table(be32(b, at + 3).unwrap(), 4).map(|v| v.into_iter().map(|(a, c)| (a, c as u8)).collect());
                let nd = table(be32(b, at + 7).unwrap(), 5).map(|v| v.into_iter().map(|(a, c)| (a, c as u16)).collect());
                (be24(b, at).unwrap(), d, nd)
            })
            .collect(),
    )
}

#[allow(clippy::type_complexity)]
fn c14_total(m: &[(u32, Option<Vec<(u32, u8)>>, Option<Vec<(u32, u16)>>)]) -> u64 {
    m.iter().map(|(_, d, nd)| d.as_ref().map(|d| d.iter().map(|r| r.1 as u64 + 1).sum::<u64>()).unwrap_or(0) + nd.as_ref().map(|n| n.len() as u64).unwrap_or(0)).fold(0u64, |a, b| a.saturating_add(b))
}

#[allow(clippy::type_complexity)]
fn c14_args(m: &[(u32, Option<Vec<(u32, u8)>>, Option<Vec<(u32, u16)>>)]) -> (Vec<u32>, Vec<u32>) {
    let mut sels = vec![];
    let mut cps = vec![];
    for (s, d, nd) in m.iter().take(8) {
        sels.push(*s as u64);
        for (a, c) in d.iter().flatten().take(6) {
            cps.push(*a as u64);
            cps.push(*a as u64 + *c as u64);
        }
        for (u, _) in nd.iter().flatten().take(6) {
            cps.push(*u as u64);
        }
    }
    let mut sels = edge32(&sels);
    sels.retain(|s| [0, 1, 0xFFFFFF, 0x1000000, u32::MAX].contains(s) || m.iter().any(|r| (r.0 as i64 - *s as i64).abs() <= 1));
    (sels, edge32(&cps))
}

fn mv(v: Option<MapVariant>) -> u64 {
    match v {
        None => 0,
        Some(MapVariant::UseDefault) => 1,
        Some(MapVariant::Variant(g)) => 2 + g.to_u32() as u64,
    }
}

fn w14(o: &mut Obs, t: &Cmap14) {
    let bytes = t.offset_data().as_bytes();
    let Some(m) = c14_parse(bytes) else {
        o.note(99);
        return;
    };
    let (sels, cps) = c14_args(&m);
    for s in &sels {
        for c in &cps {
            o.note(mv(t.map_variant(*c, *s)));
        }
    }
    o.note(mv(t.map_variant('a', '\u{FE00}')));
    let total = c14_total(&m);
    let f = |o: &mut Obs, (c, s, v): (u32, u32, MapVariant)| {
        o.note(((c as u64) << 32) | s as u64);
        o.note(mv(Some(v)));
    };
    if total <= BUDGET {
        o.drain("Cmap14.iter", total as usize, t.iter(), f);
        let it = t.iter();
        o.drain("Cmap14Iter.clone", total as usize, it.clone().skip(1), f);
    } else {
        o.drain("Cmap14.iter", 1200, t.iter().take(1200), f);
    }
    // closure: at most one glyph per non-default mapping
    let n_map: u64 = m.iter().map(|r| r.2.as_ref().map(|n| n.len() as u64).unwrap_or(0)).sum();
    let mut unicodes: IntSet<u32> = IntSet::empty();
    for s in &sels {
        unicodes.insert(*s);
    }
    for c in &cps {
        unicodes.insert(*c);
    }
    let mut glyphs: IntSet<GlyphId> = IntSet::empty();
    t.closure_glyphs(&unicodes, &mut glyphs);
    assert!(glyphs.len() <= n_map, "closure_glyphs added {} glyphs for {} mappings", glyphs.len(), n_map);
    o.note(glyphs.len());
    if let Some(g) = glyphs.last() {
        o.note(g.to_u32() as u64);
    }
}

fn cmap14_walk(bytes: &[u8], o: &mut Obs) {
    let r = Cmap14::read(FontData::new(bytes));
    if o.res(&r) {
        w14(o, &r.unwrap());
    }
}

fn cmap14_check(b: &[u8]) -> Option<String> {
    let t = Cmap14::read(FontData::new(b));
    let m = c14_parse(b);
    if t.is_ok() != m.is_some() {
        return Some(format!("Cmap14::read ok={} model readable={}", t.is_ok(), m.is_some()));
    }
    let (t, m) = (t.ok()?, m?);
    // iterator: exact sequence
    if c14_total(&m) <= 20_000 {
        let mut want: Vec<(u32, u32, u64)> = vec![];
        for (s, d, nd) in &m {
            for (a, c) in d.iter().flatten() {
                for cp in *a..=*a + *c as u32 {
                    want.push((cp, *s, 1));
                }
            }
            for (u, g) in nd.iter().flatten() {
                want.push((*u, *s, 2 + *g as u64));
            }
        }
        let got: Vec<(u32, u32, u64)> = t.iter().take(want.len() + 2).map(|(c, s, v)| (c, s, mv(Some(v)))).collect();
        if got != want {
            let k = got.iter().zip(want.iter()).position(|(a, b)| a != b).unwrap_or(got.len().min(want.len()));
            return Some(format!("Cmap14::iter: {} items, model {}; first difference at {k}: {:?} vs {:?}", got.len(), want.len(), got.get(k), want.get(k)));
        }
    }
    // map_variant against linear searches, when every array is sorted (else any hit is acceptable)
    let sel_sorted = m.windows(2).all(|w| w[0].0 < w[1].0);
    let (sels, cps) = c14_args(&m);
    for s in &sels {
        let recs: Vec<_> = m.iter().filter(|r| r.0 == *s).collect();
        for c in &cps {
            let got = mv(t.map_variant(*c, *s));
            let mut acceptable: Vec<u64> = vec![];
            let mut all_sorted = sel_sorted;
            for r in &recs {
                let d_hit = r.1.iter().flatten().any(|(a, k)| *a <= *c && *c <= *a + *k as u32);
                let d_sorted = r.1.as_ref().map(|d| d.windows(2).all(|w| w[0].0 + w[0].1 as u32 + 0 < w[1].0)).unwrap_or(true);
                let nd_hits: Vec<u64> = r.2.iter().flatten().filter(|(u, _)| u == c).map(|(_, g)| 2 + *g as u64).collect();
                let nd_sorted = r.2.as_ref().map(|d| d.windows(2).all(|w| w[0].0 < w[1].0)).unwrap_or(true);
                all_sorted &= d_sorted && nd_sorted;
                if d_hit {
                    acceptable.push(1);
                }
                acceptable.extend(nd_hits);
                acceptable.push(0);
            }
            let exact = if all_sorted { recs.first().map(|_| acceptable[0]).unwrap_or(0) } else { got };
            let ok = if all_sorted { got == exact } else { got == 0 || acceptable.contains(&got) };
            if !ok {
                return Some(format!("Cmap14::map_variant({c:#x}, {s:#x}) = {got}, model {acceptable:?} (sorted={all_sorted})"));
            }
        }
    }
    None
}

fn gen_sels(rng: &mut Rng) -> Vec<Sel> {
    let n = rng.below(4) as usize;
    let mut sels = vec![];
    let mut s = *rng.pick(&[0xFE00u32, 0xE0100, 0, 0xFFFFF0]);
    for _ in 0..n {
        let default = if rng.chance(2, 3) {
            let k = rng.below(4) as usize;
            let mut v = vec![];
            let mut cur = *rng.pick(&[0x30u32, 0x4E00, 0x10FF00, 0xFFFF00, 0xFFFFF0]);
            for _ in 0..k {
                let add = match rng.below(5) {
                    0 => 0,
                    1 => 255,
                    _ => rng.below(12) as u8,
                };
                v.push((cur.min(0xFFFFFF), add));
                cur = cur + add as u32 + 1 + rng.below(8) as u32;
            }
            if rng.chance(1, 6) {
                rng.shuffle(&mut v);
            }
            if rng.chance(1, 6) && k > 0 {
                v[k - 1] = (0xFFFFFF, 255); // start + additional_count beyond u24
            }
            Some(v)
        } else {
            None
        };
        let non_default = if rng.chance(2, 3) {
            let k = rng.below(5) as usize;
            let mut v = vec![];
            let mut cur = *rng.pick(&[0x28u32, 0x4E00, 0xFFFFF0]);
            for _ in 0..k {
                v.push((cur.min(0xFFFFFF), rng.below(400) as u16));
                cur += 1 + rng.below(9) as u32;
            }
            if rng.chance(1, 6) {
                rng.shuffle(&mut v);
            }
            Some(v)
        } else {
            None
        };
        sels.push(Sel { selector: s.min(0xFFFFFF), default, non_default });
        s += 1 + rng.below(3) as u32;
    }
    match rng.below(8) {
        0 => rng.shuffle(&mut sels),
        1 if n > 1 => sels[1].selector = sels[0].selector, // duplicate
        _ => {}
    }
    sels
}

// ------------------------------------------------------------------------------------------------
// the other formats and the whole table

fn other_subtable(rng: &mut Rng, format: u16) -> B {
    let mut b = B::new();
    match format {
        0 => {
            b.u16(0).f16(262).u16(7);
            b.bytes(&rng.bytes(256));
        }
        2 => {
            b.u16(2).f16(518 + 8).u16(7);
            for _ in 0..256 {
                b.u16(0);
            }
            b.u16(0).f16(4).i16(1).f16(2).bytes(&rng.bytes(8));
        }
        6 => {
            let n = rng.below(6) as u16;
            b.u16(6).f16(10 + 2 * n).u16(1).f16(0x20).f16(n);
            b.bytes(&rng.bytes(2 * n as usize));
        }
        8 => {
            let n = rng.below(3) as u32;
            b.u16(8).u16(0).f32(16 + 8192 + 12 * n).u32(2);
            b.zeros(8192);
            b.f32(n);
            for i in 0..n {
                b.f32(0x10000 + 16 * i).f32(0x10000 + 16 * i + 3).f32(i);
            }
        }
        10 => {
            let n = rng.below(6) as u32;
            b.u16(10).u16(0).f32(20 + 2 * n).u32(3).f32(0x1F600).f32(n);
            b.bytes(&rng.bytes(2 * n as usize));
        }
        _ => {
            let g = gen_groups(rng);
            return cmap12_bytes(13, &g, None);
        }
    }
    b
}

fn sub_walk(o: &mut Obs, st: &CmapSubtable, small: bool) {
    o.note(st.format() as u64);
    o.note(st.language() as u64);
    match st {
        CmapSubtable::Format4(t) => w4(o, t, false),
        CmapSubtable::Format12(t) => w12(o, t),
        CmapSubtable::Format14(t) => w14(o, t),
        CmapSubtable::Format0(t) => o.note(t.glyph_id_array().len() as u64),
        CmapSubtable::Format2(t) => o.note(t.sub_header_keys().len() as u64),
        CmapSubtable::Format6(t) => o.note(t.glyph_id_array().len() as u64),
        CmapSubtable::Format8(t) => o.note(t.groups().len() as u64),
        CmapSubtable::Format10(t) => o.note(t.glyph_id_array().len() as u64),
        CmapSubtable::Format13(t) => {
            o.note(t.groups().len() as u64);
            if small {
                o.note(format!("{t:?}").len() as u64);
            }
        }
    }
}

fn subtable_walk(bytes: &[u8], o: &mut Obs) {
    let r = CmapSubtable::read(FontData::new(bytes));
    if o.res(&r) {
        sub_walk(o, &r.unwrap(), bytes.len() <= 200);
    }
}

fn cmap_table(subs: &[(u16, u16, usize)], tables: &[B]) -> B {
    let mut b = B::new();
    b.u16(0).f16(subs.len() as u16);
    for (p, e, _) in subs {
        b.u16(*p).u16(*e).f32(0);
    }
    let mut at = vec![];
    for t in tables {
        at.push(b.append(t));
    }
    for (k, (_, _, which)) in subs.iter().enumerate() {
        if let Some(a) = at.get(*which) {
            b.set32(4 + 8 * k + 4, *a as u32);
        }
    }
    b
}

fn cmap_cps(bytes: &[u8]) -> Vec<u32> {
    // code points mentioned by the first format 4 / 12 subtables
    let mut vals = vec![0x41u64];
    let n = be16(bytes, 2).unwrap_or(0) as usize;
    for k in 0..n.min(6) {
        let Some(off) = be32(bytes, 4 + 8 * k + 4) else { break };
        let Some(st) = bytes.get(off as usize..) else { continue };
        match be16(st, 0) {
            Some(4) => {
                if let Some(m) = c4_parse(st) {
                    vals.extend(m.segs.iter().take(6).flat_map(|s| [s.start as u64, s.end as u64]));
                }
            }
            Some(12) => {
                if let Some(g) = c12_parse(st) {
                    vals.extend(g.iter().take(6).flat_map(|g| [g.0 as u64, g.1 as u64]));
                }
            }
            _ => {}
        }
    }
    edge32(&vals)
}

fn cmap_walk(bytes: &[u8], o: &mut Obs) {
    let r = Cmap::read(FontData::new(bytes));
    if !o.res(&r) {
        return;
    }
    let cmap = r.unwrap();
    let cps = cmap_cps(bytes);
    for cp in &cps {
        o.note(cmap.map_codepoint(*cp).map(|g| g.to_u32() as u64 + 1).unwrap_or(0));
    }
    o.note(cmap.map_codepoint('A').map(|g| g.to_u32() as u64 + 1).unwrap_or(0));
    let mut unicodes: IntSet<u32> = IntSet::empty();
    for c in &cps {
        unicodes.insert(*c);
    }
    unicodes.insert_range(0xFE00..=0xFE0F);
    unicodes.insert_range(0x20..=0x7F);
    let mut glyphs: IntSet<GlyphId> = IntSet::empty();
    cmap.closure_glyphs(&unicodes, &mut glyphs);
    assert!(glyphs.len() <= bytes.len() as u64 / 5 + 1);
    o.note(glyphs.len());
    for rec in cmap.encoding_records().iter().take(8) {
        o.note(rec.platform_id() as u16 as u64);
        let st = rec.subtable(cmap.offset_data());
        if o.res(&st) {
            sub_walk(o, &st.unwrap(), bytes.len() <= 300);
        }
    }
}

/// `Cmap::map_codepoint`: the first format 4 / 12 subtable (in record order) that maps the code point
fn cmap_check(b: &[u8]) -> Option<String> {
    let cmap = Cmap::read(FontData::new(b)).ok()?;
    for cp in cmap_cps(b) {
        let mut want = None;
        for rec in cmap.encoding_records() {
            let g = match rec.subtable(cmap.offset_data()) {
                Ok(CmapSubtable::Format4(t)) => t.map_codepoint(cp),
                Ok(CmapSubtable::Format12(t)) => t.map_codepoint(cp),
                _ => None,
            };
            if g.is_some() {
                want = g;
                break;
            }
        }
        if cmap.map_codepoint(cp) != want {
            return Some(format!("Cmap::map_codepoint({cp:#x}) = {:?}, first mapping subtable gives {want:?}", cmap.map_codepoint(cp)));
        }
    }
    None
}

fn limits_walk(bytes: &[u8], o: &mut Obs) {
    if let Ok(f) = FontRef::new(bytes) {
        let l = Cmap12IterLimits::default_for_font(&f);
        o.note(l.max_char as u64);
        o.note(l.glyph_count as u64);
        assert!(l.glyph_count <= 0xFFFF && l.max_char == 0x10FFFF);
    }
}

pub fn run(ctx: &mut Ctx) {
    // ---- format 4
    for _ in 0..scale(ctx, 36) {
        let b = gen_cmap4(&mut ctx.rng);
        ctx.drive("cmap4", &b, &cmap4_walk);
        rel(ctx, "model", "cmap4", &b, &cmap4_check);
        ctx.count("format4");
    }
    // id_range_offset arithmetic at the array ends: one segment [s, s+2], n segments in total,
    // glyph array of g entries, range offset = every even/odd value around the array
    for n in 1..=3usize {
        for g in 0..=3usize {
            for i in 0..n {
                for ro in 0..=(2 * (n - i) + 2 * g + 4) as u16 {
                    let mut segs: Vec<Seg> = (0..n).map(|k| Seg { start: 10 * k as u16, end: 10 * k as u16 + 2, delta: 0, ro: 0 }).collect();
                    segs[i].ro = ro;
                    segs[i].delta = -7;
                    let gids: Vec<u16> = (0..g as u16).map(|k| 100 + k).collect();
                    let b = cmap4_bytes(&segs, &gids, None);
                    ctx.call("cmap4", &b.v, &cmap4_walk);
                    rel1(ctx, "model", "cmap4", &b.v, &cmap4_check);
                }
            }
        }
    }
    ctx.count("format4-range-offset-sweep");
    // many overlapping / backwards / full ranges: the iterator stays within 65536 visited code points
    for k in 0..scale(ctx, 6) {
        let n = 4 + 6 * k;
        let segs: Vec<Seg> = (0..n)
            .map(|i| match (k + i) % 4 {
                0 => Seg { start: 0, end: 0xFFFF, delta: 1, ro: 0 },
                1 => Seg { start: 0xFFFF, end: 0, delta: 1, ro: 0 },
                2 => Seg { start: 0x8000, end: 0xFFFE, delta: 0, ro: 2 * (n - i) as u16 },
                _ => Seg { start: ctx.rng.below(0x10000) as u16, end: ctx.rng.below(0x10000) as u16, delta: 3, ro: 0 },
            })
            .collect();
        let b = cmap4_bytes(&segs, &[1, 2, 3], None);
        ctx.call("cmap4", &b.v, &cmap4_walk_full);
        for cut in [b.v.len() - 1, b.v.len() - 6, 16 + 8 * n, 16 + 8 * n - 1] {
            ctx.call("cmap4", &b.v[..cut], &cmap4_walk_full);
        }
    }
    ctx.count("format4-overlap");
    ctx.drive_random("cmap4", scale(ctx, 1200), 64, &|bytes: &[u8], o: &mut Obs| {
        let mut v = bytes.to_vec();
        if v.len() >= 8 {
            v[6] = 0;
            v[7] &= 0x0F;
        }
        cmap4_walk(&v, o)
    });

    // ---- format 12 (and the limits)
    for _ in 0..scale(ctx, 40) {
        let g = gen_groups(&mut ctx.rng);
        let ng = match ctx.rng.below(8) {
            0 => Some(g.len() as u32 + 1),
            1 => Some((g.len() as u32).saturating_sub(1)),
            _ => None,
        };
        let b = cmap12_bytes(12, &g, ng);
        ctx.drive("cmap12", &b, &cmap12_walk);
        rel(ctx, "model", "cmap12", &b, &cmap12_check);
        ctx.count("format12");
    }
    // groups around char::MAX / u32::MAX / the glyph limits
    for (s, e, g) in [(0x10FFF0u32, 0x10FFFFu32, 0u32), (0x10FFF0, 0x110010, 0), (u32::MAX - 5, u32::MAX, 0), (u32::MAX, u32::MAX, u32::MAX), (0, 10, 0xFFFF - 5), (0, 10, 0xFFFF), (0, 10, u32::MAX - 3), (5, 4, 0), (0, 0, 0), (0x10FFFF, 0x10FFFF, 0xFFFE)] {
        for second in [None, Some((s, e, g)), Some((0u32, 3u32, 1u32)), Some((e, e.saturating_add(3), 1))] {
            let mut groups = vec![(s, e, g)];
            groups.extend(second);
            let b = cmap12_bytes(12, &groups, None);
            ctx.call("cmap12", &b.v, &cmap12_walk);
            rel1(ctx, "model", "cmap12", &b.v, &cmap12_check);
        }
    }
    ctx.count("format12-limit-sweep");
    ctx.drive_random("cmap12", scale(ctx, 1200), 64, &|bytes: &[u8], o: &mut Obs| {
        let mut v = bytes.to_vec();
        if v.len() >= 16 {
            v[12..15].copy_from_slice(&[0, 0, 0]);
            v[15] &= 7;
        }
        cmap12_walk(&v, o)
    });
    for ng in [None, Some(0u16), Some(1), Some(0xFFFF)] {
        let mut b = B::new();
        match ng {
            None => {
                b.u32(0x0001_0000).u16(0).u16(0).u16(0).u16(0);
            }
            Some(n) => {
                b.u32(0x0001_0000).u16(1).u16(0).u16(0).u16(0).tag(b"maxp").u32(0).f32(28).f32(6).u32(0x5000).f16(n);
            }
        }
        ctx.drive("cmap12-limits", &b, &limits_walk);
    }

    // ---- format 14
    for round in 0..scale(ctx, 40) {
        let sels = gen_sels(&mut ctx.rng);
        let b = cmap14_bytes(&mut ctx.rng, &sels, round % 3 == 0);
        ctx.drive("cmap14", &b, &cmap14_walk);
        rel(ctx, "model", "cmap14", &b, &cmap14_check);
        ctx.count("format14");
    }
    // default UVS ranges: every additional_count for starts around the u24 / Unicode ends
    for start in [0u32, 0x10FF00, 0x10FFFF, 0xFFFF00, 0xFFFFFE, 0xFFFFFF] {
        for add in [0u8, 1, 2, 0x7F, 0xFE, 0xFF] {
            let sels = vec![Sel { selector: 0xFE00, default: Some(vec![(start, add), (start, add)]), non_default: Some(vec![(start, 7)]) }];
            let b = cmap14_bytes(&mut ctx.rng, &sels, false);
            ctx.call("cmap14", &b.v, &cmap14_walk);
            rel1(ctx, "model", "cmap14", &b.v, &cmap14_check);
        }
    }
    // many selector records sharing one big default UVS table
    {
        let mut b = B::new();
        let n = 12u32;
        b.u16(14).u32(0).u32(n);
        for i in 0..n {
            b.u24(0xFE00 + i).u32(10 + 11 * n).u32(0);
        }
        b.u32(16);
        for i in 0..16u32 {
            b.u24(0x1000 * i).u8(0xFF);
        }
        ctx.call("cmap14", &b.v, &cmap14_walk);
        rel1(ctx, "model", "cmap14", &b.v, &cmap14_check);
    }
    ctx.count("format14-range-sweep");
    ctx.drive_random("cmap14", scale(ctx, 1200), 72, &|bytes: &[u8], o: &mut Obs| {
        let mut v = bytes.to_vec();
        if v.len() >= 10 {
            v[6..9].copy_from_slice(&[0, 0, 0]);
            v[9] &= 3;
        }
        cmap14_walk(&v, o)
    });

    // ---- the other formats, CmapSubtable dispatch
    for round in 0..scale(ctx, 18) {
        let format = [0u16, 2, 6, 8, 10, 13][round % 6];
        let b = other_subtable(&mut ctx.rng, format);
        ctx.drive("subtable", &b, &subtable_walk);
        ctx.count(&format!("format{format}"));
    }
    ctx.drive_random("subtable", scale(ctx, 800), 48, &|bytes: &[u8], o: &mut Obs| {
        let mut v = bytes.to_vec();
        if v.len() >= 2 {
            v[0] = 0;
            v[1] = [0u8, 2, 4, 6, 8, 10, 12, 13, 14, 1, 15][(v[1] % 11) as usize];
        }
        subtable_walk(&v, o)
    });

    // ---- whole tables
    for _ in 0..scale(ctx, 24) {
        let mut tables: Vec<B> = vec![];
        for _ in 0..1 + ctx.rng.below(3) {
            let t = match ctx.rng.below(6) {
                0 | 1 => gen_cmap4(&mut ctx.rng),
                2 | 3 => {
                    let g = gen_groups(&mut ctx.rng);
                    cmap12_bytes(12, &g, None)
                }
                4 => {
                    let s = gen_sels(&mut ctx.rng);
                    cmap14_bytes(&mut ctx.rng, &s, false)
                }
                _ => {
                    let f = *ctx.rng.pick(&[6u16, 10, 13]);
                    other_subtable(&mut ctx.rng, f)
                }
            };
            tables.push(t);
        }
        let n_rec = 1 + ctx.rng.below(4) as usize;
        let subs: Vec<(u16, u16, usize)> = (0..n_rec).map(|_| (*ctx.rng.pick(&[0u16, 1, 3, 4, 0xFFFF]), *ctx.rng.pick(&[0u16, 1, 3, 4, 5, 10]), ctx.rng.below(tables.len() as u64 + 1) as usize)).collect();
        let b = cmap_table(&subs, &tables);
        ctx.drive("cmap", &b, &cmap_walk);
        rel(ctx, "model", "cmap", &b, &cmap_check);
        ctx.count("tables");
    }
    ctx.drive_random("cmap", scale(ctx, 800), 80, &|bytes: &[u8], o: &mut Obs| {
        let mut v = bytes.to_vec();
        if v.len() >= 4 {
            v[2] = 0;
            v[3] &= 3;
        }
        cmap_walk(&v, o)
    });
}
