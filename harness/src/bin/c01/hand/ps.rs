//! PostScript (CFF / CFF2) hand-written code: `postscript/{index,dict,charset,fd_select,string,stack,blend}.rs`,
//! `cff.rs`, `cff2.rs`.  Correspondence with Model/HandIter.lean: `hd.index`, `hd.dict`, `hd.blues`,
//! `hd.charset`, `hd.fdsel`.
use super::*;
use font_types::{F2Dot14, Fixed, GlyphId};
use read_fonts::tables::cff::Cff;
use read_fonts::tables::cff2::Cff2;
use read_fonts::tables::postscript::dict::{self, Blues, Entry, Token};
use read_fonts::tables::postscript::{BlendState, Charset, Error, FdSelect, Index, Index1, Index2, Latin1String, Number, Stack, StringId};
use read_fonts::tables::variations::ItemVariationStore;
use read_fonts::{FontData, FontRead, ReadError};

fn ps_err(e: &Error) -> String {
    match e {
        Error::Read(ReadError::OutOfBounds) => "eO".into(),
        Error::Read(r) => format!("eR:{r:?}"),
        other => format!("e:{other:?}"),
    }
}

// ------------------------------------------------------------------------------------------------
// INDEX

/// CFF (format 1: u16 count) or CFF2 (format 2: u32 count) INDEX
pub fn index_bytes(items: &[Vec<u8>], off_size: u8, cff2: bool) -> B {
    let mut b = B::new();
    if cff2 {
        b.f32(items.len() as u32);
    } else {
        b.f16(items.len() as u16);
    }
    if items.is_empty() {
        return b;
    }
    b.f8(off_size);
    let mut off = 1u32;
    for k in 0..=items.len() {
        match off_size {
            1 => b.f8(off as u8),
            2 => b.f16(off as u16),
            3 => b.f24(off),
            4 => b.f32(off),
            _ => b.f8(off as u8),
        };
        if k < items.len() {
            off += items[k].len() as u32;
        }
    }
    for it in items {
        b.bytes(it);
    }
    b
}

fn index_walk(cff2: bool) -> impl Fn(&[u8], &mut Obs) {
    move |bytes: &[u8], o: &mut Obs| {
        let r = Index::new(bytes, cff2);
        if !o.res(&r) {
            return;
        }
        let ix = r.unwrap();
        let count = ix.count() as usize;
        o.note(count as u64);
        o.note(ix.subr_bias() as u64);
        o.note(ix.off_size() as u64);
        let sz = ix.size_in_bytes();
        o.res(&sz);
        let mut ids = edge_usize(&[count]);
        ids.extend(0..count.min(24));
        for i in ids {
            let a = ix.get_offset(i);
            o.res(&a);
            let g = ix.get(i);
            if o.res(&g) {
                o.note_bytes(g.unwrap());
            }
        }
        // the typed tables directly (size_in_bytes / get_offset / get are hand-written on both)
        if cff2 {
            if let Ok(t) = Index2::read(FontData::new(bytes)) {
                o.res(&t.size_in_bytes());
                for i in edge_usize(&[t.count() as usize]) {
                    o.res(&t.get_offset(i));
                    o.res(&t.get(i));
                }
            }
        } else if let Ok(t) = Index1::read(FontData::new(bytes)) {
            o.res(&t.size_in_bytes());
            for i in edge_usize(&[t.count() as usize]) {
                o.res(&t.get_offset(i));
                o.res(&t.get(i));
            }
        }
    }
}

/// `hd.index <1|2> <hex> <i>` → `<new> | <count> <offsize> <size_in_bytes> <get_offset(i)> <get(i)>`
fn index_case(ctx: &mut Ctx, bytes: &[u8], cff2: bool, i: usize) {
    let what = format!("hd.index {} {} {}", if cff2 { 2 } else { 1 }, hex(bytes), i);
    PROGRESS.fetch_add(1, Ordering::Relaxed);
    let r = catch(|| match Index::new(bytes, cff2) {
        Err(e) => ps_err(&e),
        Ok(ix) => {
            let kind = match &ix {
                Index::Empty => "empty",
                Index::Format1(_) => "f1",
                Index::Format2(_) => "f2",
            };
            format!(
                "{} {} {} {} {} {}",
                kind,
                ix.count(),
                ix.off_size(),
                ix.size_in_bytes().map(|v| v.to_string()).unwrap_or_else(|e| ps_err(&e.into())),
                ix.get_offset(i).map(|v| v.to_string()).unwrap_or_else(|e| ps_err(&e)),
                ix.get(i).map(|v| format!("ok{}", v.len())).unwrap_or_else(|e| ps_err(&e)),
            )
        }
    });
    match r {
        Ok(s) => ctx.case(what, s),
        Err(m) => ctx.oracle("no-panic", false, || what.clone(), || m.clone()),
    }
}

pub fn run_index(ctx: &mut Ctx) {
    let rounds = if ctx.thorough { 240 } else { 48 };
    for round in 0..rounds {
        let cff2 = round % 2 == 1;
        let off_size = match round % 12 {
            10 => 0,
            11 => 5,
            r => 1 + (r as u8 / 2) % 4,
        };
        let n = match ctx.rng.below(6) {
            0 => 0,
            1 => 1,
            _ => 1 + ctx.rng.below(9) as usize,
        };
        let items: Vec<Vec<u8>> = (0..n).map(|_| rbytes(&mut ctx.rng, 7)).collect();
        let mut b = index_bytes(&items, off_size, cff2);
        if ctx.rng.chance(1, 3) {
            b.bytes(&ctx.rng.bytes(3)); // trailing bytes after the object data
        }
        let f = index_walk(cff2);
        ctx.drive(if cff2 { "index2" } else { "index1" }, &b, &f);
        ctx.count(&format!("off_size{off_size}"));
        // correspondence on the base, its truncations and field values
        for i in [0usize, 1, n.saturating_sub(1), n, n + 1, usize::MAX] {
            index_case(ctx, &b.v, cff2, i);
        }
        for cut in 0..b.v.len().min(40) {
            let i = ctx.rng.below(n as u64 + 2) as usize;
            index_case(ctx, &b.v[..cut], cff2, i);
        }
        let mut m = b.v.clone();
        for (p, w) in b.fields.clone() {
            for v in [0u64, 1, 2, 0xFF, m.len() as u64, m.len() as u64 + 1] {
                let old = m[p..p + w as usize].to_vec();
                for k in 0..w as usize {
                    m[p + k] = (v >> (8 * (w as usize - 1 - k))) as u8;
                }
                let i = ctx.rng.below(n as u64 + 2) as usize;
                index_case(ctx, &m, cff2, i);
                m[p..p + w as usize].copy_from_slice(&old);
            }
        }
    }
    let f1 = index_walk(false);
    let f2 = index_walk(true);
    ctx.drive_random("index1", if ctx.thorough { 6000 } else { 800 }, 40, &f1);
    ctx.drive_random("index2", if ctx.thorough { 6000 } else { 800 }, 40, &f2);
    for _ in 0..(if ctx.thorough { 4000 } else { 600 }) {
        let n = ctx.rng.below(24) as usize;
        let mut v = ctx.rng.bytes(n);
        for x in v.iter_mut() {
            if ctx.rng.chance(2, 3) {
                *x &= 7;
            }
        }
        let cff2 = ctx.rng.chance(1, 2);
        let i = ctx.rng.below(6) as usize;
        index_case(ctx, &v, cff2, i);
    }
}

// ------------------------------------------------------------------------------------------------
// DICT

/// one operand in a randomly chosen encoding
pub fn dict_operand(rng: &mut Rng, out: &mut Vec<u8>) {
    match rng.below(8) {
        0 | 1 | 2 => out.push(32 + rng.below(215) as u8),
        3 => {
            out.push(247 + rng.below(4) as u8);
            out.push(rng.next() as u8);
        }
        4 => {
            out.push(251 + rng.below(4) as u8);
            out.push(rng.next() as u8);
        }
        5 => {
            out.push(28);
            out.extend_from_slice(&(rng.next() as u16).to_be_bytes());
        }
        6 => {
            out.push(29);
            let v: i32 = match rng.below(4) {
                0 => rng.next() as i32,
                1 => i32::MAX - rng.below(3) as i32,
                2 => i32::MIN + rng.below(3) as i32,
                _ => rng.range(-70000, 70000) as i32,
            };
            out.extend_from_slice(&v.to_be_bytes());
        }
        _ => {
            out.push(30);
            real_operand(rng, out);
        }
    }
}

/// nibble string of a real number: mostly well formed, sometimes not (two dots, dangling E, too long,
/// reserved nibble, missing terminator)
fn real_operand(rng: &mut Rng, out: &mut Vec<u8>) {
    let mut nib: Vec<u8> = vec![];
    let style = rng.below(10);
    if rng.chance(1, 3) {
        nib.push(0xE);
    }
    let int_digits = match style {
        8 => 30 + rng.below(6) as usize,
        _ => rng.below(6) as usize,
    };
    for _ in 0..int_digits {
        nib.push(rng.below(10) as u8);
    }
    if rng.chance(1, 2) {
        nib.push(0xA);
        for _ in 0..rng.below(5) {
            nib.push(rng.below(10) as u8);
        }
    }
    if rng.chance(1, 3) {
        nib.push(if rng.chance(1, 2) { 0xB } else { 0xC });
        for _ in 0..rng.below(4) {
            nib.push(rng.below(10) as u8);
        }
    }
    match style {
        6 => nib.push(0xD),
        7 => nib.insert(rng.below(nib.len() as u64 + 1) as usize, [0xA, 0xB, 0xE, 0xC][rng.below(4) as usize]),
        _ => {}
    }
    if style != 9 {
        nib.push(0xF);
    }
    if nib.len() % 2 == 1 {
        nib.push(0xF);
    }
    for p in nib.chunks(2) {
        out.push((p[0] << 4) | p[1]);
    }
}

const OPS1: [u8; 25] = [0, 1, 2, 3, 4, 5, 6, 7, 8, 9, 10, 11, 13, 14, 15, 16, 17, 18, 19, 20, 21, 22, 23, 24, 25];

fn dict_operator(rng: &mut Rng, out: &mut Vec<u8>) {
    if rng.chance(2, 5) {
        out.push(12);
        out.push(if rng.chance(1, 10) { rng.next() as u8 } else { rng.below(40) as u8 });
    } else if rng.chance(1, 2) {
        // the array operators, whose operands are consumed by fixed-size destinations
        out.push(*rng.pick(&[6u8, 7, 8, 9, 5, 18]));
    } else {
        out.push(*rng.pick(&OPS1));
    }
}

/// a DICT: entries with operand counts around every limit of the parser (Blues 14, StemSnaps 12,
/// blend / stack 513, FontMatrix 6, FontBBox 4)
pub fn dict_bytes(rng: &mut Rng, blend_heavy: bool) -> Vec<u8> {
    let mut out = vec![];
    let n_entries = 1 + rng.below(5);
    for _ in 0..n_entries {
        let n_operands = match rng.below(12) {
            0 => 0,
            1 => 1,
            2 => 2,
            3 => 3 + rng.below(4),
            4 => 11 + rng.below(3),
            5 => 13 + rng.below(4),
            6 => 15 + rng.below(20),
            7 => 46 + rng.below(4),
            8 => 510 + rng.below(6),
            _ => rng.below(8),
        };
        for _ in 0..n_operands {
            dict_operand(rng, &mut out);
        }
        if blend_heavy && rng.chance(1, 2) {
            // `<targets> <deltas> n blend`
            out.push(139 + rng.below(4) as u8);
            out.push(23);
            if rng.chance(1, 2) {
                continue;
            }
        }
        if blend_heavy && rng.chance(1, 4) {
            out.push(139 + rng.below(4) as u8);
            out.push(22); // vsindex
        }
        match rng.below(6) {
            0 => {
                // array operators with escape: StemSnapH / StemSnapV
                out.push(12);
                out.push(12 + rng.below(2) as u8);
            }
            _ => dict_operator(rng, &mut out),
        }
    }
    out
}

fn entry_digest(o: &mut Obs, e: &Entry) {
    o.note_str(&format!("{e:?}"));
    match e {
        Entry::BlueValues(b) | Entry::OtherBlues(b) | Entry::FamilyBlues(b) | Entry::FamilyOtherBlues(b) => {
            o.note(b.values().len() as u64);
        }
        Entry::StemSnapH(s) | Entry::StemSnapV(s) => o.note(s.values().len() as u64),
        _ => {}
    }
}

/// item variation store: `axis_count` axes, `n_regions` regions, `n_data` subtables
pub fn ivs_bytes(rng: &mut Rng, axis_count: u16, n_regions: u16, n_data: u16) -> B {
    let mut b = B::new();
    b.u16(1).f32(0).f16(n_data);
    let offs = b.len();
    for _ in 0..n_data {
        b.f32(0);
    }
    let at = b.len();
    b.set32(2, at as u32);
    b.f16(axis_count).f16(n_regions);
    for _ in 0..n_regions {
        for _ in 0..axis_count {
            let vals: [i16; 3] = match rng.below(4) {
                0 => [0, 0x4000, 0x4000],
                1 => [-0x4000, -0x4000, 0],
                2 => [0, 0x2000, 0x4000],
                _ => [rng.next() as i16, rng.next() as i16, rng.next() as i16],
            };
            b.i16(vals[0]).i16(vals[1]).i16(vals[2]);
        }
    }
    for k in 0..n_data {
        let at = b.len();
        b.set32(offs + 4 * k as usize, at as u32);
        let item_count = rng.below(4) as u16;
        let nri = match rng.below(5) {
            0 => 0,
            1 => 17 + rng.below(3) as u16,
            _ => 1 + rng.below(3) as u16,
        };
        let word = rng.below(nri as u64 + 1) as u16;
        b.f16(item_count).f16(word).f16(nri);
        for _ in 0..nri {
            b.u16(if n_regions == 0 || rng.chance(1, 10) { rng.below(n_regions as u64 + 3) as u16 } else { rng.below(n_regions as u64) as u16 });
        }
        let row = word as usize * 2 + (nri - word) as usize;
        b.bytes(&rng.bytes(row * item_count as usize));
    }
    b
}

fn dict_walk(bytes: &[u8], o: &mut Obs) {
    let len = bytes.len();
    // every token consumes at least one byte
    o.drain("tokens", len + 1, dict::tokens(bytes), |o, t| match t {
        Ok(Token::Operator(op)) => o.note_str(&format!("{op:?}")),
        Ok(Token::Operand(Number::I32(v))) => o.note(v as u64),
        Ok(Token::Operand(Number::Fixed(v))) => o.note(v.to_bits() as u64),
        Err(e) => o.note_str(&ps_err(&e)),
    });
    o.drain("entries", len + 1, dict::entries(bytes, None), |o, e| match e {
        Ok(e) => entry_digest(o, &e),
        Err(e) => o.note_str(&ps_err(&e)),
    });
}

/// `[ivs len u16][n coords u8][coords…][ivs][dict]`
fn dict_blend_walk(bytes: &[u8], o: &mut Obs) {
    if bytes.len() < 3 {
        return;
    }
    let ivs_len = u16::from_be_bytes([bytes[0], bytes[1]]) as usize;
    let nc = bytes[2] as usize;
    let Some(coord_bytes) = bytes.get(3..3 + 2 * nc) else { return };
    let coords: Vec<F2Dot14> = coord_bytes.chunks(2).map(|c| F2Dot14::from_bits(i16::from_be_bytes([c[0], c[1]]))).collect();
    let Some(ivs) = bytes.get(3 + 2 * nc..3 + 2 * nc + ivs_len) else { return };
    let dict_data = &bytes[3 + 2 * nc + ivs_len..];
    let Ok(store) = ItemVariationStore::read(FontData::new(ivs)) else {
        o.note(9);
        return;
    };
    for ix in [0u16, 1, 2, 0xFFFF] {
        let st = BlendState::new(store.clone(), &coords, ix);
        if !o.res(&st) {
            continue;
        }
        let mut st = st.unwrap();
        o.res(&st.region_count());
        if let Ok(sc) = st.scalars() {
            o.drain("scalars", ivs.len() + 17, sc, |o, s| {
                o.note(s.map(|f| f.to_bits() as u64).unwrap_or(7));
            });
        }
        for k in [0u16, 1, 5, 0xFFFF] {
            o.res(&st.set_store_index(k));
        }
        let _ = st.set_store_index(ix);
        o.drain("entries+blend", dict_data.len() + 1, dict::entries(dict_data, Some(st)), |o, e| match e {
            Ok(e) => entry_digest(o, &e),
            Err(e) => o.note_str(&ps_err(&e)),
        });
    }
}

fn render_entry(e: &Result<Entry, Error>) -> String {
    match e {
        Err(e) => match e {
            Error::Read(ReadError::OutOfBounds) => "eO".into(),
            Error::StackOverflow => "eSO".into(),
            Error::StackUnderflow => "eSU".into(),
            Error::InvalidStackAccess(i) => format!("eSA{i}"),
            Error::ExpectedI32StackEntry(i) => format!("eI{i}"),
            Error::InvalidNumber => "eN".into(),
            Error::InvalidDictOperator(b) => format!("eOp{b}"),
            Error::MissingBlendState => "eMB".into(),
            other => format!("e?{other:?}"),
        },
        Ok(e) => {
            let d = format!("{e:?}");
            let name = d.split(|c: char| !c.is_alphanumeric()).next().unwrap_or("").to_string();
            match e {
                Entry::BlueValues(b) | Entry::OtherBlues(b) | Entry::FamilyBlues(b) | Entry::FamilyOtherBlues(b) => format!("{name}:{}", b.values().len()),
                Entry::StemSnapH(s) | Entry::StemSnapV(s) => format!("{name}:{}", s.values().len()),
                Entry::CharstringsOffset(v) | Entry::VariationStoreOffset(v) | Entry::FdArrayOffset(v) | Entry::FdSelectOffset(v) | Entry::SubrsOffset(v) | Entry::Encoding(v) | Entry::Charset(v) => format!("{name}:{v}"),
                Entry::PrivateDictRange(r) => format!("{name}:{}:{}", r.start, r.end),
                Entry::PaintType(v) | Entry::CharstringType(v) | Entry::LanguageGroup(v) | Entry::UniqueId(v) | Entry::SyntheticBase(v) | Entry::CidFontType(v) | Entry::UidBase(v) | Entry::InitialRandomSeed(v) => format!("{name}:{v}"),
                Entry::CidCount(v) => format!("{name}:{v}"),
                Entry::VariationStoreIndex(v) => format!("{name}:{v}"),
                Entry::IsFixedPitch(v) | Entry::ForceBold(v) => format!("{name}:{}", *v as u8),
                Entry::Version(s) | Entry::Notice(s) | Entry::FullName(s) | Entry::FamilyName(s) | Entry::Weight(s) | Entry::Copyright(s) | Entry::PostScript(s) | Entry::BaseFontName(s) | Entry::FontName(s) => format!("{name}:{}", s.to_u16()),
                Entry::Ros { registry, ordering, .. } => format!("{name}:{}:{}", registry.to_u16(), ordering.to_u16()),
                _ => name,
            }
        }
    }
}

/// `hd.dict <hex>` → entries of `dict::entries(data, None)` rendered coarsely (variant, integer
/// payloads, array lengths; the values of real numbers are not rendered)
fn dict_case(ctx: &mut Ctx, bytes: &[u8]) {
    let what = format!("hd.dict {}", hex(bytes));
    PROGRESS.fetch_add(1, Ordering::Relaxed);
    let r = catch(|| {
        let mut out: Vec<String> = vec![];
        for (k, e) in dict::entries(bytes, None).enumerate() {
            if k > bytes.len() + 1 {
                out.push("!".into());
                break;
            }
            out.push(render_entry(&e));
        }
        join(&out)
    });
    match r {
        Ok(s) => ctx.case(what, s),
        Err(m) => ctx.oracle("no-panic", false, || what.clone(), || m.clone()),
    }
}

pub fn run_dict(ctx: &mut Ctx) {
    let rounds = if ctx.thorough { 1500 } else { 260 };
    for _ in 0..rounds {
        let d = dict_bytes(&mut ctx.rng, false);
        let b = B { v: d.clone(), fields: vec![] };
        if d.len() <= 200 {
            ctx.drive("dict", &b, &dict_walk);
        } else {
            ctx.call("dict", &d, &dict_walk);
            for _ in 0..24 {
                let cut = ctx.rng.below(d.len() as u64) as usize;
                ctx.call("dict", &d[..cut], &dict_walk);
            }
        }
        dict_case(ctx, &d);
        if d.len() <= 64 {
            for cut in 0..d.len() {
                dict_case(ctx, &d[..cut]);
            }
        }
    }
    // exactly n operands in front of every array operator, n around the destination sizes
    for op in [vec![6u8], vec![7], vec![8], vec![9], vec![12, 12], vec![12, 13], vec![5], vec![12, 7], vec![18], vec![12, 30]] {
        for n in (0..=20).chain([47, 48, 49, 512, 513, 514]) {
            for style in 0..3 {
                let mut d = vec![];
                for i in 0..n {
                    match style {
                        0 => d.push(139 + (i % 50) as u8),
                        1 => dict_operand(&mut ctx.rng, &mut d),
                        _ => {
                            d.push(30);
                            d.extend_from_slice(&[0x1A, 0x5F]);
                        }
                    }
                }
                d.extend_from_slice(&op);
                ctx.call("dict", &d, &dict_walk);
                dict_case(ctx, &d);
            }
        }
    }
    ctx.count("array-operator-sweeps");
    // Blues::new on its own (public constructor): every length around the cap
    for n in 0..=40usize {
        let what = format!("hd.blues {n}");
        PROGRESS.fetch_add(1, Ordering::Relaxed);
        let r = catch(|| {
            let b = Blues::new((0..n).map(|i| Fixed::from_i32(i as i32)));
            let v = b.values();
            let ok = v.iter().enumerate().all(|(k, (a, c))| *a == Fixed::from_i32(2 * k as i32) && *c == Fixed::from_i32(2 * k as i32 + 1));
            format!("{} {}", v.len(), ok as u8)
        });
        match r {
            Ok(s) => {
                ctx.oracle("no-panic", true, String::new, String::new);
                ctx.case(what, s)
            }
            Err(m) => ctx.oracle("no-panic", false, || format!("Blues::new with {n} values"), || m.clone()),
        }
    }
    ctx.drive_random("dict", if ctx.thorough { 20000 } else { 3000 }, 48, &dict_walk);
    for _ in 0..(if ctx.thorough { 6000 } else { 1200 }) {
        let n = ctx.rng.below(20) as usize;
        let mut v = ctx.rng.bytes(n);
        for x in v.iter_mut() {
            if ctx.rng.chance(1, 2) {
                *x = *ctx.rng.pick(&[6u8, 7, 12, 28, 29, 30, 139, 247, 251, 255, 0x1F, 0xFF, 22, 23]);
            }
        }
        dict_case(ctx, &v);
    }
}

pub fn run_blend(ctx: &mut Ctx) {
    let rounds = if ctx.thorough { 900 } else { 160 };
    for round in 0..rounds {
        let axis_count = 1 + ctx.rng.below(3) as u16;
        let n_regions = ctx.rng.below(20) as u16;
        let n_data = 1 + ctx.rng.below(3) as u16;
        let ivs = ivs_bytes(&mut ctx.rng, axis_count, n_regions, n_data);
        let nc = if round % 4 == 0 { ctx.rng.below(5) as usize } else { axis_count as usize };
        let mut b = B::new();
        b.u16(ivs.len() as u16).u8(nc as u8);
        for _ in 0..nc {
            b.i16(match ctx.rng.below(4) {
                0 => 0,
                1 => 0x4000,
                2 => -0x4000,
                _ => ctx.rng.next() as i16,
            });
        }
        b.append(&ivs);
        let d = dict_bytes(&mut ctx.rng, true);
        b.bytes(&d);
        if b.len() <= 400 {
            ctx.drive("dict+blend", &b, &dict_blend_walk);
        } else {
            ctx.call("dict+blend", &b.v, &dict_blend_walk);
        }
    }
}

// ------------------------------------------------------------------------------------------------
// Stack

pub fn run_stack(ctx: &mut Ctx) {
    // operation scripts on the public Stack API: p<i32> P<fixed bits> o(pop_i32) O(pop_fixed) g<i> G<i>
    // r(everse) c(lear) d(elta prefix sum) a<first>(fixed_array::<4>) v(alues)
    let rounds = if ctx.thorough { 6000 } else { 900 };
    for _ in 0..rounds {
        let n = ctx.rng.below(40) as usize;
        let pre = *ctx.rng.pick(&[0usize, 0, 1, 5, 511, 512, 513]);
        let mut script: Vec<(u8, i64)> = vec![];
        for _ in 0..n {
            let op = *ctx.rng.pick(&[b'p', b'p', b'P', b'o', b'O', b'g', b'G', b'r', b'c', b'd', b'a', b'v', b'e', b'l']);
            let arg: i64 = match op {
                b'p' | b'P' => match ctx.rng.below(4) {
                    0 => i32::MAX as i64,
                    1 => i32::MIN as i64,
                    _ => ctx.rng.range(-100000, 100000),
                },
                _ => *ctx.rng.pick(&[0i64, 1, 2, 511, 512, 513, 514, 1000, usize::MAX as i64]),
            };
            script.push((op, arg));
        }
        let what = format!("stack pre={pre} {}", script.iter().map(|(o, a)| format!("{}{}", *o as char, a)).collect::<Vec<_>>().join(" "));
        PROGRESS.fetch_add(1, Ordering::Relaxed);
        let r = catch(|| {
            let mut st = Stack::new();
            for i in 0..pre {
                let _ = st.push(i as i32);
            }
            let mut acc = 0u64;
            for (op, arg) in &script {
                let a = *arg as usize;
                match op {
                    b'p' => acc += st.push(*arg as i32).is_ok() as u64,
                    b'P' => acc += st.push(Fixed::from_bits(*arg as i32)).is_ok() as u64,
                    b'o' => acc += st.pop_i32().is_ok() as u64,
                    b'O' => acc += st.pop_fixed().is_ok() as u64,
                    b'g' => acc += st.get_i32(a).is_ok() as u64,
                    b'G' => acc += st.get_fixed(a).is_ok() as u64,
                    b'r' => st.reverse(),
                    b'c' => st.clear(),
                    b'd' => st.apply_delta_prefix_sum(),
                    b'a' => acc += st.fixed_array::<4>(a).is_ok() as u64 + st.fixed_array::<6>(a).is_ok() as u64,
                    b'v' => acc += st.fixed_values().count() as u64 + st.number_values().count() as u64,
                    b'e' => acc += st.verify_exact_len(a).is_ok() as u64 + st.verify_at_least_len(a).is_ok() as u64,
                    _ => acc += st.len() as u64 + st.is_empty() as u64 + st.len_is_odd() as u64,
                }
                assert!(st.len() <= 513);
            }
            acc
        });
        ctx.oracle("no-panic", r.is_ok(), || what.clone(), || format!("{:?}", r.clone().err()));
    }
}

// ------------------------------------------------------------------------------------------------
// charset

#[derive(Clone)]
struct CharsetSpec {
    format: u8,
    /// format 0: sids; format 1/2: (first, n_left)
    sids: Vec<u16>,
    ranges: Vec<(u16, u16)>,
}

impl CharsetSpec {
    fn bytes(&self) -> B {
        let mut b = B::new();
        b.f8(self.format);
        match self.format {
            0 => {
                for s in &self.sids {
                    b.u16(*s);
                }
            }
            1 => {
                for (f, n) in &self.ranges {
                    b.u16(*f).f8(*n as u8);
                }
            }
            _ => {
                for (f, n) in &self.ranges {
                    b.u16(*f).f16(*n);
                }
            }
        }
        b
    }
    fn req(&self) -> String {
        match self.format {
            0 => format!("0 {}", join(&self.sids)),
            f => format!("{f} {}", join(&self.ranges.iter().flat_map(|(a, b)| [*a as u32, if f == 1 { *b as u32 & 0xFF } else { *b as u32 }]).collect::<Vec<_>>())),
        }
    }
    fn total(&self) -> u64 {
        match self.format {
            0 => self.sids.len() as u64 + 1,
            1 => self.ranges.iter().map(|(_, n)| (*n as u64 & 0xFF) + 1).sum::<u64>() + 1,
            _ => self.ranges.iter().map(|(_, n)| *n as u64 + 1).sum::<u64>() + 1,
        }
    }
}

/// `[offset u32][num_glyphs u32][cff data…]`
fn charset_walk(bytes: &[u8], o: &mut Obs) {
    if bytes.len() < 8 {
        return;
    }
    let offset = u32::from_be_bytes([bytes[0], bytes[1], bytes[2], bytes[3]]) as usize;
    let num_glyphs = u32::from_be_bytes([bytes[4], bytes[5], bytes[6], bytes[7]]);
    let data = &bytes[8..];
    let r = Charset::new(FontData::new(data), offset, num_glyphs);
    if !o.res(&r) {
        return;
    }
    let cs = r.unwrap();
    o.note(cs.num_glyphs() as u64);
    // bound of the iterator by kind: predefined charsets have fixed sizes, format 0 has one entry per
    // u16 of data, a range record (3 / 4 bytes) yields at most 256 / 65536 glyphs
    let by_kind = match offset {
        0..=2 => 400,
        _ => {
            let body = data.len().saturating_sub(offset + 1);
            match data.get(offset) {
                Some(0) => body / 2 + 1,
                Some(1) => body / 3 * 256 + 1,
                _ => body / 4 * 65536 + 1,
            }
        }
    };
    let bound = by_kind.min(num_glyphs as usize);
    for g in edge32(&[num_glyphs as u64, 228, 229, 165, 166, 86, 87]) {
        let r = cs.string_id(GlyphId::new(g));
        o.res(&r);
        if let Ok(s) = r {
            o.note(s.to_u16() as u64);
        }
    }
    o.drain("charset.iter", bound + 1, cs.iter(), |o, (g, s)| {
        o.note(g.to_u32() as u64);
        o.note(s.to_u16() as u64);
    });
}

fn charset_case(ctx: &mut Ctx, spec: &CharsetSpec, num_glyphs: u32, gids: &[u32]) {
    let data = {
        let mut v = vec![0u8; 3];
        v.extend_from_slice(&spec.bytes().v);
        v
    };
    let what = format!("hd.charset {} {} | {}", num_glyphs, join(gids), spec.req());
    PROGRESS.fetch_add(1, Ordering::Relaxed);
    let total = spec.total();
    let r = catch(|| {
        let cs = match Charset::new(FontData::new(&data), 3, num_glyphs) {
            Ok(c) => c,
            Err(_) => return "err".to_string(),
        };
        let ids: Vec<String> = gids.iter().map(|g| cs.string_id(GlyphId::new(*g)).map(|s| s.to_u16().to_string()).unwrap_or("e".into())).collect();
        let mut n = 0u64;
        let mut h: u64 = 14695981039346656037;
        let mut last = (0u32, 0u16);
        for (g, s) in cs.iter() {
            n += 1;
            if n > total + 2 {
                return "runaway".to_string();
            }
            h = (h ^ g.to_u32() as u64).wrapping_mul(1099511628211);
            h = (h ^ s.to_u16() as u64).wrapping_mul(1099511628211);
            last = (g.to_u32(), s.to_u16());
        }
        format!("{} | {} {} {}:{}", join(&ids), n, h, last.0, last.1)
    });
    match r {
        Ok(s) => ctx.case(what, s),
        Err(m) => ctx.oracle("no-panic", false, || what.clone(), || m.clone()),
    }
}

pub fn run_charset(ctx: &mut Ctx) {
    let rounds = if ctx.thorough { 600 } else { 110 };
    for round in 0..rounds {
        let format = (round % 3) as u8;
        let n = ctx.rng.below(6) as usize;
        let spec = CharsetSpec {
            format,
            sids: (0..n).map(|_| ctx.rng.next() as u16).collect(),
            ranges: (0..n)
                .map(|_| {
                    let first = match ctx.rng.below(4) {
                        0 => 0xFFFF - ctx.rng.below(40) as u16,
                        _ => ctx.rng.below(2000) as u16,
                    };
                    let nl = match ctx.rng.below(5) {
                        0 => 0,
                        1 => 0xFF,
                        2 if format == 2 => 0xFFFF - ctx.rng.below(2) as u16,
                        _ => ctx.rng.below(20) as u16,
                    };
                    (first, nl)
                })
                .collect(),
        };
        let total = spec.total();
        for num_glyphs in [0u32, 1, 2, total as u32 - 1, total as u32, total as u32 + 1, 0xFFFF, 0x10000, u32::MAX] {
            let mut b = B::new();
            b.f32(3).f32(num_glyphs); // charset at data offset 3
            b.bytes(&[0xAA, 0xBB, 0xCC]);
            b.append(&spec.bytes());
            if num_glyphs == total as u32 || num_glyphs == u32::MAX {
                ctx.drive("charset", &b, &charset_walk);
            } else {
                ctx.call("charset", &b.v, &charset_walk);
            }
            let gids = edge32(&[num_glyphs as u64, total, total / 2]);
            let gids: Vec<u32> = gids.into_iter().filter(|_| ctx.rng.chance(1, 2)).collect();
            charset_case(ctx, &spec, num_glyphs, &gids);
        }
        ctx.count(&format!("format{format}"));
    }
    // predefined charsets
    for offset in 0u32..3 {
        for num_glyphs in [0u32, 1, 86, 87, 88, 165, 166, 167, 228, 229, 230, 378, 379, 65535, u32::MAX] {
            let mut b = B::new();
            b.u32(offset).u32(num_glyphs);
            ctx.call("charset", &b.v, &charset_walk);
        }
    }
    ctx.drive_random("charset", if ctx.thorough { 6000 } else { 900 }, 40, &charset_walk);
}

// ------------------------------------------------------------------------------------------------
// FDSelect

fn fdselect_walk(bytes: &[u8], o: &mut Obs) {
    let r = FdSelect::read(FontData::new(bytes));
    if !o.res(&r) {
        return;
    }
    let fds = r.unwrap();
    let mut firsts: Vec<u64> = vec![bytes.len() as u64];
    match &fds {
        FdSelect::Format3(t) => firsts.extend(t.ranges().iter().map(|r| r.first() as u64)),
        FdSelect::Format4(t) => firsts.extend(t.ranges().iter().map(|r| r.first() as u64)),
        _ => {}
    }
    for g in edge32(&firsts) {
        let v = fds.font_index(GlyphId::new(g));
        o.note(v.map(|x| x as u64 + 1).unwrap_or(0));
    }
}

fn fdselect_case(ctx: &mut Ctx, format: u8, ranges: &[(u32, u16)], bytes: &[u8], gids: &[u32]) {
    let what = format!("hd.fdsel {} {} | {}", format, join(gids), join(&ranges.iter().flat_map(|(a, b)| [*a, *b as u32]).collect::<Vec<_>>()));
    PROGRESS.fetch_add(1, Ordering::Relaxed);
    let r = catch(|| match FdSelect::read(FontData::new(bytes)) {
        Err(_) => "err".to_string(),
        Ok(f) => join(&gids.iter().map(|g| f.font_index(GlyphId::new(*g)).map(|v| v.to_string()).unwrap_or("n".into())).collect::<Vec<_>>()),
    });
    match r {
        Ok(s) => ctx.case(what, s),
        Err(m) => ctx.oracle("no-panic", false, || what.clone(), || m.clone()),
    }
}

pub fn run_fdselect(ctx: &mut Ctx) {
    let rounds = if ctx.thorough { 900 } else { 150 };
    for round in 0..rounds {
        let format = [0u8, 3, 4][round % 3];
        let n = ctx.rng.below(7) as usize;
        // strictly increasing `first` values (the lookup is a binary search)
        let mut firsts: Vec<u32> = (0..n).map(|_| ctx.rng.below(if format == 4 { 200000 } else { 60000 }) as u32).collect();
        firsts.sort();
        firsts.dedup();
        if ctx.rng.chance(1, 2) && !firsts.is_empty() {
            firsts[0] = 0;
            firsts.sort();
            firsts.dedup();
        }
        let ranges: Vec<(u32, u16)> = firsts.iter().map(|f| (*f, if format == 3 { ctx.rng.below(256) as u16 } else { ctx.rng.next() as u16 })).collect();
        let mut b = B::new();
        b.f8(format);
        match format {
            0 => {
                for (_, fd) in &ranges {
                    b.u8(*fd as u8);
                }
            }
            3 => {
                b.f16(ranges.len() as u16);
                for (f, fd) in &ranges {
                    b.u16(*f as u16).u8(*fd as u8);
                }
                b.u16(0xFFFF);
            }
            _ => {
                b.f32(ranges.len() as u32);
                for (f, fd) in &ranges {
                    b.u32(*f).u16(*fd);
                }
                b.u32(0xFFFF_FFFF);
            }
        }
        ctx.drive("fdselect", &b, &fdselect_walk);
        let mut interesting: Vec<u64> = ranges.iter().map(|r| r.0 as u64).collect();
        interesting.push(ranges.len() as u64);
        let gids = edge32(&interesting);
        let ranges_for_model: Vec<(u32, u16)> = if format == 0 { ranges.iter().enumerate().map(|(i, r)| (i as u32, r.1 & 0xFF)).collect() } else { ranges.clone() };
        fdselect_case(ctx, format, &ranges_for_model, &b.v, &gids);
        ctx.count(&format!("format{format}"));
    }
    ctx.drive_random("fdselect", if ctx.thorough { 8000 } else { 1200 }, 40, &fdselect_walk);
}

// ------------------------------------------------------------------------------------------------
// strings

pub fn run_string(ctx: &mut Ctx) {
    for id in (0u32..=0xFFFF).step_by(1) {
        if !(id < 420 || id > 0xFF00 || id % 257 == 0) {
            continue;
        }
        PROGRESS.fetch_add(1, Ordering::Relaxed);
        let r = catch(|| {
            let sid = StringId::new(id as u16);
            match sid.standard_string() {
                Ok(s) => {
                    let t = s.to_string();
                    assert!(s == t.as_str());
                    s.chars().count() + s.bytes().len()
                }
                Err(ix) => ix,
            }
        });
        ctx.oracle("no-panic", r.is_ok(), || format!("StringId {id}"), || format!("{:?}", r.clone().err()));
        let from = catch(|| StringId::from(id as i32 - 70000).to_u16());
        ctx.oracle("no-panic", from.is_ok(), || format!("StringId::from {}", id as i32 - 70000), String::new);
    }
    for _ in 0..(if ctx.thorough { 3000 } else { 400 }) {
        let n = ctx.rng.below(40) as usize;
        let b = ctx.rng.bytes(n);
        ctx.call("latin1", &b, &|bytes: &[u8], o: &mut Obs| {
            let s = Latin1String::new(bytes);
            o.drain("chars", bytes.len() + 1, s.chars(), |o, c| o.note(c as u64));
            let t = s.to_string();
            o.note((s == t.as_str()) as u64);
            o.note_bytes(s.bytes());
        });
    }
}

// ------------------------------------------------------------------------------------------------
// whole CFF / CFF2 tables

fn cff_walk(bytes: &[u8], o: &mut Obs) {
    let r = Cff::read(FontData::new(bytes));
    if !o.res(&r) {
        return;
    }
    let cff = r.unwrap();
    let len = bytes.len();
    let n_names = cff.names().count() as usize;
    for i in edge_usize(&[n_names]) {
        if let Some(s) = cff.name(i) {
            o.note_bytes(s.bytes());
        }
    }
    for id in edge16(&[390, 391, 392, 391 + cff.strings().count() as u32]) {
        if let Some(s) = cff.string(StringId::new(id)) {
            o.note_bytes(s.bytes());
        }
    }
    o.res(&cff.global_subrs().size_in_bytes());
    let n_top = cff.top_dicts().count() as usize;
    for i in edge_usize(&[n_top]) {
        let r = cff.charset(i);
        o.res(&r);
        if let Ok(Some(cs)) = r {
            let bound = (65536 * (len / 3 + 1) + 400).min(cs.num_glyphs() as usize);
            o.drain("charset.iter", bound + 1, cs.iter(), |o, (g, s)| {
                o.note(g.to_u32() as u64);
                o.note(s.to_u16() as u64);
            });
        }
        if let Ok(td) = cff.top_dicts().get(i) {
            o.drain("entries", td.len() + 1, dict::entries(td, None), |o, e| {
                o.note(e.is_ok() as u64);
            });
        }
    }
}

fn cff2_walk(bytes: &[u8], o: &mut Obs) {
    let r = Cff2::read(FontData::new(bytes));
    if !o.res(&r) {
        return;
    }
    let cff2 = r.unwrap();
    let td = cff2.top_dict_data();
    o.drain("entries", td.len() + 1, dict::entries(td, None), |o, e| {
        o.note(e.is_ok() as u64);
    });
    o.res(&cff2.global_subrs().size_in_bytes());
    let n = cff2.global_subrs().count() as usize;
    for i in edge_usize(&[n]) {
        o.res(&cff2.global_subrs().get(i));
    }
    o.note(cff2.offset_data().len() as u64);
}

pub fn run_cff(ctx: &mut Ctx) {
    let rounds = if ctx.thorough { 300 } else { 50 };
    for round in 0..rounds {
        // --- CFF: header, Name INDEX, Top DICT INDEX, String INDEX, Global Subr INDEX, charset, CharStrings
        let off_size = 1 + (round % 4) as u8;
        let names = index_bytes(&[b"Font".to_vec()], off_size, false);
        let strings_items: Vec<Vec<u8>> = (0..ctx.rng.below(4)).map(|_| rbytes(&mut ctx.rng, 6)).collect();
        let strings = index_bytes(&strings_items, off_size, false);
        let gsubrs = index_bytes(&(0..ctx.rng.below(3)).map(|_| vec![14u8]).collect::<Vec<_>>(), off_size, false);
        let n_glyphs = 1 + ctx.rng.below(6) as usize;
        let charstrings = index_bytes(&(0..n_glyphs).map(|_| vec![14u8]).collect::<Vec<_>>(), off_size, false);
        let cs_format = (round % 3) as u8;
        let charset = CharsetSpec {
            format: cs_format,
            sids: (1..n_glyphs).map(|i| 391 + i as u16).collect(),
            ranges: vec![(391, n_glyphs.saturating_sub(2) as u16)],
        }
        .bytes();
        // Top DICT with 5-byte integer operands so that its size is fixed: charset (15), CharStrings (17)
        let mut body = B::new();
        body.u8(1).u8(0).f8(4).f8(off_size);
        body.append(&names);
        let top_dict_len = 5 + 1 + 5 + 1 + if round % 7 == 6 { 3 * 1 + 2 } else { 0 };
        let top_index_len = 2 + 1 + 2 * off_size as usize + top_dict_len;
        let after = body.len() + top_index_len + strings.len() + gsubrs.len();
        let charset_at = after;
        let charstrings_at = after + charset.len();
        let mut td = vec![29u8];
        td.extend_from_slice(&(charset_at as i32).to_be_bytes());
        td.push(15);
        td.push(29);
        td.extend_from_slice(&(charstrings_at as i32).to_be_bytes());
        td.push(17);
        if round % 7 == 6 {
            td.extend_from_slice(&[139, 139, 139, 12, 30]); // ROS: CID-keyed
        }
        let top = index_bytes(&[td], off_size, false);
        assert_eq!(top.len(), top_index_len);
        body.append(&top);
        body.append(&strings);
        body.append(&gsubrs);
        body.append(&charset);
        body.append(&charstrings);
        ctx.drive("cff", &body, &cff_walk);
        // --- CFF2: header (5 bytes), top dict, global subrs
        let mut b2 = B::new();
        let td2 = dict_bytes(&mut ctx.rng, false);
        let td2 = if td2.len() > 60 { vec![139, 17] } else { td2 };
        b2.u8(2).u8(0).f8(5).f16(td2.len() as u16);
        b2.bytes(&td2);
        let gs = index_bytes(&(0..ctx.rng.below(4)).map(|_| ctx.rng.bytes(2)).collect::<Vec<_>>(), off_size, true);
        b2.append(&gs);
        ctx.drive("cff2", &b2, &cff2_walk);
    }
    ctx.drive_random("cff", if ctx.thorough { 4000 } else { 500 }, 64, &cff_walk);
    ctx.drive_random("cff2", if ctx.thorough { 4000 } else { 500 }, 64, &cff2_walk);
}

// ------------------------------------------------------------------------------------------------
// charstrings (`postscript/charstring.rs`): the evaluator is modelled and bounded under property C02
// (Model/Charstring.lean); here it is driven for the no-panic oracle on generated programs.

struct CountSink(u64);
impl read_fonts::tables::postscript::charstring::CommandSink for CountSink {
    fn move_to(&mut self, x: Fixed, y: Fixed) {
        self.0 = self.0.wrapping_mul(31).wrapping_add(x.to_bits() as u64 ^ ((y.to_bits() as u64) << 1));
    }
    fn line_to(&mut self, x: Fixed, y: Fixed) {
        self.0 = self.0.wrapping_mul(33).wrapping_add(x.to_bits() as u64 ^ ((y.to_bits() as u64) << 1));
    }
    fn curve_to(&mut self, a: Fixed, b: Fixed, c: Fixed, d: Fixed, e: Fixed, f: Fixed) {
        for v in [a, b, c, d, e, f] {
            self.0 = self.0.wrapping_mul(37).wrapping_add(v.to_bits() as u64);
        }
    }
    fn close(&mut self) {
        self.0 = self.0.wrapping_add(1);
    }
    fn hstem(&mut self, y: Fixed, dy: Fixed) {
        self.0 = self.0.wrapping_mul(41).wrapping_add(y.to_bits() as u64 ^ dy.to_bits() as u64);
    }
    fn vstem(&mut self, x: Fixed, dx: Fixed) {
        self.0 = self.0.wrapping_mul(43).wrapping_add(x.to_bits() as u64 ^ dx.to_bits() as u64);
    }
    fn hint_mask(&mut self, mask: &[u8]) {
        self.0 = self.0.wrapping_mul(47).wrapping_add(mask.len() as u64);
    }
    fn counter_mask(&mut self, mask: &[u8]) {
        self.0 = self.0.wrapping_mul(53).wrapping_add(mask.len() as u64);
    }
}

const CS_OPS: [u8; 25] = [1, 3, 4, 5, 6, 7, 8, 10, 11, 14, 15, 16, 18, 19, 20, 21, 22, 23, 24, 25, 26, 27, 29, 30, 31];

fn charstring_bytes(rng: &mut Rng, max_ops: usize, allow_calls: bool) -> Vec<u8> {
    let mut out = vec![];
    for _ in 0..1 + rng.below(max_ops as u64) {
        let n = match rng.below(8) {
            0 => 0,
            1 => 1,
            2 => 2,
            3 => 4,
            4 => 6,
            5 => 7 + rng.below(8),
            6 => 47 + rng.below(4),
            _ => rng.below(14),
        };
        for _ in 0..n {
            match rng.below(6) {
                0 | 1 | 2 => out.push(32 + rng.below(215) as u8),
                3 => {
                    out.push(247 + rng.below(8) as u8);
                    out.push(rng.next() as u8);
                }
                4 => {
                    out.push(28);
                    out.extend_from_slice(&(rng.next() as u16).to_be_bytes());
                }
                _ => {
                    out.push(255);
                    out.extend_from_slice(&(rng.next() as u32).to_be_bytes());
                }
            }
        }
        let op = match rng.below(10) {
            0 => {
                out.push(12);
                if rng.chance(1, 8) { rng.next() as u8 } else { 34 + rng.below(4) as u8 }
            }
            _ => *rng.pick(&CS_OPS),
        };
        if (op == 10 || op == 29) && !allow_calls {
            out.push(21);
        } else {
            out.push(op);
        }
        if (op == 19 || op == 20) && rng.chance(3, 4) {
            out.extend(rbytes(rng, 4));
        }
    }
    out
}

/// `[len gsubrs u16][len subrs u16][gsubrs INDEX][subrs INDEX][charstring]`
fn charstring_walk(bytes: &[u8], o: &mut Obs) {
    use read_fonts::tables::postscript::charstring;
    if bytes.len() < 5 {
        return;
    }
    let cff2 = bytes[0] & 1 == 1;
    let lg = u16::from_be_bytes([bytes[1], bytes[2]]) as usize;
    let ls = u16::from_be_bytes([bytes[3], bytes[4]]) as usize;
    let Some(g) = bytes.get(5..5 + lg) else { return };
    let Some(l) = bytes.get(5 + lg..5 + lg + ls) else { return };
    let cs = &bytes[5 + lg + ls..];
    let Ok(gs) = Index::new(g, cff2) else {
        o.note(8);
        return;
    };
    let ls = Index::new(l, cff2).ok();
    let mut sink = CountSink(0);
    let r = charstring::evaluate(cs, gs, ls, None, &mut sink);
    o.note(sink.0);
    match r {
        Ok(()) => o.note(1),
        Err(e) => o.note_str(&ps_err(&e)),
    }
}

pub fn run_charstring(ctx: &mut Ctx) {
    let rounds = if ctx.thorough { 2500 } else { 420 };
    for round in 0..rounds {
        let cff2 = round % 2 == 1;
        // subroutines are tiny (at most two calls each), so the call tree stays small: the fan-out
        // blow-up of the evaluator is a known finding of property C02, not re-reported here
        let ng = ctx.rng.below(4) as usize;
        let nl = ctx.rng.below(4) as usize;
        let mk = |rng: &mut Rng| {
            let mut v = vec![];
            for _ in 0..rng.below(3) {
                match rng.below(3) {
                    0 => v.extend_from_slice(&[139 - 107 + rng.below(4) as u8, 10]),
                    1 => v.extend_from_slice(&[139 - 107 + rng.below(4) as u8, 29]),
                    _ => v.extend(charstring_bytes(rng, 1, false)),
                }
            }
            if rng.chance(2, 3) {
                v.push(11);
            }
            v
        };
        let gsub: Vec<Vec<u8>> = (0..ng).map(|_| mk(&mut ctx.rng)).collect();
        let lsub: Vec<Vec<u8>> = (0..nl).map(|_| mk(&mut ctx.rng)).collect();
        let gi = index_bytes(&gsub, 1 + (round % 4) as u8, cff2);
        let li = index_bytes(&lsub, 1 + (round / 4 % 4) as u8, cff2);
        let mut b = B::new();
        b.u8(cff2 as u8).u16(gi.len() as u16).u16(li.len() as u16);
        b.append(&gi);
        b.append(&li);
        let cs = charstring_bytes(&mut ctx.rng, 6, true);
        b.bytes(&cs);
        if b.len() <= 300 {
            ctx.drive("charstring", &b, &charstring_walk);
        } else {
            ctx.call("charstring", &b.v, &charstring_walk);
        }
    }
}
